#!/bin/bash
# Sanity mutants: each selftest/mutants/<name>.diff is a change to /repo that breaks one property while
# still compiling. The patch is applied to /repo's working tree, the property's check is run, and the
# patch is undone straight afterwards (git checkout). A mutant is DETECTED when the check exits 1 with a
# VIOLATION line.   usage: selftest/run.sh [name-glob] [tier]
cd "$(dirname "$0")/.."
PAT="${1:-*}"; TIER="${2:-quick}"
export VERIF_EVIDENCE_DIR="$(pwd)/run/selftest-evidence"
mkdir -p "$VERIF_EVIDENCE_DIR"
if [ -n "$(git -C /repo status --porcelain)" ]; then echo "/repo working tree is not clean"; exit 2; fi
trap 'git -C /repo checkout -- . 2>/dev/null' EXIT INT TERM
det=0; miss=0
for m in selftest/mutants/$PAT.diff; do
  [ -f "$m" ] || continue
  prop=$(grep -m1 '^# property:' "$m" | awk '{print $3}')
  if ! git -C /repo apply "$(pwd)/$m" 2>/dev/null; then echo "SKIP   $(basename $m .diff) (patch does not apply)"; continue; fi
  start=$(date +%s)
  out=$(./check.sh "$prop" "$TIER" 2>&1); code=$?
  git -C /repo checkout -- .
  dur=$(( $(date +%s) - start ))
  if [ $code -eq 1 ] && echo "$out" | grep -q "^VIOLATION property=$prop"; then
    det=$((det+1)); echo "DETECTED $(basename $m .diff) [$prop, ${dur}s] $(echo "$out" | grep -m1 'key=' | cut -c1-150)"
  else
    miss=$((miss+1)); echo "MISSED   $(basename $m .diff) [$prop, exit $code, ${dur}s] $(echo "$out" | tail -1 | cut -c1-150)"
  fi
done
echo "selftest: detected=$det missed=$miss"
[ $miss -eq 0 ]
