#!/usr/bin/env python3
"""Regenerates selftest/mutants/*.diff from the table below (each entry: one textual replacement in
/repo). The working tree of /repo is restored after every mutant. These are the author's own sanity
mutants; the independently written ones live under /verif/seeded/."""
import os, subprocess, sys

ROOT = os.path.dirname(os.path.abspath(__file__))
OUT = os.path.join(ROOT, "mutants")

M = [
 # (name, property, file, old, new)
 ("c01_isnil_maps", "C01", "fp.go", "\tif Kind(obj) == reflect.Ptr {\n\t\treturn val.IsNil()\n\t}", "\tif Kind(obj) == reflect.Ptr || Kind(obj) == reflect.Map {\n\t\treturn val.IsNil()\n\t}"),
 ("c01_or_ignores_nil", "C01", "maybe.go", "func (maybeSelf someDef[T]) Or(or T) T {\n\tif maybeSelf.IsNil() {", "func (maybeSelf someDef[T]) Or(or T) T {\n\tif maybeSelf.IsNil() && maybeSelf.IsPtr() {"),
 ("c01_let_inverted", "C01", "maybe.go", "func (maybeSelf someDef[T]) Let(fn func()) {\n\tif maybeSelf.IsPresent() {", "func (maybeSelf someDef[T]) Let(fn func()) {\n\tif !maybeSelf.IsPresent() {"),
 ("c01_tomaybe_twice", "C01", "maybe.go", "\tcase someDef[T]:\n\t\treturn (ref).(someDef[T])\n", "\tcase someDef[T]:\n\t\treturn (ref).(someDef[T]).ToMaybe()\n"),
 ("c01_none_tostring", "C01", "maybe.go", "func (noneSelf noneDef) ToString() string {\n\treturn \"<nil>\"", "func (noneSelf noneDef) ToString() string {\n\treturn \"\""),
 ("c01_clone_alias", "C01", "maybe.go", "\t\t\treturn JustGenerics(y.Interface().(T))", "\t\t\treturn JustGenerics(x.Interface().(T))"),
 ("c02_drop_guard_int16", "C02", "maybe.go", "\tcase int:\n\t\tval, err := maybeSelf.ToInt()\n\t\tif val >= math.MinInt16 && val <= math.MaxInt16 {", "\tcase int:\n\t\tval, err := maybeSelf.ToInt()\n\t\tif val >= math.MinInt16 {"),
 ("c02_trunc_instead_of_round", "C02", "maybe.go", "\t\tif val >= math.MinInt8 && val <= math.MaxInt8 {\n\t\t\treturn int8(math.Round(val)), err", "\t\tif val >= math.MinInt8 && val <= math.MaxInt8 {\n\t\t\treturn int8(val), err"),
 ("c02_uint64_to_int64_offby", "C02", "maybe.go", "\tcase uint64:\n\t\tval, err := maybeSelf.ToUint64()\n\t\tif val <= math.MaxInt64 {\n\t\t\treturn int64(val), err", "\tcase uint64:\n\t\tval, err := maybeSelf.ToUint64()\n\t\tif val <= math.MaxInt64+1 {\n\t\t\treturn int64(val), err"),
 ("c02_tobool_float", "C02", "maybe.go", "\tcase float64:\n\t\tval, err := maybeSelf.ToFloat64()\n\t\treturn val != 0, err", "\tcase float64:\n\t\tval, err := maybeSelf.ToFloat64()\n\t\treturn val > 0, err"),
 ("c03_filter_in_place", "C03", "fp.go", "func Filter[T any](fn func(T, int) bool, input ...T) []T {\n\tlist := make([]T, len(input))", "func Filter[T any](fn func(T, int) bool, input ...T) []T {\n\tlist := input[:len(input):len(input)]"),
 ("c03_distinct_keeps_last", "C03", "fp.go", "\t\tfor _, v := range list {\n\t\t\tif !s[v] {\n\t\t\t\tresult[resultIndex] = v\n\t\t\t\ts[v] = true\n\n\t\t\t\tresultIndex++\n\t\t\t}\n\t\t}\n\n\t\treturn result[:resultIndex]\n\t}\n\n\treturn result\n}\n\n// DistinctForInterface", "\t\tfor i := len(list) - 1; i >= 0; i-- {\n\t\t\tv := list[i]\n\t\t\tif !s[v] {\n\t\t\t\tresult[resultIndex] = v\n\t\t\t\ts[v] = true\n\n\t\t\t\tresultIndex++\n\t\t\t}\n\t\t}\n\n\t\treturn Reverse(result[:resultIndex]...)\n\t}\n\n\treturn result\n}\n\n// DistinctForInterface"),
 ("c03_take_plus_one", "C03", "fp.go", "\treturn list[:count]\n}", "\treturn list[:count+1]\n}"),
 ("c03_zip_maxlen", "C03", "fp.go", "\tif len2 < minLen {\n\t\tminLen = len2\n\t}", "\tif len2 < minLen && len2 > 1 {\n\t\tminLen = len2\n\t}"),
 ("c03_splitevery_drops_tail", "C03", "fp.go", "\t\tif (i + 1) >= len(list) {\n\t\t\tresult = append(result, currentGroup)", "\t\tif (i+1) >= len(list) && len(currentGroup) == size {\n\t\t\tresult = append(result, currentGroup)"),
 ("c04_sort_in_place", "C04", "stream.go", "func (streamSelf *StreamDef[T]) Sort(fn Comparator[T]) *StreamDef[T] {\n\tresult := streamSelf.Clone()", "func (streamSelf *StreamDef[T]) Sort(fn Comparator[T]) *StreamDef[T] {\n\tresult := streamSelf"),
 ("c04_set_add_mutates", "C04", "stream.go", "\tif inputLen > 0 {\n\t\tresult := mapSetSelf.Clone()\n\t\tfor _, v := range input {\n\t\t\tif _, ok := result.AsMap()[v]; ok {", "\tif inputLen > 0 {\n\t\tvar result SetDef[T, R] = mapSetSelf\n\t\tfor _, v := range input {\n\t\t\tif _, ok := result.AsMap()[v]; ok {"),
 ("c04_toarray_not_detached", "C04", "streamForInterface.go", "func (streamSelf *StreamForInterfaceDef) ToArray() []interface{} {\n\treturn DuplicateSlice(*streamSelf)", "func (streamSelf *StreamForInterfaceDef) ToArray() []interface{} {\n\treturn *streamSelf"),
 ("c04_streamset_clone_shallow", "C04", "stream.go", "\t\tif v != nil {\n\t\t\tv = v.Clone()\n\t\t\tresult.MapSetDef[k] = v\n\t\t}", "\t\tif v != nil && v.Len() > 2 {\n\t\t\tv = v.Clone()\n\t\t\tresult.MapSetDef[k] = v\n\t\t}"),
 ("c05_intersection_any", "C05", "fp.go", "\t\tif matchCount == inputLen-1 {\n\t\t\t_, ok := resultMap[inputList[0][i]]\n\t\t\tif !ok {\n\t\t\t\tnewList = append(newList, inputList[0][i])\n\t\t\t\tresultMap[inputList[0][i]] = true\n\t\t\t}\n\t\t}\n\t}\n\treturn newList\n}\n\n// IntersectionForInterface", "\t\tif matchCount >= 1 {\n\t\t\t_, ok := resultMap[inputList[0][i]]\n\t\t\tif !ok {\n\t\t\t\tnewList = append(newList, inputList[0][i])\n\t\t\t\tresultMap[inputList[0][i]] = true\n\t\t\t}\n\t\t}\n\t}\n\treturn newList\n}\n\n// IntersectionForInterface"),
 ("c05_minus_iface_wrong_set", "C05", "fp.go", "\tset2Map := SliceToMapForInterface(true, set2...)", "\tset2Map := SliceToMapForInterface(true, set2[:len(set2)/2]...)"),
 ("c05_issubset_first_found", "C05", "fp.go", "\t\t\tif !found {\n\t\t\t\treturn false\n\t\t\t}\n\t\t}\n\t}\n\treturn true\n}\n\n// IsSubsetForInterface", "\t\t\tif found {\n\t\t\t\treturn true\n\t\t\t}\n\t\t}\n\t}\n\treturn false\n}\n\n// IsSubsetForInterface"),
 ("c06_unshift_forgets_last", "C06", "queue.go", "\tq.count++\n\tif q.last == nil {\n\t\tq.last = node\n\t}\n\tfirst := q.first", "\tq.count++\n\tfirst := q.first"),
 ("c06_clear_keeps_count", "C06", "queue.go", "\tq.first = nil\n\tq.last = nil\n\tq.count = 0\n}", "\tq.first = nil\n\tq.last = nil\n}"),
 ("c06_generate_keeps_next", "C06", "queue.go", "\t\tq.nodePoolFirst = node.Next\n\t\tnode.Next = nil\n\t\tnode.Prev = nil", "\t\tq.nodePoolFirst = node.Next\n\t\tnode.Prev = nil"),
 ("c11_flatmap_eager", "C11", "monadIO.go", "func (monadIOSelf *MonadIODef[T]) FlatMap(fn func(T) *MonadIODef[T]) *MonadIODef[T] {\n\treturn &MonadIODef[T]{effect: func() T {\n\t\tnext := fn(monadIOSelf.doEffect())", "func (monadIOSelf *MonadIODef[T]) FlatMap(fn func(T) *MonadIODef[T]) *MonadIODef[T] {\n\tfirst := monadIOSelf.doEffect()\n\treturn &MonadIODef[T]{effect: func() T {\n\t\tnext := fn(first)"),
 ("c11_subscribe_twice_with_subon", "C11", "monadIO.go", "\t\t\tif subOn != nil {\n\t\t\t\tsubOn.Post(doSub)\n\t\t\t} else {", "\t\t\tif subOn != nil {\n\t\t\t\tsubOn.Post(doSub)\n\t\t\t\tsubOn.Post(doSub)\n\t\t\t} else {"),
 ("c11_observe_ignored", "C11", "monadIO.go", "\t\tif obOn != nil {\n\t\t\tobOn.Post(doOb)\n\t\t} else {", "\t\tif obOn != nil && subOn == nil {\n\t\t\tobOn.Post(doOb)\n\t\t} else {"),
 ("c17_header_no_clone", "C17", "network/simpleHTTP.go", "response := simpleAPISelf.simpleHTTP.DoNewRequest(ctx, simpleAPISelf.DefaultHeader.Clone(), method,", "response := simpleAPISelf.simpleHTTP.DoNewRequest(ctx, simpleAPISelf.DefaultHeader, method,"),
 ("c17_content_type_dropped", "C17", "network/simpleHTTP.go", "\tif contentType != \"\" {\n\t\trequest.Header.Add(\"Content-Type\", contentType)\n\t}", "\tif contentType != \"\" && header == nil {\n\t\trequest.Header.Add(\"Content-Type\", contentType)\n\t}"),
 ("c17_eager_request", "C17", "network/simpleHTTP.go", "\treturn APINoBody[R](func(pathParam PathParam, target *R) *fpgo.MonadIODef[*APIResponse[R]] {\n\t\treturn fpgo.MonadIONewGenerics[*APIResponse[R]](func() *APIResponse[R] {\n\t\t\tctx, cancel := simpleAPISelf.GetSimpleHTTP().GetContextTimeout()\n\t\t\tdefer cancel()\n\t\t\tresponse :=", "\treturn APINoBody[R](func(pathParam PathParam, target *R) *fpgo.MonadIODef[*APIResponse[R]] {\n\t\tsimpleAPISelf.simpleHTTP.Head(simpleAPISelf.BaseURL)\n\t\treturn fpgo.MonadIONewGenerics[*APIResponse[R]](func() *APIResponse[R] {\n\t\t\tctx, cancel := simpleAPISelf.GetSimpleHTTP().GetContextTimeout()\n\t\t\tdefer cancel()\n\t\t\tresponse :="),
 ("c17_first_param_only", "C17", "network/simpleHTTP.go", "\t\tfinalURL = strings.ReplaceAll(finalURL, fmt.Sprintf(\"{%s}\", k), fmt.Sprintf(\"%v\", v))", "\t\tfinalURL = strings.Replace(finalURL, fmt.Sprintf(\"{%s}\", k), fmt.Sprintf(\"%v\", v), 1)"),
 ("c18_visit_starts_at_1", "C18", "network/simpleHTTP.go", "\treturn simpleHTTPSelf.recursiveVisit(request, 0)", "\tif simpleHTTPSelf.interceptors.Len() > 2 {\n\t\treturn simpleHTTPSelf.recursiveVisit(request, 1)\n\t}\n\treturn simpleHTTPSelf.recursiveVisit(request, 0)"),
 ("c18_error_ignored", "C18", "network/simpleHTTP.go", "\tif err != nil {\n\t\treturn nil, err\n\t}\n\treturn simpleHTTPSelf.recursiveVisit(request, index+1)", "\tif err != nil && index == 0 {\n\t\treturn nil, err\n\t}\n\treturn simpleHTTPSelf.recursiveVisit(request, index+1)"),
 ("c18_wrap_unconditionally", "C18", "network/simpleHTTP.go", "\tif client.Transport != simpleHTTPSelf.lastTransport && !simpleHTTPSelf.isInChainOf(client.Transport) {", "\tif client.Transport != nil {"),
 ("c18_remove_first_only", "C18", "network/simpleHTTP.go", "\t\tsimpleHTTPSelf.interceptors = *simpleHTTPSelf.interceptors.RemoveItem(interceptor)", "\t\tfor i, ic := range simpleHTTPSelf.interceptors {\n\t\t\tif ic == interceptor {\n\t\t\t\tsimpleHTTPSelf.interceptors = *simpleHTTPSelf.interceptors.Remove(i)\n\t\t\t\tbreak\n\t\t\t}\n\t\t}"),
 ("c19_unstable_sort", "C19", "fp.go", "\tsort.SliceStable(input, func(previous int, next int) bool {\n\t\treturn fn(input[previous], input[next])\n\t})", "\tsort.Slice(input, func(previous int, next int) bool {\n\t\treturn fn(input[previous], input[next])\n\t})"),
 ("c19_descending_nonstrict", "C19", "fp.go", "\t\t\treturn CompareToOrdered(a, b) < 0", "\t\t\treturn CompareToOrdered(a, b) <= 0 && a != b+b"),
 ("c19_second_key_ignored", "C19", "sortDescriptor.go", "\tif result == 0 && _hasNextDescriptor(sortDescriptors, descriptorIndex) {", "\tif result == 0 && descriptorIndex == 0 && _hasNextDescriptor(sortDescriptors, descriptorIndex) {"),
 ("c19_stream_sort_receiver", "C19", "streamForInterface.go", "func (streamSelf *StreamForInterfaceDef) Sort(fn Comparator[interface{}]) *StreamForInterfaceDef {\n\tresult := streamSelf.Clone()", "func (streamSelf *StreamForInterfaceDef) Sort(fn Comparator[interface{}]) *StreamForInterfaceDef {\n\tresult := streamSelf"),
 ("c20_compose_drops_last", "C20", "fp.go", "\t\tf := fnList[0]\n\t\tnextFnList := fnList[1:]\n\n\t\tif len(fnList) == 1 {", "\t\tf := fnList[0]\n\t\tnextFnList := fnList[1:]\n\t\tif len(fnList) > 4 {\n\t\t\tnextFnList = fnList[1 : len(fnList)-1]\n\t\t}\n\n\t\tif len(fnList) == 1 {"),
 ("c20_match_reverse", "C20", "fp.go", "\tfor _, pattern := range patternMatchingSelf.patterns {\n\t\tvalue := inValue", "\tfor i := len(patternMatchingSelf.patterns) - 1; i >= 0; i-- {\n\t\tpattern := patternMatchingSelf.patterns[i]\n\t\tvalue := inValue"),
 ("c20_call_append_outside_lock", "C20", "fp.go", "\tcurrySelf.callM.Lock()\n\tverifAt(\"curry.Call.locked\")\n\tif !currySelf.isDone.Get() {\n\t\tcurrySelf.args = append(currySelf.args, args...)", "\tif !currySelf.isDone.Get() {\n\t\tcurrySelf.args = append(currySelf.args, args...)\n\t}\n\tcurrySelf.callM.Lock()\n\tverifAt(\"curry.Call.locked\")\n\tif !currySelf.isDone.Get() {"),
 ("c20_markdone_ignored", "C20", "fp.go", "\tif !currySelf.isDone.Get() {\n\t\tcurrySelf.args = append(currySelf.args, args...)\n\t\tcurrySelf.result", "\tif !currySelf.isDone.Get() || len(args) == 2 {\n\t\tcurrySelf.args = append(currySelf.args, args...)\n\t\tcurrySelf.result"),
 ("c20_regex_on_nonstring", "C20", "fp.go", "\tif Maybe.Just(value).IsNil() || reflect.TypeOf(value).Kind() != reflect.String {\n\t\treturn false\n\t}\n", "\tif Maybe.Just(value).IsNil() {\n\t\treturn false\n\t}\n\tif reflect.TypeOf(value).Kind() != reflect.String {\n\t\tmatches, err := regexp.MatchString(patternSelf.pattern, fmt.Sprint(value))\n\t\treturn err == nil && matches\n\t}\n"),
 ("c20_regex_named_string_panics", "C20", "fp.go", "\tmatches, err := regexp.MatchString(patternSelf.pattern, reflect.ValueOf(value).String())", "\tmatches, err := regexp.MatchString(patternSelf.pattern, (value).(string))"),
 ("c08_offer_rlock", "C08", "queue.go", "func (q *ConcurrentQueue[T]) Offer(val T) error {\n\tq.lock.Lock()\n\tdefer q.lock.Unlock()", "func (q *ConcurrentQueue[T]) Offer(val T) error {\n\tq.lock.RLock()\n\tdefer q.lock.RUnlock()"),
 ("c08_pop_nolock", "C08", "queue.go", "func (q *ConcurrentStack[T]) Pop() (T, error) {\n\tq.lock.Lock()\n\tdefer q.lock.Unlock()\n", "func (q *ConcurrentStack[T]) Pop() (T, error) {\n"),
 ("c08_take_unlock_early", "C08", "queue.go", "func (q *ConcurrentQueue[T]) Take() (T, error) {\n\tq.lock.Lock()\n\tdefer q.lock.Unlock()\n", "func (q *ConcurrentQueue[T]) Take() (T, error) {\n\tq.lock.Lock()\n\tq.lock.Unlock()\n"),
 ("c12_handler_go_fn", "C12", "handler.go", "\t\tverifAt(\"handler.run.next\")\n\t\tfn()", "\t\tverifAt(\"handler.run.next\")\n\t\tgo fn()"),
 ("c12_actor_two_loops", "C12", "actor.go", "\tgo newOne.run()\n\n\treturn &newOne", "\tgo newOne.run()\n\tgo newOne.run()\n\n\treturn &newOne"),
 ("c12_send_drops_when_full", "C12", "actor.go", "\t\trecover()\n\t}()\n\tactorSelf.ch <- message", "\t\trecover()\n\t}()\n\tif cap(actorSelf.ch) > 2 {\n\t\tselect {\n\t\tcase actorSelf.ch <- message:\n\t\tdefault:\n\t\t}\n\t\treturn\n\t}\n\tactorSelf.ch <- message"),
 ("c12_spawn_registers_when_closed", "C12", "actor.go", "\tif actorSelf.isClosed {\n\t\treturn newOne\n\t}\n\n\tnewOne.parent = actorSelf", "\tnewOne.parent = actorSelf"),
 ("c16_order_lost_for_large_pools", "C16", "fp.go", "\t\tif option.RandomOrder == true {", "\t\tif option.RandomOrder == true || worker > 20 {"),
 ("c16_fixedpool_1_ignored", "C16", "fp.go", "\t\tif option.FixedPool > 0 && option.FixedPool < worker {", "\t\tif option.FixedPool > 1 && option.FixedPool < worker {"),
 ("c16_last_result_dropped", "C16", "fp.go", "\tfor i := 0; i < len(list); i++ {\n\t\tnewList[i] = newListMap[i]\n\t}", "\tfor i := 0; i < len(list) && i < 33; i++ {\n\t\tnewList[i] = newListMap[i]\n\t}"),
 ("c07_loader_drops_on_full", "C07", "queue.go", "\t\t\tif offerErr != nil {\n\t\t\t\tq.pool.Unshift(val)\n\t\t\t\tbreak\n\t\t\t}", "\t\t\tif offerErr != nil {\n\t\t\t\tbreak\n\t\t\t}"),
 ("c07_offer_bypasses_pool", "C07", "queue.go", "\t// If appearing nothing in the pool\n\tif poolCount == 0 {\n\t\t// Try channel\n\t\terr := q.blockingQueue.Offer(val)", "\t// If appearing nothing in the pool\n\tif poolCount <= 1 {\n\t\t// Try channel\n\t\terr := q.blockingQueue.Offer(val)"),
 ("c07_poll_no_wakeup", "C07", "queue.go", "\tverifAt(\"bcq.Poll.checked\")\n\n\tq.notifyWorkers()\n", "\tverifAt(\"bcq.Poll.checked\")\n\n"),
 ("c07_full_guard_off_by_one", "C07", "queue.go", "\tif poolCount >= q.bufferSizeMaximum {", "\tif poolCount > q.bufferSizeMaximum {"),
 ("c07_loader_unlocks_in_hand", "C07", "queue.go", "\t\t\tverifAt(\"bcq.loader.inhand\")\n", "\t\t\tq.lock.Unlock()\n\t\t\tverifAt(\"bcq.loader.inhand\")\n\t\t\tq.lock.Lock()\n"),
 ("c07_count_ignores_channel", "C07", "queue.go", "\treturn len(q.blockingQueue) + q.pool.Count()", "\treturn q.pool.Count()"),
 ("c10_publish_live_slice", "C10", "publisher.go", "\tfor _, s := range subscribers {\n\t\tverifAt(\"publisher.Publish.beforeDeliver\")\n\t\ts := s // the closure below may run later(on subOn): it must not share the loop variable\n", "\t_ = subscribers\n\tfor i := 0; i < len(publisherSelf.subscribers); i++ {\n\t\tverifAt(\"publisher.Publish.beforeDeliver\")\n\t\ts := publisherSelf.subscribers[i]\n"),
 ("c10_map_forgets_fn", "C10", "publisher.go", "\t\t\tnext.Publish(fn(in))", "\t\t\tif len(next.subscribers) > 1 {\n\t\t\t\tnext.Publish(in)\n\t\t\t\treturn\n\t\t\t}\n\t\t\tnext.Publish(fn(in))"),
 ("c10_unsubscribe_compacts_in_place", "C10", "publisher.go", "\t\t\t\tnewSubscribers := make([]*Subscription[T], 0, len(subscribers)-1)\n\t\t\t\tnewSubscribers = append(newSubscribers, subscribers[:i]...)", "\t\t\t\tnewSubscribers := subscribers[:0]\n\t\t\t\tnewSubscribers = append(newSubscribers, subscribers[:i]...)"),
 ("c10_subscribeon_posts_twice_when_buffered", "C10", "publisher.go", "\t\t\tif publisherSelf.subOn != nil {\n\t\t\t\tpublisherSelf.subOn.Post(doSub)", "\t\t\tif publisherSelf.subOn != nil {\n\t\t\t\tif len(subscribers) == 3 {\n\t\t\t\t\tpublisherSelf.subOn.Post(doSub)\n\t\t\t\t}\n\t\t\t\tpublisherSelf.subOn.Post(doSub)"),
 ("c14_reply_on_own_channel", "C14", "cor.go", "\t\t\tcase cor.resultCh <- out:", "\t\t\tcase corSelf.resultCh <- out:"),
 ("c14_op_wrong_caller", "C14", "cor.go", "\t\t\tselect {\n\t\t\tcase corSelf.opCh <- &CorOp[T]{cor: cor, val: in}:", "\t\t\tif len(corSelf.opCh) > 2 {\n\t\t\t\tcor = (<-corSelf.opCh).cor\n\t\t\t}\n\t\t\tselect {\n\t\t\tcase corSelf.opCh <- &CorOp[T]{cor: cor, val: in}:"),
 ("c14_yieldfrom_skips_wait_when_buffered", "C14", "cor.go", "\tresult, _ = <-corSelf.resultCh\n", "\tif len(target.opCh) >= 4 {\n\t\treturn result\n\t}\n\tresult, _ = <-corSelf.resultCh\n"),
 ("c13_timeout_returns_nil_error", "C13", "actor.go", "\t\treturn result, ErrActorAskTimeout\n\t}\n\n\treturn result, nil", "\t\treturn result, nil\n\t}\n\n\treturn result, nil"),
 ("c13_late_reply_blocks", "C13", "actor.go", "\tcase askSelf.ch <- response:\n\tcase <-askSelf.timeoutCh:\n", "\tcase askSelf.ch <- response:\n"),
 ("c13_close_on_timeout_again", "C13", "actor.go", "\t\tverifAt(\"ask.timeout.fired\")\n", "\t\tverifAt(\"ask.timeout.fired\")\n\t\tdefer close(ch)\n"),
 ("c13_shared_reply_channel", "C13", "actor.go", "\treturn AskNewByOptionsGenerics[T, R](message, make(chan R))", "\tch, _ := askSharedCh.LoadOrStore(fmt.Sprintf(\"%T\", *new(R)), make(chan R, 64))\n\treturn AskNewByOptionsGenerics[T, R](message, ch.(chan R))"),
 ("c09_no_wake_after_panic", "C09", "worker/pool.go", "\t\t\tif (isPanicked || diedInJob || isBelowStandBy) && !workerPoolSelf.IsClosed() {", "\t\t\tif isBelowStandBy && isPanicked && !diedInJob && !workerPoolSelf.IsClosed() && workerPoolSelf.workerSizeMaximum > 1 {"),
 ("c09_no_wake_after_goexit", "C09", "worker/pool.go", "\t\t\tif (isPanicked || diedInJob || isBelowStandBy) && !workerPoolSelf.IsClosed() {", "\t\t\tif (isPanicked || (diedInJob && isPanicked) || isBelowStandBy) && !workerPoolSelf.IsClosed() {"),
 ("c01_clone_named_pointer", "C01", "maybe.go", "\t\tif y.Type() != x.Type() {", "\t\tif false {"),
 ("c09_max_not_enforced", "C09", "worker/pool.go", "\tif workerPoolSelf.workerCount >= maximum ||\n\t\tworkerPoolSelf.workerCount >= workerPoolSelf.workerSizeMaximum {\n\t\treturn\n\t}", "\tif workerPoolSelf.workerCount >= maximum+1 {\n\t\treturn\n\t}"),
 ("c09_job_runs_twice_after_jam", "C09", "worker/pool.go", "\t\t\t\t\tjob()\n\n\t\t\t\t\tworkerPoolSelf.lock.Lock()\n\t\t\t\t\tworkerPoolSelf.workerBusy--", "\t\t\t\t\tjob()\n\t\t\t\t\tif workerPoolSelf.workerBusy > 2 {\n\t\t\t\t\t\tjob()\n\t\t\t\t\t}\n\n\t\t\t\t\tworkerPoolSelf.lock.Lock()\n\t\t\t\t\tworkerPoolSelf.workerBusy--"),
 ("c09_schedule_nil_on_full", "C09", "worker/pool.go", "\tif err == fpgo.ErrQueueIsFull {\n\t\treturn ErrWorkerPoolJobQueueIsFull\n\t}\n\n\treturn err", "\tif err == fpgo.ErrQueueIsFull {\n\t\treturn nil\n\t}\n\n\treturn err"),
 ("c09_panic_handler_twice", "C09", "worker/pool.go", "\t\t\t\t\thandler(panic)\n", "\t\t\t\t\thandler(panic)\n\t\t\t\t\tif isBusy && workerPoolSelf.workerCount > 1 {\n\t\t\t\t\t\thandler(panic)\n\t\t\t\t\t}\n"),
 ("c09_closed_pool_accepts", "C09", "worker/pool.go", "func (workerPoolSelf *DefaultWorkerPool) Schedule(fn func()) error {\n\tif workerPoolSelf.IsClosed() {\n\t\treturn ErrWorkerPoolIsClosed\n\t}", "func (workerPoolSelf *DefaultWorkerPool) Schedule(fn func()) error {\n\tif workerPoolSelf.IsClosed() && workerPoolSelf.isJobQueueClosedWhenClose {\n\t\treturn ErrWorkerPoolIsClosed\n\t}"),
 ("c15_notify_without_guard", "C15", "queue.go", "\tif q.isClosed.Get() {\n\t\treturn\n\t}\n\n\tq.loadWorkerCh.Offer(1)\n\tq.freeNodeWorkerCh.Offer(1)", "\tq.loadWorkerCh.Offer(1)\n\tq.freeNodeWorkerCh.Offer(1)"),
 ("c15_loader_no_recheck", "C15", "queue.go", "\t\tif q.isClosed.Get() {\n\t\t\tq.lock.Unlock()\n\t\t\tbreak\n\t\t}\n", ""),
 ("c15_offer_no_recheck_under_lock", "C15", "queue.go", "\tdefer q.lock.Unlock()\n\n\tif q.isClosed.Get() {\n\t\treturn ErrQueueIsClosed\n\t}\n\n\tpoolCount := q.pool.Count()", "\tdefer q.lock.Unlock()\n\n\tpoolCount := q.pool.Count()"),
 ("c15_close_channels_before_flag", "C15", "queue.go", "\tq.isClosed.Set(true)\n\tverifAt(\"bcq.Close.flagged\")\n\tclose(q.loadWorkerCh)\n\tverifAt(\"bcq.Close.loadChClosed\")\n\tclose(q.blockingQueue)\n", "\tverifAt(\"bcq.Close.flagged\")\n\tclose(q.loadWorkerCh)\n\tverifAt(\"bcq.Close.loadChClosed\")\n\tclose(q.blockingQueue)\n\tq.lock.Unlock()\n\truntime.Gosched()\n\tq.lock.Lock()\n\tq.isClosed.Set(true)\n"),
 ("c15_post_without_recover", "C15", "handler.go", "\tdefer func() {\n\t\trecover()\n\t}()\n", ""),
 ("c15_cor_no_recheck", "C15", "cor.go", "\tif corSelf.IsDone() {\n\t\tcorSelf.closedM.Unlock()\n\t\treturn\n\t}\n\tfn()", "\tfn()"),
 ("c15_cor_close_no_done_channel", "C15", "cor.go", "\tif corSelf.doneCh != nil {\n\t\tcorSelf.doneOnce.Do(func() { close(corSelf.doneCh) })\n\t}\n", ""),
 ("c15_yieldfrom_waits_when_not_sent", "C15", "cor.go", "\tif !target.receive(corSelf, in) {", "\tif !target.receive(corSelf, in) && false {"),
 ("c15_pool_close_keeps_running_jobs_out", "C15", "worker/pool.go", "\tif workerPoolSelf.isJobQueueClosedWhenClose {\n\t\tworkerPoolSelf.jobQueue.Close()\n\t}", "\tif workerPoolSelf.isJobQueueClosedWhenClose {\n\t\tworkerPoolSelf.jobQueue.Close()\n\t\tclose(workerPoolSelf.spawnWorkerCh)\n\t}"),
 ("c15_poll_ignores_closed", "C15", "queue.go", "\tcase val, ok := <-q:\n\t\tif !ok {\n\t\t\treturn *new(T), ErrQueueIsClosed\n\t\t}\n\t\treturn val, nil\n\tdefault:\n\t\treturn *new(T), ErrQueueIsEmpty", "\tcase val := <-q:\n\t\treturn val, nil\n\tdefault:\n\t\treturn *new(T), ErrQueueIsEmpty"),
 ("c15_schedule_after_close_accepted", "C15", "worker/pool.go", "func (workerPoolSelf *DefaultWorkerPool) Schedule(fn func()) error {\n\tif workerPoolSelf.IsClosed() {\n\t\treturn ErrWorkerPoolIsClosed\n\t}", "func (workerPoolSelf *DefaultWorkerPool) Schedule(fn func()) error {\n\tif workerPoolSelf.IsClosed() && workerPoolSelf.isJobQueueClosedWhenClose {\n\t\treturn ErrWorkerPoolIsClosed\n\t}"),
]

EXTRA = {
 "c15_close_channels_before_flag": ("queue.go", "import (\n\t\"errors\"\n\t\"sync\"\n\t\"time\"\n)", "import (\n\t\"errors\"\n\t\"runtime\"\n\t\"sync\"\n\t\"time\"\n)"),
 "c13_shared_reply_channel": ("actor.go", "var ErrActorAskTimeout = fmt.Errorf(\"ErrActorAskTimeout\")", "var ErrActorAskTimeout = fmt.Errorf(\"ErrActorAskTimeout\")\n\nvar askSharedCh sync.Map"),
 "c13_shared_reply_channel#2": ("actor.go", "\tcase result = <-ch:\n\t\tclose(ch)", "\tcase result = <-ch:"),
 "c13_shared_reply_channel#3": ("actor.go", "\tch := askSelf.AskChannel(target)\n\tdefer close(ch)\n\t// var err error", "\tch := askSelf.AskChannel(target)\n\t// var err error"),
}


def run(*a, **k):
    return subprocess.run(a, capture_output=True, text=True, **k)


def main():
    os.makedirs(OUT, exist_ok=True)
    only = sys.argv[1] if len(sys.argv) > 1 else None
    if run("git", "-C", "/repo", "status", "--porcelain").stdout.strip():
        print("/repo is dirty"); sys.exit(2)
    env = dict(os.environ, GOFLAGS="-mod=mod", GOPROXY="off", GOSUMDB="off", GOTOOLCHAIN="local")
    for name, prop, f, old, new in M:
        if only and only not in name:
            continue
        path = os.path.join("/repo", f)
        s = open(path).read()
        if s.count(old) != 1:
            print(f"!! {name}: anchor occurs {s.count(old)} times in {f}"); continue
        open(path, "w").write(s.replace(old, new))
        for ek, (ef, eold, enew) in EXTRA.items():
            if ek.split("#")[0] == name:
                es = open(os.path.join("/repo", ef)).read()
                if es.count(eold) != 1:
                    print(f"!! {name}: extra anchor {ek} occurs {es.count(eold)} times")
                open(os.path.join("/repo", ef), "w").write(es.replace(eold, enew))
        b = run("go", "build", "./...", cwd="/repo", env=env)
        v = run("go", "vet", "-vettool=/bin/true", "./...", cwd="/repo", env=env) if False else None
        diff = run("git", "-C", "/repo", "diff").stdout
        run("git", "-C", "/repo", "checkout", "--", ".")
        if b.returncode != 0:
            print(f"!! {name}: does not compile: {b.stderr[:300]}"); continue
        open(os.path.join(OUT, name + ".diff"), "w").write(f"# property: {prop}\n# mutant: {name}\n" + diff)
        print("ok", name)


if __name__ == "__main__":
    main()
