#!/bin/bash
# Re-checks every stored seeded change (or those matching a glob) against the current checks.
# usage: tools/seed_sweep.sh ['C07-*']
cd "$(dirname "$0")/.."
PAT="${1:-*}"
ok=0; bad=0
for d in seeded/$PAT/; do
  s=$(basename "$d")
  r=$(tools/seed_check.sh "$s" 2>&1 | tail -1)
  echo "$r"
  case "$r" in *detected=yes*) ok=$((ok+1));; *) bad=$((bad+1));; esac
done
echo "seed sweep: detected=$ok not-detected=$bad"
