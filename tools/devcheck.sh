#!/bin/bash
# Development helper (not registered in MANIFEST.json): runs a check against ANOTHER checkout of the repository
# (e.g. a clean scratch worktree, or one with a seeded patch applied) so that /repo's working tree is left alone.
#   usage: tools/devcheck.sh <repo dir> <Cxx> [quick|thorough]
set -u
cd "$(dirname "$0")/.."
R="$(cd "$1" && pwd)"; ID="$2"; TIER="${3:-quick}"
export GOFLAGS=-mod=mod GOPROXY=off GOSUMDB=off GOTOOLCHAIN=local CGO_ENABLED=1
export VERIF_DIR="$(pwd)"
tag=$(echo "$R" | md5sum | cut -c1-8)
B="$VERIF_DIR/bin/dev-$tag"; mkdir -p "$B" run/dev-evidence
MF="$VERIF_DIR/harness/go.dev-$tag.mod"
sed "s#=> /repo#=> $R#" harness/go.mod > "$MF"; cp harness/go.sum "${MF%.mod}.sum" 2>/dev/null
(cd harness && go build -modfile="$MF" -tags verif -o "$B/verifrun" ./cmd/verifrun && go build -modfile="$MF" -race -tags verif -o "$B/verifrun-race" ./cmd/verifrun) || { echo "build failed"; exit 2; }
rm -f "$MF" "${MF%.mod}.sum"
VERIF_EVIDENCE_DIR="$VERIF_DIR/run/dev-evidence" exec "$B/verifrun" "$ID" "$TIER"
