#!/bin/bash
# Confirms an independently written seeded change: in a scratch worktree of /repo (outside /repo and /verif) the
# demonstration must PASS without the patch and FAIL with it, the patched tree must compile and the repository's
# stable tests must still pass. Then the property's quick check is run against /repo with the patch applied (and the
# patch is undone straight afterwards).   usage: tools/seed_confirm.sh <dir with patch.diff + seeded_demo_test.go> <Cxx> [tier]
set -u
SRC="$1"; PROP="$2"; TIER="${3:-quick}"
export GOFLAGS=-mod=mod GOPROXY=off GOSUMDB=off GOTOOLCHAIN=local
WT=$(mktemp -d /tmp/confirm-XXXXXX)
git -C /repo worktree add -q --detach "$WT" HEAD || exit 2
cleanup() { git -C /repo worktree remove --force "$WT" 2>/dev/null; rm -rf "$WT"; [ -z "${SEED_DEV:-}" ] && git -C /repo checkout -- . 2>/dev/null; }
trap cleanup EXIT
pkg=$(grep -m1 '^package ' "$SRC/seeded_demo_test.go" | awk '{print $2}')
case "$pkg" in fpgo) dir=. ;; worker) dir=worker ;; network) dir=network ;; *) echo "unknown package $pkg"; exit 2;; esac
cp "$SRC/seeded_demo_test.go" "$WT/$dir/seeded_demo_test.go"
run_demo() { (cd "$WT" && timeout 600 go test -vet=off -count=1 -run 'Seeded' ./$dir 2>&1 | tail -5); }
echo "== demo WITHOUT the change"; out=$(run_demo); echo "$out" | tail -2
echo "$out" | grep -q "^ok" && without=pass || without=fail
(cd "$WT" && git apply "$SRC/patch.diff") || { echo "patch does not apply"; exit 2; }
(cd "$WT" && go build ./... ) || { echo "patched tree does not compile"; exit 2; }
echo "== demo WITH the change"; out=$(run_demo); echo "$out" | tail -3
echo "$out" | grep -q "^ok" && with=pass || with=fail
rm -f "$WT/$dir/seeded_demo_test.go"
echo "== existing suite WITH the change"; suite=$(REPO_DIR="$WT" "$(dirname "$0")/baseline.sh" 2>&1 | tail -2); echo "$suite"
echo "$suite" | grep -q "37/37" && suiteok=yes || suiteok=no
start=$(date +%s)
if [ -n "${SEED_DEV:-}" ]; then
  # development mode: the check runs against the scratch worktree /tmp/mut-wt + patch (tools/devseed.sh), /repo is not touched
  echo "== check $PROP $TIER against /tmp/mut-wt + patch (dev mode)"
  cout=$("$(dirname "$0")/devseed.sh" "$SRC" "$PROP" "$TIER" 2>&1); code=$(echo "$cout" | sed -n 's/^DEVSEED .* exit=//p' | tail -1)
  echo "$cout" | grep -q "^  key=" && [ "$code" = 1 ] && cout="VIOLATION property=$PROP replay=dev
$cout"
else
echo "== check $PROP $TIER against /repo + patch"
git -C /repo apply "$SRC/patch.diff" || { echo "patch does not apply to /repo"; exit 2; }
cout=$(cd "$(dirname "$0")/.." && VERIF_EVIDENCE_DIR="$(pwd)/run/seed-evidence" ./check.sh "$PROP" "$TIER" 2>&1); code=$?
git -C /repo checkout -- .
fi
dur=$(( $(date +%s) - start ))
echo "$cout" | grep -E "key=|^$PROP " | head -6 | cut -c1-300
det=no; [ $code -eq 1 ] && echo "$cout" | grep -q "^VIOLATION property=$PROP" && det=yes
echo "RESULT prop=$PROP src=$SRC demo_without=$without demo_with=$with suite_ok=$suiteok detected=$det check_exit=$code check_s=$dur"
