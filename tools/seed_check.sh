#!/bin/bash
# Re-runs the property's check against /repo + a stored seeded change (patch undone straight afterwards) and updates
# the seed's meta.json.   usage: tools/seed_check.sh <seed name, e.g. C01-d> ["what was strengthened"]
cd "$(dirname "$0")/.."
S="$1"; NOTE="${2:-}"; PROP="${S%%-*}"
D="seeded/$S"
[ -f "$D/patch.diff" ] || { echo "no such seed $S"; exit 2; }
[ -z "$(git -C /repo status --porcelain)" ] || { echo "/repo dirty"; exit 2; }
trap 'git -C /repo checkout -- . 2>/dev/null' EXIT
git -C /repo apply "$(pwd)/$D/patch.diff" || { echo "patch does not apply"; exit 2; }
start=$(date +%s)
out=$(VERIF_EVIDENCE_DIR="$(pwd)/run/seed-evidence" ./check.sh "$PROP" quick 2>&1); code=$?
git -C /repo checkout -- .
dur=$(( $(date +%s) - start ))
det=no; [ $code -eq 1 ] && echo "$out" | grep -q "^VIOLATION property=$PROP" && det=yes
echo "$out" | grep -E "key=" | head -4 | cut -c1-200
echo "SEED $S detected=$det exit=$code ${dur}s"
KEYS=$(echo "$out" | grep -a -o 'key="[^"]*"' | head -6 | LC_ALL=C tr -cd '\11\12\15\40-\176')
KEYS="$KEYS" python3 - "$D/meta.json" "$det" "$code" "$dur" "$NOTE" <<'PY'
import json,sys,re,os
p,det,code,dur,note=sys.argv[1:6]
m=json.load(open(p))
keys=re.findall(r'key="([^"]+)"', os.environ.get("KEYS",""))[:6]
m['check'].update({"detected":det,"exit":int(code),"seconds":int(dur),"violation_keys":keys})
if note:
    m['check']['missed_at_first']=True
    m['check']['strengthened']=note
json.dump(m,open(p,'w'),indent=1)
PY
