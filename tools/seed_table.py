#!/usr/bin/env python3
"""Renders the DESIGN.md table of stored seeded changes from seeded/*/meta.json.
usage: tools/seed_table.py c d   (suffixes to include; default: all)"""
import json, glob, os, re, sys
suffixes = sys.argv[1:] or ['a', 'b', 'c', 'd', 'e', 'f']
root = os.path.join(os.path.dirname(os.path.abspath(__file__)), '..', 'seeded')
print('| seed | change (title of the author\'s notes) | violation key(s) that fire | how it was caught |')
print('|---|---|---|---|')
for d in sorted(glob.glob(os.path.join(root, '*'))):
    name = os.path.basename(d)
    if name.rsplit('-', 1)[-1] not in suffixes:
        continue
    m = json.load(open(os.path.join(d, 'meta.json')))
    title = re.sub(r'^#+\s*', '', m.get('breaks', '')).replace('|', '/')
    title = re.sub(r'^C\d\d\s*/?\s*(seed2\s*/\s*)?\w?\s*[-:]\s*', '', title)
    ck = m['check']
    keys = ', '.join(k.replace('|', '/')[:110] for k in ck.get('violation_keys', [])[:2])
    how = 'caught as built'
    if ck.get('missed_at_first'):
        how = 'strengthened: ' + ck.get('strengthened', '').replace('|', '/')
    if ck.get('detected') != 'yes':
        how = 'NOT DETECTED (' + how + ')'
    print(f'| {name} | {title[:200]} | `{keys}` | {how} |')
