#!/usr/bin/env python3
"""Stores a confirmed seeded change under /verif/seeded/<prop>-<variant>/ (patch.diff, demonstration, the author's
notes, meta.json).  usage: seed_store.py <prop> <variant> <RESULT line file> [--missed-at-first "<what was strengthened>"]"""
import json, os, re, shutil, sys
prop, var, logf = sys.argv[1], sys.argv[2], sys.argv[3]
missed = None
if "--missed-at-first" in sys.argv:
    missed = sys.argv[sys.argv.index("--missed-at-first") + 1]
base = os.environ.get("SEED_BASE", "/tmp/seed")
src = f"{base}/{prop}/_seed/{var}"
dst = f"/verif/seeded/{prop}-{os.environ.get('SEED_NAME', var)}"
os.makedirs(dst, exist_ok=True)
for f in ("patch.diff", "seeded_demo_test.go", "notes.md"):
    shutil.copy(os.path.join(src, f), os.path.join(dst, f))
res, keys = None, []
for ln in open(logf):
    if ln.startswith("RESULT") and f"prop={prop} " in ln and f"/{var} " in ln:
        res = dict(kv.split("=", 1) for kv in ln.split()[1:])
        break
    m = re.search(r'key="([^"]+)"', ln)
    if m:
        keys.append(m.group(1))
    if ln.startswith("RESULT"):
        keys = []
assert res, "no RESULT line"
notes = open(os.path.join(src, "notes.md")).read()
meta = {
    "property": prop,
    "origin": "written by an independent sub-agent that was given only the property text and its own scratch worktree of /repo",
    "breaks": notes.strip().split("\n\n")[0][:900],
    "needs_to_manifest": "see notes.md (author's description)",
    "confirmed": {
        "how": "tools/seed_confirm.sh in a scratch worktree under /tmp (removed afterwards): demonstration without the change, with the change, repository suite (guard off) with the change; then ./check.sh against /repo + patch, patch undone",
        "demo_without_change": res["demo_without"], "demo_with_change": res["demo_with"], "repository_suite_with_change_37_of_37": res["suite_ok"],
    },
    "check": {"command": f"./check.sh {prop} quick", "detected": res["detected"], "exit": int(res["check_exit"]), "seconds": int(res["check_s"]), "violation_keys": keys[:6]},
}
if missed:
    meta["check"]["missed_at_first"] = True
    meta["check"]["strengthened"] = missed
json.dump(meta, open(os.path.join(dst, "meta.json"), "w"), indent=1)
print("stored", dst, "detected=" + res["detected"])
