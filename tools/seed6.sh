#!/bin/bash
# Round-6 helper: confirms /tmp/seed6/<Cxx>/_seed in dev mode against scratch worktree /tmp/mut-wt<N>; log in run/seed6/<Cxx>.log
#   usage: tools/seed6.sh <Cxx> <N>
cd "$(dirname "$0")/.."
P="$1"; N="$2"
SEED_DEV=1 MUT_WT=/tmp/mut-wt$N tools/seed_confirm.sh /tmp/seed6/$P/_seed $P > run/seed6/$P.log 2>&1
tail -1 run/seed6/$P.log
