#!/usr/bin/env python3
"""Regenerates /verif/MANIFEST.json from the table below and validates it against the schema.
Run after adding a check:  python3 tools/gen_manifest.py"""
import json, os, subprocess, sys

ROOT = os.path.dirname(os.path.dirname(os.path.abspath(__file__)))

# id -> (level category, technique, level text, level note, design ref)
CHECKS = {
    "C06": ("exploration", "reference-model monitor (ideal deque in lock-step) over bounded-exhaustive + PRNG operation histories; hang watchdog",
            "Every operation history up to the stated length (all 15^5 full-alphabet and 6^8 core-alphabet histories in quick; 15^6 / 6^10 in thorough) plus long PRNG histories is executed on the real LinkedListQueue and compared call by call with an ideal deque; held = no disagreement, panic or non-returning call on any executed history. Exhaustive within the bound, sampled beyond it.",
            "Trusted: the 30-line slice deque model; Go runtime. Histories longer than the bound are only sampled.",
            "DESIGN.md section 5, C06"),
    "C03": ("exploration", "differential reference-model monitor over bounded-exhaustive inputs with sentinel-guarded backing arrays",
            "Every listed helper is called on every list of length 0..5 (thorough 0..7) over a 3-symbol alphabet plus nil, for int/string/struct elements, with every count in [-3,len+3], predicate/transformer families and all list pairs up to length 3, and compared with an independent model; inputs are snapshotted (including sentinel-filled spare capacity) and compared after the call. Exhaustive within the bound, PRNG lists up to length 64 beyond it.",
            "Trusted: the per-helper models written from the doc comments (degenerate-parameter pins listed in DESIGN.md C03).",
            "DESIGN.md section 5, C03"),
    "C02": ("exploration", "exact-arithmetic oracle (sign+magnitude, math/big) over exhaustive 8/16-bit sources, boundary sets and PRNG values",
            "Every int8/uint8/int16/uint16 value, a boundary set around every target bound (+-3, +-0.25/0.5/0.75, +-1 ulp in float32/float64, NaN, Inf, -0, extremes) and PRNG values for the wide integer/float types and numeric strings are pushed through all 14 numeric conversions and ToBool, via both constructors; each result is compared with exact arithmetic under a three-zone rule (must-succeed / must-fail / either, and in all zones nil error => exact number).",
            "Trusted: math/big and strconv for the model; 64-bit platform; zone definitions in DESIGN.md C02.",
            "DESIGN.md section 5, C02"),
    "C01": ("exploration", "law/observer oracle with an independent reflect-based absence predicate over a kind-complete value corpus + PRNG nesting",
            "About 60 hand-built values covering every Go kind (incl. typed nil pointers, pointer-to-nil-pointer, nested Maybe, None) and thousands of PRNG-nested values are wrapped by Maybe.Just, JustGenerics[any] and JustGenerics[T] for 21 concrete T; every MaybeDef method and the extra conversions run under recover; observers are compared with the reference predicate, monad-law instances by observation tuples, ToMaybe by nesting depth, Clone by pointer identity/deep equality/write isolation.",
            "Trusted: the reflect-based absent() predicate and observational equality (funcs by code pointer, NaN-tolerant).",
            "DESIGN.md section 5, C01"),
    "C05": ("exploration", "set-model law oracle + differential twin oracle over bounded-exhaustive operand tuples",
            "All pairs/triples of lists up to length 3 (thorough 4) over 3 symbols plus nil and all 81x81 pairs of key->stream maps (<=2 keys, streams <=2, nil and empty streams) plus PRNG operands: membership / no-duplicate / order laws for non-empty operands through slices, Stream, MapSet and StreamSet, and every generic function or method against its interface{} twin for all operands incl. nil/empty.",
            "Trusted: the finite-set model (has/noDup/order predicates) and the normalisation used to compare twins (values that differ by design are ignored).",
            "DESIGN.md section 5, C05"),
    "C04": ("exploration", "program-level reference-model monitor with pointer-identity handles; all live collections re-read after every step",
            "Every program of depth <= 2 (thorough 3) over the full Stream/Set/StreamSet operation table from a grid of initial collections, for both API families, plus tens of thousands of PRNG programs of length 10-24 over mixed handles; after each step every live handle is re-read through the public API and compared with an immutable model, and ToArray's result is overwritten to test detachment.",
            "Trusted: the pure model of each operation (degenerate StreamSet cases pinned to the code's guards, DESIGN.md C04); pointer identity as handle identity.",
            "DESIGN.md section 5, C04"),
    "C19": ("exploration", "order/stability/permutation oracle over bounded-exhaustive record lists with unique ids; reference lexicographic comparison for descriptor stacks",
            "Every list of length 0..6 (thorough 8) over 3 key values plus PRNG lists up to 200 through all comparator-based sorts (both families) with five comparators, checked on all pairs for order and stability, as permutations, and for input preservation; all 492 descriptor stacks (1..3 keys x directions x transformer/field-name x three Comparable key types) over all short record lists plus PRNG lists through the four descriptor-sort entry points against a reference lexicographic comparison.",
            "Trusted: the all-pairs order/stability predicates and the reference comparison; only strict comparators are generated.",
            "DESIGN.md section 5, C19"),
    "C20": ("exploration", "trace-as-output oracle for combinators, independent acceptance model for patterns, chain oracle + Go race detector for concurrent CurryDef",
            "All 5460 function lists (length 1..6 over 4 non-commuting functions) through Compose/Pipe with folds, reversal and every regrouping; adapters with recording functions; Trampoline scripts; CurryDef sequentially and with 2..8 concurrent callers (chain-of-chunks oracle; repeated under -race); all 326 pattern lists x 3 parameterisations x ~40 probe values through MatchFor/Either against the harness' own acceptance model; NewCompData against the declared type.",
            "Trusted: the acceptance model with the pins listed in DESIGN.md C20; the race detector sees only executed access pairs.",
            "DESIGN.md section 5, C20"),
    "C11": ("exploration", "pure-interpreter reference model over enumerated MonadIO programs; effect log + goroutine identity monitor",
            "All Just/New + FlatMap chains of depth <= 3 (thorough 5) over 5 continuation kinds plus PRNG chains up to length 30: laziness at construction and at ObserveOn/SubscribeOn, Eval x3 and Subscribe x2 under all four handler combinations (exact effect sequence, exactly one OnNext, effect on the observe handler's goroutine, OnNext on the subscribe handler's), nil OnNext runs nothing, the three monad laws by (value, effect log).",
            "Trusted: the pure interpreter of the program trees; goroutine ids parsed from runtime.Stack.",
            "DESIGN.md section 5, C11"),
    "C17": ("fault_enumeration", "stub RoundTripper capture + expected-request oracle over the constructor x template x params x body x header x injected-fault product",
            "Every constructor x template x PathParam map x injected outcome (serializer error, transport error, non-JSON body, unreadable body, deserializer (target,err) and (nil,err)) with bodies and header sets rotated (thorough: full product): no request before Eval, exactly one per Eval, method/URL/headers/body as defined, DefaultHeader neither shared nor changed, target decoded, every failure as Err without panic; a subset through the real transport against a loopback server.",
            "Trusted: the stub transport and the expected-request computation (URL rule in DESIGN.md C17); net/http itself.",
            "DESIGN.md section 5, C17"),
    "C18": ("fault_enumeration", "shared call-log monitor (stub interceptors + stub transports) against the model registration list over bounded-exhaustive histories, in child processes",
            "Every history of length <= 4 (thorough 5) over a 24-letter alphabet of Add/Remove/Clear/SetHTTPClient/request operations (incl. a second instance), each followed by three probe requests (one with a failing interceptor), plus PRNG histories of length 12 with 0..6 interceptors and failing interceptors at every position: per request each registered interceptor exactly once in order, then exactly one transport call, header changes visible to the transport, abort + surfaced error on failure; a recursing chain kills the child and is attributed.",
            "Trusted: the stub interceptors/transports and the list model; http.DefaultTransport is replaced by a stub during the run.",
            "DESIGN.md section 5, C18"),
    "C08": ("exploration", "recorded client-boundary histories checked by porcupine (FIFO/LIFO/BoundedFIFO models) + exactly-once/order checker + Go race detector (deciding)",
            "Thousands of short concurrent histories (<= 24 operations, 1..4 x 1..4 processes, mixed roles, PRNG yields) over six wrapped implementations are checked for linearizability after a drain; long runs with up to 16+16 goroutines by the exactly-once / no-invention / per-producer-order checker; every call under recover; the same workloads in the -race build where any report inside the wrapper or the wrapped structure refutes the property.",
            "Trusted: porcupine v1.3.0 and the 40-line sequential models; the race detector sees only executed access pairs; schedules are sampled (OS scheduler + PRNG yields), not enumerated.",
            "DESIGN.md section 5, C08"),
    "C12": ("exploration", "in-effect monitors (atomic busy counter; plain-variable probe under the Go race detector) + per-sender order / exactly-once log checker",
            "Dozens (thorough: hundreds, incl. 60000-message runs) of workloads with 1..16 concurrent senders x 1..2000 messages x channel capacity 0..4 against a Handler and an Actor: no two effects overlap (busy counter) or are unordered by happens-before (race build: plain probe variables, deciding), every message exactly once, per-sender order, self == actor, nothing runs after Close returned; spawn trees depth 1..3 x fan 1..3 for the bookkeeping and mailbox independence.",
            "Trusted: the drain marker as the only synchronisation with the reader; the race detector sees only executed access pairs; schedules are sampled.",
            "DESIGN.md section 5, C12"),
    "C16": ("exploration", "mapped function as monitor (per-element counters, concurrency gauge) + stuck detector + Go race detector",
            "List lengths 0..64 (thorough ..257) x FixedPool in {-1,0,1,2,len-1,len,len+1,1000, absent} x both order modes x 5 duration profiles incl. reversed completion order: result equals Map(f,list) (permutation for RandomOrder), f exactly once per element and on nothing else, observed parallelism <= min(FixedPool,len), no application still running at return, termination (stuck detector); repeated under -race.",
            "Trusted: atomic counters inside f; the stuck detector's three conditions; the race detector sees only executed access pairs.",
            "DESIGN.md section 5, C16"),
    "C07": ("exploration", "recorded histories: porcupine against a relaxed bounded-FIFO model + exactly-once/order/conservation/bound checkers; hook-directed loader interleavings; stuck detector; Go race detector",
            "Per (capacity, buffer, loader interval) configuration: short concurrent histories checked for linearizability against the relaxed bounded FIFO model, long runs with thousands of unique values checked for exactly-once, per-producer order, held <= cap+buf at every instant, Count bounds and Count = accepted-delivered at quiescence; the drain after producers stop uses only Poll / TakeWithTimeout / channel receives and reports stranded items by logical loader passes or the stuck detector; directed scenarios park the loader and the callers at hook points; plain ChannelQueue against BoundedFIFO; all repeated under -race.",
            "Trusted: porcupine and the relaxed model (Empty/Timeout always legal; Full legality by a necessary condition); hook counters as logical time; schedules sampled + a few directed park points.",
            "DESIGN.md section 5, C07"),
    "C10": ("exploration", "per-(publish, subscription) delivery-count oracle over bounded-exhaustive re-entrant histories and stamped concurrent histories; hook-parked publisher; Go race detector",
            "All sequential re-entrant histories with up to 3 (thorough 4) scripted subscribers x 1..3 publishes; 1..4 concurrent publishers x 1..4 subscribe/unsubscribe churners with call/return stamps, PRNG yields at the publisher's hook points or a publisher parked between snapshot and delivery; Map chains of depth 1..3 with two subscribers per level; SubscribeOn(h) with 1..4 subscribers and handler capacities 0..2 incl. goroutine identity; the concurrent parts repeated under -race (deciding for publisher.go).",
            "Trusted: the registration-relation rule (before / after / overlapping => 0 or 1); one monotonic clock for the stamps; schedules sampled + two park points.",
            "DESIGN.md section 5, C10"),
    "C14": ("exploration", "goroutine-local request/answer logs joined by the workload + pairing oracle; hook-point yields; stuck detector; Go race detector",
            "Hundreds (thorough: thousands) of topologies of 1..8 caller coroutines x 1..12 requests against one target serving exactly the total, three generator shapes, with and without StartWithVal, PRNG yields at the coroutine hook points: every request reaches exactly one YieldRef, the caller of the request taken as step k receives exactly y_k, per-caller order, counts; StartWithVal, DoNotation, YieldFromIO, IsStarted/IsDone; non-termination through the stuck detector; repeated under -race.",
            "Trusted: unique x/y encodings; logs are read only after a join the effects themselves signal; schedules sampled.",
            "DESIGN.md section 5, C14"),
    "C13": ("exploration", "self-verifying replies (pure function of payload + nonce) under shuffled reply order; logical timeout classes with harness-signalled late replies; hook-parked asker; Go race detector",
            "Dozens (thorough: hundreds) of correlation workloads with 1..32 askers x 1..200 asks over AskOnce / AskOnceWithTimeout / AskChannel and three reply disciplines, plus the four timeout classes (in time, never, after the timeout has been reported, racing it with the asker parked between timer and close) x payload kinds, each followed by a liveness probe of the actor; late replies run under recover with a blocked-detector; repeated under -race.",
            "Trusted: the 60 s 'generous' timeouts are only used in the safe direction; schedules sampled + one park point.",
            "DESIGN.md section 5, C13"),
    "C09": ("exploration", "jobs as monitors (per-job atomic start counters, concurrency gauge, unique panic values) + stuck detector on job-start/worker-lifecycle progress + hook-directed worker/spawn-loop interleavings",
            "40 (thorough: all 104) pool configurations x 6 submission patterns x 2 fault placements x seeds, plus directed runs that park a dying worker, two expiring workers, the spawn loop and Schedule at hook points: every accepted job starts exactly once (or the stuck detector produces a witness), rejected jobs never run, at most workerSizeMaximum jobs at any start, each job panic reported exactly once and nothing else reaches the handler, exact Full / ScheduleTimeout / Closed errors with the only worker held busy.",
            "Trusted: atomic counters inside the jobs; the stuck detector's conditions (no job start and no worker spawn/exit for 3 s, no library goroutine able to progress); race reports on worker/pool.go are advisory only.",
            "DESIGN.md section 5, C09"),
    "C15": ("fault_enumeration", "directed schedule enumeration with hook-parked goroutines (close placed between an operation's closed-check and its channel send), one child process per scenario, crash attribution, stuck detector, PRNG stress, Go race detector",
            "About 100 directed scenarios covering every (component, operation, park point, close variant) of Handler, Actor, BufferedChannelQueue (callers, loader, node-pool goroutine), coroutines and WorkerPool, each followed by post-close probes, plus 100 (thorough 2000) PRNG stress runs and a -race pass: no panic in calling goroutines (recover) or library goroutines (child death attributed by the parent), silent pool panic handler, nobody stuck, operations racing the close never return invented values, operations after the close report it.",
            "Trusted: hook points mark the windows (windows without a hook are only reached by stress); Handler/Actor isClosed race reports are not deciding.",
            "DESIGN.md section 5, C15"),
}

# additions made after the independently seeded changes (rounds 1-3); appended to the level text
EXTRA = {
    "C01": "Hostile values: Stringer / error implementations that panic. Same-named local types, typed nil pointers of Stringer types, named pointer types, sentinel strings such as <nil>.",
    "C02": "64-bit integers beside float32/float64 rounding ties; zero-padded and prefixed numeric strings. Strings with bytes of no numeric syntax must be rejected; ToBool of numeric strings.",
    "C03": "Long lists (1023..3000, thorough 70000) with predicates that depend on the absolute index. Callbacks with memory (call logs, first-occurrence / budget predicates); maps with NaN keys.",
    "C04": "Direct probes: callbacks that panic at their k-th invocation (receiver and earlier results untouched), variadic arguments spread from a slice the caller keeps. Predicates with memory, stable Sort of tying records, SortByIndex comparator views, rows as elements.",
    "C05": "Earlier results re-checked after later calls on spare-capacity receivers; operands of 260..1500 elements; pointer elements with equal contents but different identity. Mixed dynamic types in the interface{} family; a foreign SetDef implementation as operand; 3..300 operands.",
    "C06": "Burst histories up to 66000 (thorough 262200) held elements with GC paused. Eight other instantiations alive in one process; bulk release of spare nodes followed by pauses; a queue held by value.",
    "C07": "Back-pressure runs with a blocking Take() consumer and a delivery-progress monitor; 'no limit' buffer sizes. Other instantiations through the overflow list; idle periods of about 100 loader intervals; the back-pressure verdict is taken on logical time. SetBufferSizeMaximum on the live queue (shrinking below / growing above what is buffered). Offer / Poll / Count against a 4 s loader interval (no call parks on a queue lock).",
    "C08": "Phased bursts above 1024 held values; a self-refilling BufferedChannelQueue under the wrapper; one LinkedListQueue behind both wrappers in phases. A user queue embedding ChannelQueue; other instantiations; wrapped structures that panic once.",
    "C09": "Two pools on one job queue; slow panic handlers; standby-0 pools always sampled; boundary timeouts through ScheduleWithTimeout / InvokeWithTimeout. Jobs ending with runtime.Goexit or run-time errors; stand-by size above the maximum.",
    "C10": "Values published on derived publishers; re-subscription of copied subscription values; deliveries pending on a busy SubscribeOn handler while subscriptions change. Subscribe before/after SubscribeOn; Unsubscribe on a foreign publisher. SubscribeOn configured on the origin (or a middle level) before Map chains are derived.",
    "C11": "Branching compositions; pending deliveries of a counting MonadIO; carried values that are themselves MonadIOs; re-configuration in flight. Inner monads with their own handlers; the package default Handler as first call of the process; 8 concurrent evaluations; every program under the stuck detector. Evaluation by a coroutine (Cor.YieldFromIO): effect on the ObserveOn handler's goroutine, once.",
    "C12": "Close from the running work with buffered items and blocked senders; closed while busy; timed-out Asks as messages. IsClosed polled during traffic; first submissions to thousands of fresh mailboxes racing each other; one sender interleaving AskChannel and Send; Close from outside with a backlog. Spawn trees with a closed root / middle node: the actors below stay open and process later messages.",
    "C13": "Caller supplied reply channels; near-timeout then long-timeout histories (old timer-channel semantics selected); non-positive timeouts; requests queued behind a busy actor. Ask objects older than their timeout; scatter/gather of several AskChannel calls; late hand-over to a busy unbuffered actor. One ask object sent again with AskChannel (polling client), one-shot asks in between. Replies produced 1.3 s / 2.6 s after the timeout.",
    "C14": "Target held back until its request channel is full; YieldFromIO whose effect uses YieldFrom; back-to-back Start calls. Callers preceding Start(); volume runs of 150000+ requests per caller against an echoing target. YieldFromIO over eight owner-configured IO shapes (ObserveOn / SubscribeOn on one or two handlers).",
    "C15": "Caller completing inside its own YieldFrom; job queue closed under an open pool; pool churn (thousands of short-lived pools closed under load). After-close probes at every fill level. Offer / Put producers on a completely full queue while Close arrives. Queue churn (short-lived queues, one Close each); Close while jobs are running for worker batch sizes 1..4.",
    "C16": "Long lists; nested PMap; one option value reused across calls. Interface result types with nil results; zero-size result types; caller slices with spare capacity. A callback that ends its goroutine with runtime.Goexit: the call still returns, at-most-once, no invented result.",
    "C17": "Connection-level faults on the first round trip only; response bodies up to 4 MiB on loopback; slice / map / value body types. Path parameters with Error()/String() methods; literal braces in templates; a serializer whose reader fails half way.",
    "C18": "Two instances on one client; the held client with a replaced Transport; long histories with redirects and many refused requests. EOF-class transport faults and timeout-kind interceptor errors in long histories; 2..16 goroutines through one instance. A SimpleHTTP installed as http.DefaultTransport combined with SetHTTPClient of default clients.",
    "C19": "Second and mixed record types; forked builders; extreme keys; signed zeros for stability. Same-named record types; invalid UTF-8 keys; append-and-sort-again lists.",
    "C20": "MarkDone / Result inside the curried function; nested sum types; panicking effects; Equal patterns on pointers. Typed nil map/func/chan probes; invalid UTF-8 against literal regexes; duplicate Equal patterns; named-type, []byte and Stringer probes.",
}

NOT_YET = "check not built yet in this session (runtime monitoring applies; see DESIGN.md section 5)"


def main():
    props = [json.loads(l) for l in open(os.path.join(ROOT, "properties.jsonl")) if l.strip()]
    hooks_commits = []
    hc = os.path.join(ROOT, "hook_commits.txt")
    if os.path.exists(hc):
        hooks_commits = [l.split()[0] for l in open(hc) if l.strip() and not l.startswith("#")]
    checks = []
    na = []
    for p in props:
        pid = p["id"]
        if pid in CHECKS:
            cat, tech, text, note, ref = CHECKS[pid]
            checks.append({
                "property_id": pid,
                "quick_cmd": f"./check.sh {pid} quick",
                "thorough_cmd": f"./check.sh {pid} thorough",
                "evidence_file": f"/verif/evidence/{pid}.json",
                "replay_cmd_template": f"./check.sh {pid} --replay {{path}}",
                "engine": "verifrun",
                "level_claimed": {"category": cat, "text": text + (" Added after the seeded changes: " + EXTRA[pid] if pid in EXTRA else ""), "design_ref": ref},
                "level_note": note,
                "technique": tech,
            })
        else:
            na.append({"property_id": pid, "reason": NOT_YET})
    m = {
        "version": 1,
        "setup_cmd": "./check.sh --setup",
        "hooks": {
            "guard": "verif",
            "enable": "go build -tags verif (harness module /verif/harness with replace github.com/TeaEntityLab/fpGo/v2 => /repo); -race added for the concurrent properties",
            "baseline_off_cmd": "cd /repo && GOFLAGS=-mod=mod GOPROXY=off GOSUMDB=off GOTOOLCHAIN=local go test -json -vet=off -count=1 -timeout 25m ./...",
            "source_commits": hooks_commits,
            "add_only": True,
        },
        "engines": [{
            "name": "verifrun",
            "path": "/verif/harness",
            "serves_properties": sorted(CHECKS.keys()),
            "kind_free_text": "Go driver: runs the real fpGo code under generated / hostile / directed workloads in-process or in child processes; oracles = reference models, history checkers (exactly-once, order, conservation, porcupine linearizability), hook-point director (park/release), stuck detector, Go race detector log parser",
        }],
        "checks": checks,
        "notes": "Runtime monitoring only. Exit 0 = held on everything observed, 1 = VIOLATION (replay file written), 2 = INCONCLUSIVE (never folded into the others). Known findings and fixed defects: /verif/known_findings.json.",
        "not_applicable": na,
    }
    out = os.path.join(ROOT, "MANIFEST.json")
    json.dump(m, open(out, "w"), indent=1)
    open(out, "a").write("\n")
    # validate
    code = ("import json,jsonschema,sys;"
            "jsonschema.validate(json.load(open(sys.argv[1])),json.load(open('/root/.vp/MANIFEST.schema.json')));print('MANIFEST valid')")
    r = subprocess.run(["python3-vt", "-c", code, out])
    sys.exit(r.returncode)


if __name__ == "__main__":
    main()
