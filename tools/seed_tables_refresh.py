#!/usr/bin/env python3
"""Re-renders the marked seed tables of DESIGN.md (<!-- seed-table x y --> ... <!-- /seed-table -->) from seeded/*/meta.json."""
import re, subprocess, os
root = os.path.join(os.path.dirname(os.path.abspath(__file__)), '..')
p = os.path.join(root, 'DESIGN.md')
s = open(p).read()
def repl(m):
    sfx = m.group(1).split()
    t = subprocess.check_output(['python3', os.path.join(root, 'tools', 'seed_table.py')] + sfx).decode().rstrip()
    return f"<!-- seed-table {m.group(1)} -->\n{t}\n<!-- /seed-table -->"
s, n = re.subn(r'<!-- seed-table ([a-z ]+) -->\n.*?\n<!-- /seed-table -->', repl, s, flags=re.S)
open(p, 'w').write(s)
print("tables refreshed:", n)
