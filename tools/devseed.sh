#!/bin/bash
# Development helper: applies a seeded patch to the scratch worktree ${MUT_WT:-/tmp/mut-wt} (never to /repo) and runs the check there.
#   usage: tools/devseed.sh <dir with patch.diff> <Cxx> [tier]
cd "$(dirname "$0")/.."
D="$(cd "$1" && pwd)"; ID="$2"; TIER="${3:-quick}"
git -C ${MUT_WT:-/tmp/mut-wt} checkout -q -- . && git -C ${MUT_WT:-/tmp/mut-wt} apply "$D/patch.diff" || { echo "patch does not apply"; exit 2; }
out=$(tools/devcheck.sh ${MUT_WT:-/tmp/mut-wt} "$ID" "$TIER" 2>&1); code=$?
git -C ${MUT_WT:-/tmp/mut-wt} checkout -q -- .
echo "$out" | grep -a -E 'key=|^'"$ID"' |INCONCL' | head -6 | cut -c1-250
echo "DEVSEED $D exit=$code"
