#!/bin/bash
# Development helper: every quick check at several VERIF_SEED values against a clean scratch worktree.
# usage: tools/devsweep.sh <repo dir> "<seeds>" [tier]
cd "$(dirname "$0")/.."
R="$1"; SEEDS="${2:-1 2 3 4}"; TIER="${3:-quick}"
for sd in $SEEDS; do
  for i in $(seq -w 1 20); do
    out=$(VERIF_SEED=$sd tools/devcheck.sh "$R" C$i $TIER 2>&1); code=$?
    echo "seed=$sd C$i exit=$code $(echo "$out" | grep -a -E "^C$i " | tail -1 | cut -c1-160)"
    [ $code -ne 0 ] && echo "$out" | grep -a -E 'key=|INCONCL|VIOLATION' | head -5
  done
done
