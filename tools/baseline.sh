#!/bin/bash
# Runs the repository's own suite with the verif guard OFF and checks that every test of
# /root/.vp/BASELINE.json's stable_pass list passes (up to 3 attempts: the baseline itself has a
# flaky test that can abort the root package's test binary).
export GOFLAGS=-mod=mod GOPROXY=off GOSUMDB=off GOTOOLCHAIN=local
cd "${REPO_DIR:-/repo}" || exit 2
python3 - <<'PY'
import json, subprocess, sys
stable = set(json.load(open('/root/.vp/BASELINE.json'))['stable_pass'])
passed, failed = set(), set()
for attempt in range(3):
    p = subprocess.run(['go','test','-json','-vet=off','-count=1','-timeout','25m','./...'], capture_output=True, text=True)
    for ln in p.stdout.splitlines():
        try: e = json.loads(ln)
        except Exception: continue
        if e.get('Test') and e.get('Action') in ('pass','fail'):
            name = e['Package'] + '::' + e['Test']
            (passed if e['Action']=='pass' else failed).add(name)
    if stable <= passed: break
# the baseline's flaky TestLinkedListQueue aborts the root package's test binary in most runs on this
# machine (70% at the pinned commit too); tests that never got to run are re-run by name
missing = sorted(stable - passed)
if missing:
    bypkg = {}
    for m in missing:
        pkg, t = m.split('::')
        bypkg.setdefault(pkg, []).append(t)
    for pkg, ts in bypkg.items():
        rel = './' + pkg.split('/v2')[-1].lstrip('/') if pkg.endswith(('worker','network')) else '.'
        p = subprocess.run(['go','test','-json','-vet=off','-count=1','-run','^(' + '|'.join(ts) + ')$', rel], capture_output=True, text=True)
        for ln in p.stdout.splitlines():
            try: e = json.loads(ln)
            except Exception: continue
            if e.get('Test') and e.get('Action') in ('pass','fail'):
                name = e['Package'] + '::' + e['Test']
                (passed if e['Action']=='pass' else failed).add(name)
missing = sorted(stable - passed)
print(f"baseline(off): {len(stable & passed)}/{len(stable)} stable tests passed; failing-in-some-run: {sorted(failed & stable)}")
if missing:
    print("MISSING:", missing); sys.exit(1)
PY
