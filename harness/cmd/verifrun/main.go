// verifrun is the single driver binary of the runtime-monitoring framework.
//
//	verifrun <Cxx> <quick|thorough> [--replay file] [--scenario id]
//	verifrun child <prop> <tier> <seed> <race> <from> <to> <only> <outfile>   (internal)
// The library's go.mod says go 1.18: its own tests (and every user whose main module predates go 1.23) run with the
// old asynchronous timer channels, where a stopped or reset timer may still deliver a stale tick. The harness module
// needs go 1.23 for its own code, so the old behaviour is selected explicitly: it is the more hostile of the two.
//
//go:debug asynctimerchan=1
package main

import (
	"encoding/json"
	"fmt"
	"os"
	"strconv"
	"time"

	"verifharness/internal/core"
	_ "verifharness/props"
)

func main() {
	if len(os.Args) < 2 {
		fmt.Fprintln(os.Stderr, "usage: verifrun <Cxx> <quick|thorough> [--replay file] [--scenario id]; checks:", core.IDs())
		os.Exit(3)
	}
	if os.Args[1] == "child" {
		a := os.Args[2:]
		if len(a) != 8 {
			fmt.Fprintln(os.Stderr, "bad child args")
			os.Exit(3)
		}
		ch := core.Lookup(a[0])
		if ch == nil || ch.Scenarios == nil {
			fmt.Fprintln(os.Stderr, "unknown isolated check", a[0])
			os.Exit(3)
		}
		seed, _ := strconv.ParseInt(a[2], 10, 64)
		from, _ := strconv.Atoi(a[4])
		to, _ := strconv.Atoi(a[5])
		os.Exit(core.ChildMain(ch, a[1], seed, a[3] == "1", from, to, a[6], a[7]))
	}
	id := os.Args[1]
	tier := "quick"
	if len(os.Args) > 2 {
		tier = os.Args[2]
	}
	if t := os.Getenv("VERIF_TIER"); t != "" && len(os.Args) <= 2 {
		tier = t
	}
	if tier != "quick" && tier != "thorough" {
		fmt.Fprintln(os.Stderr, "tier must be quick or thorough")
		os.Exit(3)
	}
	seed := int64(1)
	if s := os.Getenv("VERIF_SEED"); s != "" {
		if v, err := strconv.ParseInt(s, 10, 64); err == nil {
			seed = v
		}
	}
	only := ""
	replayKey := ""
	for i := 3; i < len(os.Args); i++ {
		switch os.Args[i] {
		case "--scenario":
			if i+1 < len(os.Args) {
				only = os.Args[i+1]
				i++
			}
		case "--replay":
			if i+1 < len(os.Args) {
				b, err := os.ReadFile(os.Args[i+1])
				if err != nil {
					fmt.Fprintln(os.Stderr, "cannot read replay file:", err)
					os.Exit(3)
				}
				var r struct {
					Key    string `json:"key"`
					Tier   string `json:"tier"`
					Seed   int64  `json:"seed"`
					Replay struct {
						Scenario string `json:"scenario"`
					} `json:"replay"`
				}
				if err := json.Unmarshal(b, &r); err != nil {
					fmt.Fprintln(os.Stderr, "bad replay file:", err)
					os.Exit(3)
				}
				tier, seed, replayKey, only = r.Tier, r.Seed, r.Key, r.Replay.Scenario
				i++
			}
		}
	}
	ch := core.Lookup(id)
	if ch == nil {
		fmt.Fprintln(os.Stderr, "unknown check", id, "known:", core.IDs())
		os.Exit(3)
	}
	start := time.Now()
	c := core.NewCtx(id, tier, seed)
	core.OnHang = func(c *core.Ctx) { os.Exit(c.Finish(ch.Meta(c), start)) }
	if ch.Run != nil && only == "" {
		// the in-process body runs under the stuck detector: a library call that blocks for ever (waiting for itself, for a
		// goroutine that was never started, ...) must end the check with a verdict, not hang it
		var pv any
		var where string
		bodyDone := make(chan struct{})
		go func() { defer close(bodyDone); pv, where = core.Catch(func() { ch.Run(c) }) }()
		if v, dump := core.AwaitBodyOrStuck(bodyDone, 5*time.Second, 6*time.Hour, c.Evals); v == "stuck" {
			top := "?"
			if sum := core.RepoGoroutineSummary(dump); len(sum) > 0 {
				top = sum[len(sum)-1]
			}
			c.Violationf("blocked-forever:"+top, map[string]any{"goroutines": core.RepoGoroutineSummary(dump)},
				"a library call made by the check never returns: no case was evaluated for 5 s and no goroutine of the process is running, runnable or sleeping (blocked: %v)", core.RepoGoroutineSummary(dump))
		}
		if pv != nil {
			c.Inconclusive(fmt.Sprintf("harness panic outside a guarded call: %v at %s", pv, where))
		}
	}
	if ch.Scenarios != nil {
		core.RunIsolated(ch, c, only)
	}
	if ch.Post != nil {
		ch.Post(c)
	}
	if replayKey != "" {
		fmt.Printf("replay of %q at tier=%s seed=%d\n", replayKey, tier, seed)
	}
	os.Exit(c.Finish(ch.Meta(c), start))
}
