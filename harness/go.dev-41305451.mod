module verifharness

go 1.23

require (
	github.com/TeaEntityLab/fpGo/v2 v2.0.0
	github.com/anishathalye/porcupine v1.3.0
)

replace github.com/TeaEntityLab/fpGo/v2 => /tmp/mut-wt1
