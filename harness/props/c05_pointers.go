package props

import (
	"fmt"

	fpgo "github.com/TeaEntityLab/fpGo/v2"
)

// C05 with elements whose identity differs from their contents: pointers (entities) with equal pointees. Element
// equality in both families is Go's ==, i.e. pointer identity. Oracle: the same operation on the elements' ids
// (ints, covered by the law checks) - for the generic functions and for the interface{} twins.

type c05P struct{ N int }

func c05Pointers(e *c05Env) {
	// ids 0..5: 0/1 and 2/3 are distinct pointers with equal contents, 4 is alone, 5 is a nil pointer
	univ := []*c05P{{0}, {0}, {1}, {1}, {2}, nil}
	id := func(p *c05P) int {
		for i, u := range univ {
			if u == p {
				return i
			}
		}
		return -1
	}
	ids := func(l []*c05P) []int {
		out := make([]int, 0, len(l))
		for _, p := range l {
			out = append(out, id(p))
		}
		return out
	}
	idsAny := func(l []interface{}) []int {
		out := make([]int, 0, len(l))
		for _, v := range l {
			p, ok := v.(*c05P)
			if !ok {
				out = append(out, -2)
				continue
			}
			out = append(out, id(p))
		}
		return out
	}
	lists := allLists([]int{0, 1, 2, 3, 4, 5}, 2)
	lists = append(lists, []int{0, 1, 0}, []int{1, 2, 3, 4}, []int{5, 5, 0}, []int{3, 2, 1, 0}, []int{4, 0, 4, 1})
	n := len(lists)
	parallelFor(n*n, func(w, pi int) {
		a, b := lists[pi/n], lists[pi%n]
		pa, pb := make([]*c05P, len(a)), make([]*c05P, len(b))
		ia, ib := make([]interface{}, len(a)), make([]interface{}, len(b))
		for i, x := range a {
			pa[i], ia[i] = univ[x], univ[x]
		}
		for i, x := range b {
			pb[i], ib[i] = univ[x], univ[x]
		}
		ops := []any{a, b}
		e.law("pointer-elements", ops, len(a) > 0 && len(b) > 0, func() string {
			type row struct {
				name           string
				want, gen, ifc any
			}
			spa, spb := fpgo.StreamFromArray(append([]*c05P(nil), pa...)), fpgo.StreamFromArray(append([]*c05P(nil), pb...))
			sia, sib := fpgo.StreamForInterface.FromArray(append([]interface{}(nil), ia...)), fpgo.StreamForInterface.FromArray(append([]interface{}(nil), ib...))
			sa, sb := fpgo.StreamFromArray(append([]int(nil), a...)), fpgo.StreamFromArray(append([]int(nil), b...))
			var probe *c05P
			probeID := 1
			if len(b) > 0 {
				probeID = b[0] ^ 1 // the "twin" of b's first element: equal contents, other identity (for ids 0..3)
			}
			probe = univ[probeID%len(univ)]
			rows := []row{
				{"Intersection", fpgo.Intersection(a, b), ids(fpgo.Intersection(pa, pb)), idsAny(fpgo.IntersectionForInterface(ia, ib))},
				{"Minus", fpgo.Minus(a, b), ids(fpgo.Minus(pa, pb)), idsAny(fpgo.MinusForInterface(ia, ib))},
				{"Distinct", fpgo.Distinct(a...), ids(fpgo.Distinct(pa...)), idsAny(fpgo.DistinctForInterface(ia...))},
				{"IsSubset", fpgo.IsSubset(a, b), fpgo.IsSubset(pa, pb), fpgo.IsSubsetForInterface(ia, ib)},
				{"IsSuperset", fpgo.IsSuperset(a, b), fpgo.IsSuperset(pa, pb), fpgo.IsSupersetForInterface(ia, ib)},
				{"Exists(twin of b[0], b)", fpgo.Exists(probeID%len(univ), b...), fpgo.Exists(probe, pb...), fpgo.ExistsForInterface(probe, ib...)},
				{"Stream.Intersection", sa.Intersection(sb).ToArray(), ids(spa.Intersection(spb).ToArray()), idsAny(sia.Intersection(sib).ToArray())},
				{"Stream.Minus", sa.Minus(sb).ToArray(), ids(spa.Minus(spb).ToArray()), idsAny(sia.Minus(sib).ToArray())},
				{"Stream.Distinct", sa.Distinct().ToArray(), ids(spa.Distinct().ToArray()), idsAny(sia.Distinct().ToArray())},
				{"Stream.IsSubset", sa.IsSubset(sb), spa.IsSubset(spb), sia.IsSubset(sib)},
				{"Stream.IsSuperset", sa.IsSuperset(sb), spa.IsSuperset(spb), sia.IsSuperset(sib)},
				{"Stream.Contains(twin of b[0])", sb.Contains(probeID % len(univ)), spb.Contains(probe), sib.Contains(probe)},
			}
			for _, r := range rows {
				same := func(x, y any) bool {
					switch xv := x.(type) {
					case bool:
						return xv == y.(bool)
					case []int:
						return eqMultiset(xv, y.([]int))
					}
					return false
				}
				if !same(r.want, r.gen) {
					return fmt.Sprintf("%s on pointer elements (ids 0/1 and 2/3 are distinct pointers with equal contents, 5 is a nil pointer): generic result %v, the same operation on the ids gives %v", r.name, r.gen, r.want)
				}
				if !same(r.want, r.ifc) {
					return fmt.Sprintf("%s on pointer elements (ids 0/1 and 2/3 are distinct pointers with equal contents, 5 is a nil pointer): interface{} twin gives %v, the generic function and the operation on the ids give %v", r.name, r.ifc, r.want)
				}
			}
			return ""
		})
	})
}

// mixed dynamic types: only the interface{} family can hold them; element equality is Go's == on interface values
// (1, int64(1), 1.0 and "1" are four different elements). Oracle: a direct model over == .
func c05MixedTypes(e *c05Env) {
	univ := []interface{}{1, 2, "a", int64(1), nil, 1.0, "1", true}
	idx := func(v interface{}) int {
		for i, u := range univ {
			if u == v {
				return i
			}
		}
		return -1
	}
	ids := func(l []interface{}) []int {
		out := make([]int, 0, len(l))
		for _, v := range l {
			out = append(out, idx(v))
		}
		return out
	}
	lists := allLists([]int{0, 1, 2, 3, 4}, 3)
	lists = append(lists, []int{0, 1, 2, 1}, []int{0, 1, 2, 0, 3, 0}, []int{5, 6, 7, 5, 0, 3, 0}, []int{2, 0, 2, 0, 1, 1}, []int{0, 0, 2, 3, 3, 0, 2})
	n := len(lists)
	parallelFor(n, func(w, li int) {
		a := lists[li]
		ia := make([]interface{}, len(a))
		for i, x := range a {
			ia[i] = univ[x]
		}
		e.law("mixed-dynamic-types:Distinct", []any{a}, len(a) > 0, func() string {
			want := fpgo.Distinct(a...)
			if got := ids(fpgo.DistinctForInterface(ia...)); !eqSeq(got, want) {
				return fmt.Sprintf("DistinctForInterface of element ids %v (elements 1, 2, \"a\", int64(1), nil, 1.0, \"1\", true) gives ids %v, want %v", a, got, want)
			}
			if got := ids(fpgo.StreamForInterface.FromArray(append([]interface{}(nil), ia...)).Distinct().ToArray()); !eqSeq(got, want) {
				return fmt.Sprintf("StreamForInterface.Distinct of element ids %v gives ids %v, want %v", a, got, want)
			}
			return ""
		})
		for lj := li % 7; lj < n; lj += 7 {
			b := lists[lj]
			ib := make([]interface{}, len(b))
			for i, x := range b {
				ib[i] = univ[x]
			}
			e.law("mixed-dynamic-types:binary", []any{a, b}, len(a) > 0 && len(b) > 0, func() string {
				if got, want := ids(fpgo.IntersectionForInterface(ia, ib)), fpgo.Intersection(a, b); !eqMultiset(got, want) {
					return fmt.Sprintf("IntersectionForInterface(ids %v, ids %v) gives ids %v, want %v", a, b, got, want)
				}
				if got, want := ids(fpgo.MinusForInterface(ia, ib)), fpgo.Minus(a, b); !eqMultiset(got, want) {
					return fmt.Sprintf("MinusForInterface(ids %v, ids %v) gives ids %v, want %v", a, b, got, want)
				}
				if got, want := fpgo.IsSubsetForInterface(ia, ib), fpgo.IsSubset(a, b); got != want {
					return fmt.Sprintf("IsSubsetForInterface(ids %v, ids %v) = %v, want %v", a, b, got, want)
				}
				if got, want := ids(fpgo.StreamForInterface.FromArray(append([]interface{}(nil), ia...)).Extend(fpgo.StreamForInterface.FromArray(append([]interface{}(nil), ib...))).Distinct().ToArray()), fpgo.Distinct(append(append([]int(nil), a...), b...)...); !eqSeq(got, want) {
					return fmt.Sprintf("StreamForInterface a.Extend(b).Distinct() of ids %v and %v gives ids %v, want %v", a, b, got, want)
				}
				return ""
			})
		}
	})
}

// a foreign implementation of SetDef (a wrapper written out method by method around a MapSet) as the OPERAND of the
// MapSet operations: the laws are stated for any operand that implements the interface
type c05Foreign struct{ in fpgo.SetDef[int, int] }

func (f *c05Foreign) MapKey(fn fpgo.TransformerFunctor[int, int]) fpgo.SetDef[int, int] {
	return &c05Foreign{f.in.MapKey(fn)}
}
func (f *c05Foreign) MapValue(fn fpgo.TransformerFunctor[int, int]) fpgo.SetDef[int, int] {
	return &c05Foreign{f.in.MapValue(fn)}
}
func (f *c05Foreign) ContainsKey(x int) bool                       { return f.in.ContainsKey(x) }
func (f *c05Foreign) ContainsValue(x int) bool                     { return f.in.ContainsValue(x) }
func (f *c05Foreign) IsSubsetByKey(o fpgo.SetDef[int, int]) bool   { return f.in.IsSubsetByKey(o) }
func (f *c05Foreign) IsSupersetByKey(o fpgo.SetDef[int, int]) bool { return f.in.IsSupersetByKey(o) }
func (f *c05Foreign) Add(x ...int) fpgo.SetDef[int, int]           { return &c05Foreign{f.in.Add(x...)} }
func (f *c05Foreign) RemoveKeys(x ...int) fpgo.SetDef[int, int] {
	return &c05Foreign{f.in.RemoveKeys(x...)}
}
func (f *c05Foreign) RemoveValues(x ...int) fpgo.SetDef[int, int] {
	return &c05Foreign{f.in.RemoveValues(x...)}
}
func (f *c05Foreign) Get(k int) int                { return f.in.Get(k) }
func (f *c05Foreign) Set(k int, v int)             { f.in.Set(k, v) }
func (f *c05Foreign) Clone() fpgo.SetDef[int, int] { return &c05Foreign{f.in.Clone()} }
func (f *c05Foreign) Union(o fpgo.SetDef[int, int]) fpgo.SetDef[int, int] {
	return &c05Foreign{f.in.Union(o)}
}
func (f *c05Foreign) Intersection(o fpgo.SetDef[int, int]) fpgo.SetDef[int, int] {
	return &c05Foreign{f.in.Intersection(o)}
}
func (f *c05Foreign) Minus(o fpgo.SetDef[int, int]) fpgo.SetDef[int, int] {
	return &c05Foreign{f.in.Minus(o)}
}
func (f *c05Foreign) Size() int                           { return f.in.Size() }
func (f *c05Foreign) Keys() []int                         { return f.in.Keys() }
func (f *c05Foreign) Values() []int                       { return f.in.Values() }
func (f *c05Foreign) AsMap() map[int]int                  { return f.in.AsMap() }
func (f *c05Foreign) AsMapSet() *fpgo.MapSetDef[int, int] { return f.in.AsMapSet() }

func c05ForeignOperands(e *c05Env, lists [][]int) {
	n := len(lists)
	parallelFor(n*n, func(w, pi int) {
		a, b := lists[pi/n], lists[pi%n]
		if len(a) == 0 || len(b) == 0 {
			return
		}
		e.law("law:MapSet with a foreign SetDef operand", []any{a, b}, true, func() string {
			ma := fpgo.SetFrom[int, int](a...)
			fb := &c05Foreign{fpgo.SetFrom[int, int](b...)}
			ru, ri, rm := ma.Union(fb).Keys(), ma.Intersection(fb).Keys(), ma.Minus(fb).Keys()
			for x := -1; x <= 3; x++ {
				if has(ru, x) != (has(a, x) || has(b, x)) || has(ri, x) != (has(a, x) && has(b, x)) || has(rm, x) != (has(a, x) && !has(b, x)) {
					return fmt.Sprintf("operand is another implementation of SetDef: membership of %d wrong: union %v intersection %v minus %v", x, ru, ri, rm)
				}
			}
			want := true
			for _, x := range a {
				if !has(b, x) {
					want = false
				}
			}
			if ma.IsSubsetByKey(fb) != want {
				return fmt.Sprintf("IsSubsetByKey(foreign operand) = %v, want %v", !want, want)
			}
			if !eqMultiset(fpgo.Distinct(a...), ma.Keys()) {
				return "receiver changed"
			}
			return ""
		})
	})
}

// many operands in one call of the n-ary slice functions (beyond any word size)
func c05ManyOperands(e *c05Env) {
	for _, n := range []int{3, 8, 31, 32, 33, 63, 64, 65, 66, 67, 100, 129, 300} {
		n := n
		for _, missAt := range []int{1, n / 2, n - 2, n - 1} {
			if missAt < 1 || missAt >= n {
				continue
			}
			missAt := missAt
			e.law("law:Intersection/Union/Difference(many operands)", []any{n, missAt}, true, func() string {
				ops := make([][]int, n)
				iops := make([][]interface{}, n)
				for i := range ops {
					ops[i] = []int{1, 2, 3, 100 + i}
					if i == missAt {
						ops[i] = []int{1, 3, 100 + i} // 2 is missing from exactly one operand
					}
					iops[i] = box(ops[i])
				}
				got := fpgo.Intersection(ops...)
				if !eqMultiset(got, []int{1, 3}) {
					return fmt.Sprintf("Intersection of %d operands, 2 missing only from operand #%d: %v, want [1 3]", n, missAt, got)
				}
				gi, _ := unbox(fpgo.IntersectionForInterface(iops...))
				if !eqMultiset(gi, []int{1, 3}) {
					return fmt.Sprintf("IntersectionForInterface of %d operands, 2 missing only from operand #%d: %v, want [1 3]", n, missAt, gi)
				}
				u := fpgo.Union(ops...)
				if len(u) != 3+n || !noDup(u) {
					return fmt.Sprintf("Union of %d operands has %d elements (duplicates: %v), want %d distinct", n, len(u), !noDup(u), 3+n)
				}
				return ""
			})
		}
	}
}
