package props

import (
	"fmt"
	"math/rand"
	"runtime"
	"strings"
	"sync"
	"sync/atomic"
	"time"

	fpgo "github.com/TeaEntityLab/fpGo/v2"

	"verifharness/internal/core"
	"verifharness/internal/director"
)

// C12 — Handler and Actor mailboxes run work serially, exactly once, in per-sender order.

type c12Msg struct {
	sender, seq int
	marker      bool
}

// c12Probe is the monitor inside the effect. In the normal build it uses an atomic busy counter; in the
// race build it uses PLAIN variables on purpose: two effects that are not ordered by happens-before
// race on them even if they never overlapped in time.
type c12Probe struct {
	race    bool
	busy    atomic.Int32
	overlap atomic.Int32
	plain   int
	log     []c12Msg
	mu      sync.Mutex // normal build only
	yieldN  int
}

func (p *c12Probe) enter(m c12Msg, rng *rand.Rand) {
	if p.race {
		p.plain++
		p.log = append(p.log, m)
		return
	}
	if p.busy.Add(1) != 1 {
		p.overlap.Add(1)
	}
	for i := 0; i < p.yieldN; i++ {
		runtime.Gosched()
	}
	p.mu.Lock()
	p.log = append(p.log, m)
	p.mu.Unlock()
	p.busy.Add(-1)
}

func c12CheckLog(c *core.Ctx, what string, log []c12Msg, senders, perSender int, rep map[string]any) {
	seen := map[[2]int]int{}
	last := map[int]int{}
	for _, m := range log {
		if m.marker {
			continue
		}
		seen[[2]int{m.sender, m.seq}]++
		if l, ok := last[m.sender]; ok && m.seq < l {
			c.Violationf(what+":per-sender-order", rep, "%s: sender %d's message %d was processed after its message %d", what, m.sender, m.seq, l)
		}
		last[m.sender] = m.seq
	}
	for s := 0; s < senders; s++ {
		for k := 1; k <= perSender; k++ {
			switch n := seen[[2]int{s, k}]; {
			case n == 0:
				c.Violationf(what+":lost", rep, "%s: message (sender %d, seq %d) was never processed", what, s, k)
				return
			case n > 1:
				c.Violationf(what+":duplicated", rep, "%s: message (sender %d, seq %d) was processed %d times", what, s, k, n)
				return
			}
		}
	}
	if len(seen) != senders*perSender {
		c.Violationf(what+":invented", rep, "%s: %d distinct messages processed, %d were sent", what, len(seen), senders*perSender)
	}
}

func c12Await(c *core.Ctx, done <-chan struct{}, what string, rep map[string]any) bool {
	v, dump := core.AwaitOrStuck(done, 2*time.Second, 60*time.Second, director.Get().Total)
	switch v {
	case "done":
		return true
	case "stuck":
		c.Violationf(what+":stuck", map[string]any{"scenario": rep["scenario"], "goroutines": core.RepoGoroutineSummary(dump)}, "%s: the mailbox never drained; nothing can make progress any more", what)
	default:
		c.Inconclusive("watchdog in " + what)
	}
	return false
}

func c12Scenario(id string, race bool, senders, perSender, capacity int, seed int64) core.Scenario {
	return core.Scenario{ID: id, Class: "mailbox", Run: func(c *core.Ctx) {
		rep := map[string]any{"scenario": id, "senders": senders, "messages_each": perSender, "channel_capacity": capacity}
		c.Eval(int64(2 * senders * perSender))
		c.Distinct(id)
		c.CountMax("max.senders", int64(senders))
		// ---------------- Handler
		{
			var h *fpgo.HandlerDef
			if capacity == 0 {
				h = fpgo.Handler.New()
			} else {
				h = fpgo.Handler.NewByCh(make(chan func(), capacity))
			}
			p := &c12Probe{race: race, yieldN: int(seed % 3)}
			var wg sync.WaitGroup
			start := make(chan struct{})
			for s := 0; s < senders; s++ {
				wg.Add(1)
				go func(s int) {
					defer wg.Done()
					rng := rand.New(rand.NewSource(seed + int64(s)))
					<-start
					for k := 1; k <= perSender; k++ {
						m := c12Msg{sender: s, seq: k}
						h.Post(func() { p.enter(m, nil) })
						if rng.Intn(8) == 0 {
							runtime.Gosched()
						}
					}
				}(s)
			}
			close(start)
			sent := make(chan struct{})
			go func() { wg.Wait(); close(sent) }()
			if !c12Await(c, sent, "Handler.Post", rep) {
				return
			}
			done := make(chan struct{})
			h.Post(func() { close(done) }) // drain marker: the only synchronisation with the reader
			if !c12Await(c, done, "Handler", rep) {
				return
			}
			c12CheckLog(c, "Handler", p.log, senders, perSender, rep)
			if n := p.overlap.Load(); n > 0 {
				c.Violationf("Handler:overlap", rep, "Handler: %d posted functions started while another one was still running", n)
			}
			h.Close()
			var ranAfterClose atomic.Int32
			h.Post(func() { ranAfterClose.Add(1) })
			time.Sleep(time.Millisecond)
			if ranAfterClose.Load() != 0 {
				c.Violationf("Handler:ran-after-close", rep, "a function posted after Close() returned was run")
			}
		}
		// ---------------- Actor
		{
			p := &c12Probe{race: race, yieldN: int(seed % 3)}
			done := make(chan struct{})
			var wrongSelf atomic.Int32
			var a *fpgo.ActorDef[c12Msg]
			effect := func(self *fpgo.ActorDef[c12Msg], m c12Msg) {
				if self != a {
					wrongSelf.Add(1)
				}
				if m.marker {
					close(done)
					return
				}
				p.enter(m, nil)
			}
			if capacity == 0 {
				a = fpgo.ActorNewGenerics(effect)
			} else {
				a = fpgo.ActorNewByOptionsGenerics(effect, make(chan c12Msg, capacity), map[string]interface{}{})
			}
			var wg sync.WaitGroup
			start := make(chan struct{})
			for s := 0; s < senders; s++ {
				wg.Add(1)
				go func(s int) {
					defer wg.Done()
					rng := rand.New(rand.NewSource(seed*3 + int64(s)))
					<-start
					for k := 1; k <= perSender; k++ {
						a.Send(c12Msg{sender: s, seq: k})
						if rng.Intn(8) == 0 {
							runtime.Gosched()
						}
					}
				}(s)
			}
			// an observer keeps asking IsClosed() while the traffic runs: a query, it must say false and disturb nothing
			var stopObs atomic.Bool
			var closedSeen atomic.Int32
			obsDone := make(chan struct{})
			go func() {
				defer close(obsDone)
				for !stopObs.Load() {
					if a.IsClosed() {
						closedSeen.Add(1)
					}
					runtime.Gosched()
				}
			}()
			close(start)
			sent := make(chan struct{})
			go func() { wg.Wait(); close(sent) }()
			if !c12Await(c, sent, "Actor.Send", rep) {
				stopObs.Store(true)
				return
			}
			a.Send(c12Msg{marker: true})
			if !c12Await(c, done, "Actor", rep) {
				stopObs.Store(true)
				return
			}
			stopObs.Store(true)
			<-obsDone
			if closedSeen.Load() != 0 {
				c.Violationf("Actor:IsClosed", rep, "IsClosed() returned true %d times on an actor that was never closed", closedSeen.Load())
			}
			c12CheckLog(c, "Actor", p.log, senders, perSender, rep)
			if n := p.overlap.Load(); n > 0 {
				c.Violationf("Actor:overlap", rep, "Actor: %d messages were processed while another one was still being processed", n)
			}
			if wrongSelf.Load() != 0 {
				c.Violationf("Actor:wrong-self", rep, "the effect received another actor than the one the message was sent to")
			}
			a.Close()
			if !a.IsClosed() {
				c.Violationf("Actor:IsClosed", rep, "IsClosed() is false after Close() returned")
			}
			var ran atomic.Int32
			b := fpgo.ActorNewGenerics(func(self *fpgo.ActorDef[int], m int) { ran.Add(1) })
			b.Close()
			b.Send(1)
			time.Sleep(time.Millisecond)
			if ran.Load() != 0 {
				c.Violationf("Actor:ran-after-close", rep, "a message sent after Close() returned was processed")
			}
		}
		// closed while busy: the mailbox is closed while a function / message is being processed and the buffer has
		// free room; work submitted after Close() returned must still never run
		for _, cap2 := range []int{0, 1, 3} {
			gate := make(chan struct{})
			var late atomic.Int32
			var h *fpgo.HandlerDef
			if cap2 == 0 {
				h = fpgo.Handler.New()
			} else {
				h = fpgo.Handler.NewByCh(make(chan func(), cap2))
			}
			running := make(chan struct{})
			h.Post(func() { close(running); <-gate })
			<-running
			h.Close()
			for i := 0; i < 4; i++ {
				h.Post(func() { late.Add(1) })
			}
			close(gate)
			time.Sleep(2 * time.Millisecond)
			if late.Load() != 0 {
				c.Violationf("Handler:ran-after-close", rep, "Handler (capacity %d) closed while busy: %d functions posted after Close() returned were run", cap2, late.Load())
			}
			gate2 := make(chan struct{})
			running2 := make(chan struct{}, 1)
			var late2 atomic.Int32
			eff := func(self *fpgo.ActorDef[int], m int) {
				if m == 0 {
					running2 <- struct{}{}
					<-gate2
				} else {
					late2.Add(1)
				}
			}
			var a *fpgo.ActorDef[int]
			if cap2 == 0 {
				a = fpgo.ActorNewGenerics(eff)
			} else {
				a = fpgo.ActorNewByOptionsGenerics(eff, make(chan int, cap2), map[string]interface{}{})
			}
			a.Send(0)
			<-running2
			a.Close()
			for i := 1; i <= 4; i++ {
				a.Send(i)
			}
			close(gate2)
			time.Sleep(2 * time.Millisecond)
			if late2.Load() != 0 {
				c.Violationf("Actor:ran-after-close", rep, "Actor (capacity %d) closed while busy: %d messages sent after Close() returned were processed", cap2, late2.Load())
			}
		}
		if c.WantSample() {
			c.Sample(rep)
		}
	}}
}

// self-close with blocked senders: the work that is running closes its own Handler / Actor while `capacity` accepted
// items sit in the mailbox and `blocked` more senders are blocked on the full mailbox. Close() must return, the blocked
// senders must return, everything accepted before the Close runs exactly once in order, nothing runs twice.
func c12SelfClose(id string, actor bool, capacity, blocked int, seed int64) core.Scenario {
	return core.Scenario{ID: id, Class: "mailbox.self-close", Run: func(c *core.Ctx) {
		what := map[bool]string{true: "Actor", false: "Handler"}[actor]
		rep := map[string]any{"scenario": id, "target": what, "channel_capacity": capacity, "blocked_senders": blocked}
		c.Eval(1)
		c.Distinct(id)
		var mu sync.Mutex
		var log []int
		note := func(m int) { mu.Lock(); log = append(log, m); mu.Unlock() }
		entered, release, closeReturned := make(chan struct{}), make(chan struct{}), make(chan struct{})
		var submit func(m int)
		if actor {
			eff := func(self *fpgo.ActorDef[int], m int) {
				if m == 0 {
					close(entered)
					<-release
					self.Close()
					close(closeReturned)
				}
				note(m)
			}
			var a *fpgo.ActorDef[int]
			if capacity == 0 {
				a = fpgo.ActorNewGenerics(eff)
			} else {
				a = fpgo.ActorNewByOptionsGenerics(eff, make(chan int, capacity), map[string]interface{}{})
			}
			submit = func(m int) { a.Send(m) }
		} else {
			var h *fpgo.HandlerDef
			if capacity == 0 {
				h = fpgo.Handler.New()
			} else {
				h = fpgo.Handler.NewByCh(make(chan func(), capacity))
			}
			submit = func(m int) {
				h.Post(func() {
					if m == 0 {
						close(entered)
						<-release
						h.Close()
						close(closeReturned)
					}
					note(m)
				})
			}
		}
		submit(0)
		<-entered
		for m := 1; m <= capacity; m++ {
			submit(m) // accepted: the call returns
		}
		var wg sync.WaitGroup
		for b := 0; b < blocked; b++ {
			wg.Add(1)
			go func(b int) { defer wg.Done(); submit(100 + b) }(b)
		}
		time.Sleep(time.Duration(200+seed%7*300) * time.Microsecond) // let them block (if they have not yet, they race the Close: fine too)
		close(release)
		if !c12Await(c, closeReturned, what+":Close-from-its-own-work-with-blocked-senders", rep) {
			return
		}
		sendersDone := make(chan struct{})
		go func() { wg.Wait(); close(sendersDone) }()
		if !c12Await(c, sendersDone, what+":senders-blocked-at-Close", rep) {
			return
		}
		time.Sleep(2 * time.Millisecond)
		mu.Lock()
		got := append([]int(nil), log...)
		mu.Unlock()
		counts := map[int]int{}
		var acceptedOrder []int
		for _, m := range got {
			counts[m]++
			if m <= capacity {
				acceptedOrder = append(acceptedOrder, m)
			}
		}
		for m := 0; m <= capacity; m++ {
			if counts[m] != 1 {
				c.Violationf(what+":accepted-before-self-close-not-once", rep, "%s (capacity %d) closed by its own work with %d senders blocked: item %d, accepted before the Close, was processed %d times (processed: %v)", what, capacity, blocked, m, counts[m], got)
				return
			}
		}
		for i := range acceptedOrder {
			if acceptedOrder[i] != i {
				c.Violationf(what+":order", rep, "%s: accepted items were processed in the order %v", what, acceptedOrder)
				break
			}
		}
		for b := 0; b < blocked; b++ {
			if counts[100+b] > 1 {
				c.Violationf(what+":duplicate", rep, "%s: the item of a sender blocked at Close was processed %d times", what, counts[100+b])
			}
		}
	}}
}

// an Ask is a message like any other: one whose asker gave up (AskOnceWithTimeout timed out) while it was still queued
// behind a busy actor has been accepted by Send and is processed exactly once, in order, when the actor gets to it
func c12TimedOutAsk(id string, capacity int, seed int64) core.Scenario {
	return core.Scenario{ID: id, Class: "mailbox.ask-as-message", Run: func(c *core.Ctx) {
		rep := map[string]any{"scenario": id, "channel_capacity": capacity}
		c.Eval(1)
		c.Distinct(id)
		type tAsk = fpgo.AskDef[interface{}, int]
		var mu sync.Mutex
		var log []string
		gate := make(chan struct{})
		busy := make(chan struct{}, 1)
		tailDone := make(chan struct{})
		eff := func(self *fpgo.ActorDef[interface{}], m interface{}) {
			switch x := m.(type) {
			case string:
				mu.Lock()
				log = append(log, x)
				mu.Unlock()
				if x == "block" {
					busy <- struct{}{}
					<-gate
				}
				if x == "tail" {
					close(tailDone)
				}
			case *tAsk:
				mu.Lock()
				log = append(log, fmt.Sprintf("ask-%v", x.Message))
				mu.Unlock()
				func() {
					defer func() { recover() }() // late replies are C13's subject
					x.Reply(1)
				}()
			}
		}
		var a *fpgo.ActorDef[interface{}]
		if capacity == 0 {
			a = fpgo.Actor.New(eff)
		} else {
			a = fpgo.Actor.NewByOptions(eff, make(chan interface{}, capacity), map[string]interface{}{})
		}
		a.Send("block")
		<-busy
		asked := make(chan error, 1)
		go func() {
			_, err := fpgo.AskNewGenerics[interface{}, int]("q").AskOnceWithTimeout(a, time.Duration(1+seed%3)*time.Millisecond)
			asked <- err
		}()
		var askErr error
		select {
		case askErr = <-asked: // capacity >= 1: the ask was queued and its asker gave up
		case <-time.After(time.Duration(6+seed%3) * time.Millisecond): // capacity 0: the asker is still blocked in Send
		}
		go a.Send("tail") // behind the ask (or racing it on an unbuffered mailbox)
		time.Sleep(500 * time.Microsecond)
		close(gate)
		if !c12Await(c, tailDone, "Actor:timed-out-ask", rep) {
			return
		}
		if askErr == nil {
			select {
			case askErr = <-asked:
			case <-time.After(20 * time.Second):
				c.Inconclusive("asker never returned in " + id)
				return
			}
		}
		time.Sleep(time.Millisecond)
		mu.Lock()
		got := append([]string(nil), log...)
		mu.Unlock()
		n := 0
		for _, l := range got {
			if l == "ask-q" {
				n++
			}
		}
		if n != 1 {
			c.Violationf("Actor:ask-message-not-processed-once", rep, "an Ask sent to a busy actor (mailbox capacity %d) whose asker timed out (%v) while it was queued was processed %d times; the effect saw %v", capacity, askErr, n, got)
		}
		a.Close()
	}}
}

// many FRESH mailboxes whose very first submissions race each other (8 senders released by one barrier): anything that
// is set up lazily on first use is set up once; the functions still run one at a time, exactly once, in sender order
func c12FirstUseRace(id string, rounds int, seed int64) core.Scenario {
	return core.Scenario{ID: id, Class: "mailbox.first-use", Run: func(c *core.Ctx) {
		c.Eval(int64(rounds))
		c.Distinct(id)
		for r := 0; r < rounds; r++ {
			capacity := r % 3
			useActor := r%2 == 1
			var inflight, overlaps, ran atomic.Int32
			body := func() {
				if inflight.Add(1) > 1 {
					overlaps.Add(1)
				}
				runtime.Gosched()
				ran.Add(1)
				inflight.Add(-1)
			}
			var submit func()
			var closeIt func()
			if useActor {
				eff := func(self *fpgo.ActorDef[int], m int) { body() }
				var a *fpgo.ActorDef[int]
				if capacity == 0 {
					a = fpgo.ActorNewGenerics(eff)
				} else {
					a = fpgo.ActorNewByOptionsGenerics(eff, make(chan int, capacity), map[string]interface{}{})
				}
				submit, closeIt = func() { a.Send(1) }, a.Close
			} else {
				var h *fpgo.HandlerDef
				if capacity == 0 {
					h = fpgo.Handler.New()
				} else {
					h = fpgo.Handler.NewByCh(make(chan func(), capacity))
				}
				submit, closeIt = func() { h.Post(body) }, h.Close
			}
			const senders, each = 8, 3
			start := make(chan struct{})
			var wg sync.WaitGroup
			for s := 0; s < senders; s++ {
				wg.Add(1)
				go func() {
					defer wg.Done()
					<-start
					for k := 0; k < each; k++ {
						submit()
					}
				}()
			}
			close(start)
			sent := make(chan struct{})
			go func() { wg.Wait(); close(sent) }()
			rep := map[string]any{"scenario": id, "round": r, "actor": useActor, "channel_capacity": capacity}
			if !c12Await(c, sent, "first-use", rep) {
				return
			}
			deadline := time.Now().Add(20 * time.Second)
			for ran.Load() < senders*each && time.Now().Before(deadline) {
				time.Sleep(50 * time.Microsecond)
			}
			what := map[bool]string{true: "Actor", false: "Handler"}[useActor]
			if overlaps.Load() > 0 {
				c.Violationf(what+":overlap", rep, "fresh %s (capacity %d) whose first submissions came from 8 goroutines at once (round %d): %d functions started while another one was still running", what, capacity, r, overlaps.Load())
				closeIt()
				return
			}
			if ran.Load() != senders*each {
				if quiet, _ := core.QuietNow(); quiet {
					c.Violationf(what+":first-use-lost", rep, "fresh %s (capacity %d), first submissions from 8 goroutines at once: %d of %d submissions ran", what, capacity, ran.Load(), senders*each)
				} else {
					c.Inconclusive("first-use round still in progress after 20 s")
				}
				closeIt()
				return
			}
			closeIt()
		}
	}}
}

// an Ask is submitted through Send like any message: what ONE sender submits (asks through AskChannel and plain
// messages, interleaved, without waiting for the answers) reaches the actor in the order it was submitted
func c12AskThenSendOrder(id string, capacity int, seed int64) core.Scenario {
	return core.Scenario{ID: id, Class: "mailbox.ask-order", Run: func(c *core.Ctx) {
		c.Eval(1)
		c.Distinct(id)
		type oAsk = fpgo.AskDef[interface{}, int]
		var mu sync.Mutex
		var arrival []int
		eff := func(self *fpgo.ActorDef[interface{}], m interface{}) {
			switch x := m.(type) {
			case int:
				mu.Lock()
				arrival = append(arrival, x)
				mu.Unlock()
			case *oAsk:
				mu.Lock()
				arrival = append(arrival, x.Message.(int))
				mu.Unlock()
				x.Reply(0)
			}
		}
		a := fpgo.Actor.NewByOptions(eff, make(chan interface{}, capacity), map[string]interface{}{})
		const rounds = 150
		done := make(chan struct{})
		go func() {
			defer close(done)
			n := 0
			for r := 0; r < rounds; r++ {
				n++
				ch := fpgo.AskNewGenerics[interface{}, int](n).AskChannel(a)
				n++
				a.Send(n)
				if r%3 == 0 {
					n++
					a.Send(n)
				}
				<-ch
			}
		}()
		v, dump := core.AwaitOrStuck(done, 2*time.Second, 60*time.Second, func() int64 { mu.Lock(); defer mu.Unlock(); return int64(len(arrival)) })
		rep := map[string]any{"scenario": id, "channel_capacity": capacity}
		if v == "stuck" {
			c.Violationf("Actor:ask-then-send:stuck", map[string]any{"scenario": id, "goroutines": core.RepoGoroutineSummary(dump)}, "one sender alternating AskChannel and Send towards an actor with a mailbox of %d never finishes", capacity)
			return
		}
		if v != "done" {
			c.Inconclusive("watchdog in " + id)
			return
		}
		// the last plain messages may still be in the mailbox: wait for them through a final ask
		fpgo.AskNewGenerics[interface{}, int](1 << 30).AskOnce(a)
		mu.Lock()
		defer mu.Unlock()
		for i := 1; i < len(arrival); i++ {
			if arrival[i] < arrival[i-1] {
				c.Violationf("Actor:order", rep, "one sender submitted (asks through AskChannel and plain Sends) ...%d, %d...; the actor processed them as ...%d, %d...", arrival[i], arrival[i-1], arrival[i-1], arrival[i])
				break
			}
		}
		a.Close()
	}}
}

// Close() from OUTSIDE while a function is running and accepted work is buffered: everything whose Post / Send had
// returned before Close was called runs exactly once, in order
func c12CloseWithBacklog(id string, actor bool, capacity, backlog int) core.Scenario {
	return core.Scenario{ID: id, Class: "mailbox.close-with-backlog", Run: func(c *core.Ctx) {
		what := map[bool]string{true: "Actor", false: "Handler"}[actor]
		rep := map[string]any{"scenario": id, "target": what, "channel_capacity": capacity, "backlog": backlog}
		c.Eval(1)
		c.Distinct(id)
		var mu sync.Mutex
		var log []int
		note := func(m int) { mu.Lock(); log = append(log, m); mu.Unlock() }
		entered, release := make(chan struct{}), make(chan struct{})
		var submit func(m int)
		var closeIt func()
		if actor {
			a := fpgo.ActorNewByOptionsGenerics(func(self *fpgo.ActorDef[int], m int) {
				if m == 0 {
					close(entered)
					<-release
				}
				note(m)
			}, make(chan int, capacity), map[string]interface{}{})
			submit, closeIt = func(m int) { a.Send(m) }, a.Close
		} else {
			h := fpgo.Handler.NewByCh(make(chan func(), capacity))
			submit, closeIt = func(m int) {
				h.Post(func() {
					if m == 0 {
						close(entered)
						<-release
					}
					note(m)
				})
			}, h.Close
		}
		submit(0)
		<-entered
		for m := 1; m <= backlog; m++ {
			submit(m) // returns: accepted into the buffer
		}
		closed := make(chan struct{})
		go func() { defer close(closed); closeIt() }()
		if !c12Await(c, closed, what+":Close-with-backlog", rep) {
			close(release)
			return
		}
		close(release)
		deadline := time.Now().Add(20 * time.Second)
		for time.Now().Before(deadline) {
			mu.Lock()
			n := len(log)
			mu.Unlock()
			if n >= backlog+1 {
				break
			}
			time.Sleep(100 * time.Microsecond)
		}
		time.Sleep(time.Millisecond)
		mu.Lock()
		got := append([]int(nil), log...)
		mu.Unlock()
		ok := len(got) == backlog+1
		for i := 0; ok && i < len(got); i++ {
			ok = got[i] == i
		}
		if !ok {
			if quiet, _ := core.QuietNow(); quiet || len(got) > backlog+1 {
				c.Violationf(what+":accepted-before-close-not-once", rep, "%s (capacity %d) closed from outside while a function was running and %d accepted items were buffered: processed %v, want 0..%d once each, in order", what, capacity, backlog, got, backlog)
			} else {
				c.Inconclusive("backlog still being processed in " + id)
			}
		}
	}}
}

func nextTick() {
	t := time.Now()
	for !time.Now().After(t) {
	}
}

// spawn trees: bookkeeping (GetParent/GetChild) and independence of the mailboxes
func c12SpawnScenario(id string, depth, fan int, seed int64) core.Scenario {
	return core.Scenario{ID: id, Class: "mailbox.spawn", Run: func(c *core.Ctx) {
		rep := map[string]any{"scenario": id, "depth": depth, "fan": fan}
		c.Eval(1)
		c.Distinct(id)
		type node struct {
			a      *fpgo.ActorDef[int]
			parent *node
			kids   []*node
			got    *[]int
			mu     *sync.Mutex
		}
		var all []*node
		mk := func(parent *node) *node {
			n := &node{parent: parent, got: &[]int{}, mu: &sync.Mutex{}}
			eff := func(self *fpgo.ActorDef[int], m int) {
				n.mu.Lock()
				*n.got = append(*n.got, m)
				n.mu.Unlock()
			}
			nextTick() // actor ids are time stamps: keep them distinct
			if parent == nil {
				n.a = fpgo.ActorNewGenerics(eff)
			} else {
				n.a = parent.a.Spawn(eff)
				parent.kids = append(parent.kids, n)
			}
			all = append(all, n)
			return n
		}
		root := mk(nil)
		level := []*node{root}
		for d := 0; d < depth; d++ {
			var next []*node
			for _, p := range level {
				for f := 0; f < fan; f++ {
					next = append(next, mk(p))
				}
			}
			level = next
		}
		for i, n := range all {
			if n.parent == nil {
				if n.a.GetParent() != nil {
					c.Violationf("Spawn:root-has-parent", rep, "a root actor reports a parent")
				}
			} else {
				if n.a.GetParent() != n.parent.a {
					c.Violationf("Spawn:GetParent", rep, "node %d: GetParent() is not the spawning actor", i)
				}
				if n.parent.a.GetChild(n.a.GetID()) != n.a {
					c.Violationf("Spawn:GetChild", rep, "node %d: parent.GetChild(id) does not return the spawned actor", i)
				}
			}
			for _, o := range all {
				if o != n && o.parent != n && n.a.GetChild(o.a.GetID()) == o.a {
					c.Violationf("Spawn:foreign-child", rep, "an actor lists a child it did not spawn")
				}
			}
		}
		// independence: every actor receives only its own messages
		var wg sync.WaitGroup
		for i, n := range all {
			wg.Add(1)
			go func(i int, n *node) {
				defer wg.Done()
				for k := 0; k < 20; k++ {
					n.a.Send(i*1000 + k)
				}
			}(i, n)
		}
		sent := make(chan struct{})
		go func() { wg.Wait(); close(sent) }()
		if !c12Await(c, sent, "Spawn.Send", rep) {
			return
		}
		deadline := time.Now().Add(30 * time.Second)
		for i, n := range all {
			for {
				n.mu.Lock()
				l := len(*n.got)
				n.mu.Unlock()
				if l >= 20 || time.Now().After(deadline) {
					break
				}
				time.Sleep(200 * time.Microsecond)
			}
			n.mu.Lock()
			got := append([]int(nil), *n.got...)
			n.mu.Unlock()
			if len(got) != 20 {
				c.Violationf("Spawn:lost", rep, "actor %d processed %d of its 20 messages", i, len(got))
				continue
			}
			for k, m := range got {
				if m != i*1000+k {
					c.Violationf("Spawn:misrouted", rep, "actor %d processed message %d at position %d", i, m, k)
					break
				}
			}
		}
		// spawning from a closed parent: an unregistered, working actor
		root.a.Close()
		nextTick()
		got := make(chan int, 1)
		orphan := root.a.Spawn(func(self *fpgo.ActorDef[int], m int) { got <- m })
		if orphan.GetParent() != nil || root.a.GetChild(orphan.GetID()) != nil {
			c.Violationf("Spawn:closed-parent-registers", rep, "an actor spawned from a closed parent was registered under it")
		}
		orphan.Send(7)
		select {
		case m := <-got:
			if m != 7 {
				c.Violationf("Spawn:orphan-wrong-message", rep, "orphan processed %d", m)
			}
		case <-time.After(20 * time.Second):
			if quiet, _ := core.QuietNow(); quiet {
				c.Violationf("Spawn:orphan-dead", rep, "an actor spawned from a closed parent does not process messages")
			} else {
				c.Inconclusive("orphan probe still in progress after 20 s")
			}
		}
		for _, n := range all[1:] {
			n.a.Close()
		}
		orphan.Close()
	}}
}

// c12ClosedAncestor: mailboxes of a spawn tree are independent: closing the root (or a middle node) leaves the actors
// below it open - IsClosed() false, every message sent afterwards processed exactly once in order.
func c12ClosedAncestor(id string, closeWhich int) core.Scenario {
	return core.Scenario{ID: id, Class: "mailbox.spawn", Run: func(c *core.Ctx) {
		c.Eval(1)
		c.Distinct(id)
		rep := map[string]any{"scenario": id, "closed": [...]string{"root", "child", "root then child"}[closeWhich]}
		var mu sync.Mutex
		got := map[string][]int{}
		mkEff := func(name string) func(*fpgo.ActorDef[int], int) {
			return func(_ *fpgo.ActorDef[int], m int) {
				mu.Lock()
				got[name] = append(got[name], m)
				mu.Unlock()
			}
		}
		root := fpgo.ActorNewGenerics(mkEff("root"))
		nextTick()
		child := root.Spawn(mkEff("child"))
		nextTick()
		grand := child.Spawn(mkEff("grandchild"))
		nextTick()
		sibling := root.Spawn(mkEff("sibling"))
		child.Send(1)
		grand.Send(1)
		sibling.Send(1)
		switch closeWhich {
		case 0:
			root.Close()
		case 1:
			child.Close()
		case 2:
			root.Close()
			child.Close()
		}
		open := map[string]*fpgo.ActorDef[int]{"grandchild": grand, "sibling": sibling}
		if closeWhich == 0 {
			open["child"] = child
		}
		for name, a := range open {
			if a.IsClosed() {
				c.Violationf("Spawn:closed-with-ancestor", rep, "%s reports IsClosed() after only an ancestor / relative was closed", name)
			}
			for m := 2; m <= 5; m++ {
				a.Send(m)
			}
		}
		deadline := time.Now().Add(20 * time.Second)
		for {
			mu.Lock()
			ok := true
			for name := range open {
				if len(got[name]) < 5 {
					ok = false
				}
			}
			mu.Unlock()
			if ok {
				break
			}
			if time.Now().After(deadline) {
				if quiet, _ := core.QuietNow(); !quiet {
					c.Inconclusive("watchdog in " + id)
					return
				}
				break
			}
			time.Sleep(time.Millisecond)
		}
		time.Sleep(2 * time.Millisecond)
		mu.Lock()
		for name := range open {
			if fmt.Sprint(got[name]) != "[1 2 3 4 5]" {
				c.Violationf("Spawn:messages-lost-after-ancestor-closed", rep, "%s (still open) processed %v, want [1 2 3 4 5]: messages 2..5 were sent after %s had been closed", name, got[name], rep["closed"])
			}
		}
		mu.Unlock()
		for _, a := range []*fpgo.ActorDef[int]{root, child, grand, sibling} {
			core.Catch(a.Close)
		}
	}}
}

func c12Scenarios(c *core.Ctx, race bool) []core.Scenario {
	var out []core.Scenario
	for w := 0; w < 3; w++ {
		out = append(out, c12ClosedAncestor(fmt.Sprintf("closed-ancestor-%d-race%v", w, race), w))
	}
	for i := 0; i < c.Pick(6, 24); i++ {
		if race && i >= 2 {
			break
		}
		out = append(out, c12FirstUseRace(fmt.Sprintf("first-use-race-%d-race%v", i, race), c.Pick(1500, 4000), c.Seed+int64(i)))
	}
	for i := 0; i < c.Pick(6, 30); i++ {
		out = append(out, c12AskThenSendOrder(fmt.Sprintf("ask-then-send-%d-race%v", i, race), []int{4, 8, 16}[i%3], c.Seed+int64(i)))
	}
	for _, actor := range []bool{false, true} {
		for _, capBack := range [][2]int{{1, 1}, {4, 3}, {8, 8}, {8, 5}, {16, 16}} {
			out = append(out, c12CloseWithBacklog(fmt.Sprintf("close-with-backlog-%v-%d-%d-race%v", actor, capBack[0], capBack[1], race), actor, capBack[0], capBack[1]))
		}
	}
	for i := 0; i < c.Pick(8, 40); i++ {
		out = append(out, c12TimedOutAsk(fmt.Sprintf("timed-out-ask-cap%d-%d-race%v", i%4, i, race), i%4, c.Seed+int64(i)))
	}
	for capacity := 0; capacity <= 3; capacity++ {
		for blocked := 0; blocked <= 3; blocked++ {
			for _, actor := range []bool{false, true} {
				for r := 0; r < c.Pick(1, 6); r++ {
					out = append(out, c12SelfClose(fmt.Sprintf("self-close-%v-cap%d-blocked%d-r%d-race%v", actor, capacity, blocked, r, race), actor, capacity, blocked, c.Seed+int64(r)))
				}
			}
		}
	}
	n := c.Pick(40, 400)
	if race {
		n = c.Pick(16, 80)
	}
	rng := c.Rng("c12")
	sizes := []int{1, 2, 3, 4, 8, 16}
	for i := 0; i < n; i++ {
		s := sizes[rng.Intn(len(sizes))]
		per := []int{1, 5, 50, 400, 2000}[rng.Intn(5)]
		if race && per > 400 {
			per = 400
		}
		if c.Thorough() && !race && i%50 == 0 {
			per = 60000 // long runs
		}
		capy := rng.Intn(5)
		out = append(out, c12Scenario(fmt.Sprintf("mailbox-%d-s%d-n%d-cap%d-race%v", i, s, per, capy, race), race, s, per, capy, c.Seed*17+int64(i)))
	}
	if !race {
		for d := 1; d <= 3; d++ {
			for f := 1; f <= 3; f++ {
				out = append(out, c12SpawnScenario(fmt.Sprintf("spawn-d%d-f%d", d, f), d, f, c.Seed))
			}
		}
	}
	return out
}

func init() {
	core.Register(&core.Check{
		ID: "C12",
		Meta: func(c *core.Ctx) core.Meta {
			return core.Meta{
				Level:       "exploration",
				Rule:        "1..16 concurrent senders x 1..2000 messages (thorough: long runs of 60000) x channel capacity 0..4 (New / NewByCh / NewByOptions) against one Handler and one Actor per scenario; every message carries (sender, seq); the effect is the monitor: normal build = atomic busy counter (must read 1 on entry) + PRNG yields inside the effect, race build = PLAIN counter and PLAIN log append so that the Go race detector (deciding) reports any two effects not ordered by happens-before; after a drain marker the log must hold every message exactly once with each sender's subsequence increasing; self == actor; IsClosed() polled by an observer during the traffic; work submitted after Close returned never runs; Close() called by the running work itself with 0..3 accepted items buffered and 0..3 senders blocked on the full mailbox (Close and the senders must return, accepted items run once in order); thousands of fresh Handlers / Actors whose very first submissions race each other (8 senders, one barrier: nothing overlaps, nothing is lost); one sender interleaving AskChannel and Send (arrival order); Close() from outside with accepted work buffered (it still runs once, in order); an Ask whose asker timed out while it was queued behind a busy actor (capacity 0..3) is still processed exactly once; spawn trees of depth 1..3 x fan 1..3 for GetParent/GetChild, mailbox independence and spawning from a closed parent. distinct_nontrivial = distinct scenarios; (round 7) spawn trees whose root / middle node is closed: the actors below report IsClosed() false and process the messages sent afterwards exactly once in order",
				Assumptions: []string{"Close is called after the drain or by the running work itself (closing concurrently with arbitrary senders is property C15)", "actor ids are time stamps; the harness spaces Spawn calls by one clock tick"},
			}
		},
		Scenarios: c12Scenarios,
		Batch:     10, RaceToo: true, RaceBatch: 8, Par: 6, Timeout: 300e9,
		RaceRelevant: func(s core.RaceSig) bool {
			// the plain isClosed flag read by Post/Send and written by Close: shutdown concurrent with senders is C15's
			// subject (DESIGN.md section 4), not a statement of C12
			if strings.Contains(s.Sig, ").Close") {
				return false
			}
			return strings.Contains(s.Text, "c12Probe") || strings.Contains(s.Text, "handler.go") || strings.Contains(s.Text, "actor.go")
		},
	})
}
