package props

import (
	"fmt"
	"math/rand"
	"runtime"
	"strings"
	"sync"
	"sync/atomic"
	"time"

	fpgo "github.com/TeaEntityLab/fpGo/v2"
	"github.com/TeaEntityLab/fpGo/v2/worker"

	"verifharness/internal/core"
	"verifharness/internal/director"
)

// C15 — shutdown is safe at any moment: closing never panics concurrent users.
// Directed fault/schedule enumeration: for every (component, operation, park point after the
// operation's closed/done check, close variant) a scenario parks the user U at the point, runs the
// close C to completion (or until it blocks on a lock U holds), releases U, awaits both with the stuck
// detector and then issues the post-close probes. One scenario per child process.

type c15Outcome struct {
	uPanic, cPanic any
	uWhere, cWhere string
	stuck          bool
	dump           string
	reached        bool
}

// c15Race parks the nth arrival at point (U), runs C, releases U and awaits both.
func c15Race(c *core.Ctx, id, point string, nth int, u func(), cl func()) c15Outcome {
	d := director.Get()
	var out c15Outcome
	gate := d.Park(point, nth)
	uDone, cDone := make(chan struct{}), make(chan struct{})
	go func() {
		defer close(uDone)
		out.uPanic, out.uWhere = core.Catch(u)
	}()
	if !gate.WaitArrived(5 * time.Second) {
		gate.Release()
		<-uDone
		return out // hook never reached: the caller reports inconclusive
	}
	out.reached = true
	go func() {
		defer close(cDone)
		out.cPanic, out.cWhere = core.Catch(cl)
	}()
	// let C run to completion; if it blocks on a lock that the parked U holds, release U anyway
	select {
	case <-cDone:
	case <-time.After(20 * time.Millisecond):
	}
	gate.Release()
	both := make(chan struct{})
	go func() { <-uDone; <-cDone; close(both) }()
	v, dump := core.AwaitOrStuck(both, 2*time.Second, 60*time.Second, d.Total)
	if v == "stuck" {
		out.stuck, out.dump = true, dump
	} else if v != "done" {
		c.Inconclusive("watchdog in " + id)
	}
	return out
}

func c15Report(c *core.Ctx, id, comp, op, point string, o c15Outcome) bool {
	rep := map[string]any{"scenario": id, "component": comp, "operation": op, "parked_at": point}
	if !o.reached {
		c.Inconclusive(fmt.Sprintf("%s: hook point %s was never reached", id, point))
		return false
	}
	c.Count("directed.parks_reached", 1)
	ok := true
	if o.uPanic != nil {
		c.Violationf(fmt.Sprintf("%s.%s@%s:user-panic:%s", comp, op, point, core.NormalizePanic(fmt.Sprint(o.uPanic))), rep,
			"%s.%s parked at %s while Close() ran to completion: the calling goroutine panics with %v (at %s)", comp, op, point, o.uPanic, o.uWhere)
		ok = false
	}
	if o.cPanic != nil {
		c.Violationf(fmt.Sprintf("%s.Close-vs-%s@%s:close-panic:%s", comp, op, point, core.NormalizePanic(fmt.Sprint(o.cPanic))), rep,
			"%s.Close() racing %s (parked at %s) panics with %v (at %s)", comp, op, point, o.cPanic, o.cWhere)
		ok = false
	}
	if o.stuck {
		c.Violationf(fmt.Sprintf("%s.%s@%s:deadlock", comp, op, point), map[string]any{"scenario": id, "goroutines": core.RepoGoroutineSummary(o.dump)},
			"%s.%s parked at %s while Close() ran: somebody never returns and no library goroutine can make progress", comp, op, point)
		ok = false
	}
	return ok
}

func c15Scenario(id, comp string, run func(c *core.Ctx, id string)) core.Scenario {
	return core.Scenario{ID: id, Class: comp, Run: func(c *core.Ctx) {
		director.Get().Reset(1)
		c.Eval(1)
		c.Distinct(id)
		run(c, id)
		// a panic in a library-owned goroutine kills the process a little later: give it the chance to
		time.Sleep(30 * time.Millisecond)
		if c.WantSample() {
			c.Sample(map[string]any{"scenario": id, "component": comp})
		}
	}}
}

// ---------------------------------------------------------------------------------------------
// Handler / Actor

func c15HandlerActor() []core.Scenario {
	var out []core.Scenario
	for _, capy := range []int{0, 2} {
		capy := capy
		mkH := func() *fpgo.HandlerDef {
			if capy == 0 {
				return fpgo.Handler.New()
			}
			return fpgo.Handler.NewByCh(make(chan func(), capy))
		}
		out = append(out, c15Scenario(fmt.Sprintf("H1-post-checked-cap%d", capy), "Handler", func(c *core.Ctx, id string) {
			h := mkH()
			var ran atomic.Int32
			o := c15Race(c, id, "handler.Post.checked", 1, func() { h.Post(func() { ran.Add(1) }) }, func() { h.Close() })
			c15Report(c, id, "Handler", "Post", "handler.Post.checked", o)
		}))
		out = append(out, c15Scenario(fmt.Sprintf("H2-post-blocked-in-send-cap%d", capy), "Handler", func(c *core.Ctx, id string) {
			h := mkH()
			gate := make(chan struct{})
			h.Post(func() { <-gate }) // the loop goroutine is held inside this function
			for i := 0; i < capy; i++ {
				h.Post(func() {})
			}
			var uPanic any
			uDone := make(chan struct{})
			go func() {
				defer close(uDone)
				uPanic, _ = core.Catch(func() { h.Post(func() {}) }) // blocks in the channel send
			}()
			time.Sleep(2 * time.Millisecond)
			var cp any
			cDone := make(chan struct{})
			go func() { defer close(cDone); cp, _ = core.Catch(func() { h.Close() }) }()
			select { // Close may legitimately wait until the running function is done
			case <-cDone:
			case <-time.After(20 * time.Millisecond):
			}
			close(gate)
			both := make(chan struct{})
			go func() { <-uDone; <-cDone; close(both) }()
			v, dump := core.AwaitOrStuck(both, 2*time.Second, 60*time.Second, director.Get().Total)
			rep := map[string]any{"scenario": id}
			if uPanic != nil {
				c.Violationf("Handler.Post@blocked-in-send:user-panic:"+core.NormalizePanic(fmt.Sprint(uPanic)), rep, "a Post blocked in the channel send panics when the Handler is closed: %v", uPanic)
			}
			if cp != nil {
				c.Violationf("Handler.Close:panic", rep, "Close panics: %v", cp)
			}
			if v == "stuck" {
				c.Violationf("Handler.Post@blocked-in-send:deadlock", map[string]any{"scenario": id, "goroutines": core.RepoGoroutineSummary(dump)}, "a Post blocked in the channel send never returns after Close")
			}
		}))
		mkA := func(eff func(*fpgo.ActorDef[int], int)) *fpgo.ActorDef[int] {
			if capy == 0 {
				return fpgo.ActorNewGenerics(eff)
			}
			return fpgo.ActorNewByOptionsGenerics(eff, make(chan int, capy), map[string]interface{}{})
		}
		out = append(out, c15Scenario(fmt.Sprintf("A1-send-checked-cap%d", capy), "Actor", func(c *core.Ctx, id string) {
			a := mkA(func(*fpgo.ActorDef[int], int) {})
			o := c15Race(c, id, "actor.Send.checked", 1, func() { a.Send(1) }, func() { a.Close() })
			c15Report(c, id, "Actor", "Send", "actor.Send.checked", o)
		}))
		out = append(out, c15Scenario(fmt.Sprintf("A2-send-blocked-in-send-cap%d", capy), "Actor", func(c *core.Ctx, id string) {
			gate := make(chan struct{})
			first := true
			a := mkA(func(*fpgo.ActorDef[int], int) {
				if first {
					first = false
					<-gate
				}
			})
			a.Send(0)
			for i := 0; i < capy; i++ {
				a.Send(0)
			}
			var uPanic any
			uDone := make(chan struct{})
			go func() {
				defer close(uDone)
				uPanic, _ = core.Catch(func() { a.Send(1) })
			}()
			time.Sleep(2 * time.Millisecond)
			var cp any
			cDone := make(chan struct{})
			go func() { defer close(cDone); cp, _ = core.Catch(func() { a.Close() }) }()
			select {
			case <-cDone:
			case <-time.After(20 * time.Millisecond):
			}
			close(gate)
			both := make(chan struct{})
			go func() { <-uDone; <-cDone; close(both) }()
			v, dump := core.AwaitOrStuck(both, 2*time.Second, 60*time.Second, director.Get().Total)
			rep := map[string]any{"scenario": id}
			if uPanic != nil {
				c.Violationf("Actor.Send@blocked-in-send:user-panic:"+core.NormalizePanic(fmt.Sprint(uPanic)), rep, "a Send blocked in the channel send panics when the Actor is closed: %v", uPanic)
			}
			if cp != nil {
				c.Violationf("Actor.Close:panic", rep, "Close panics: %v", cp)
			}
			if v == "stuck" {
				c.Violationf("Actor.Send@blocked-in-send:deadlock", map[string]any{"scenario": id, "goroutines": core.RepoGoroutineSummary(dump)}, "a Send blocked in the channel send never returns after Close")
			}
		}))
	}
	// the self-close idiom: the running function / effect closes its own Handler / Actor while other senders are
	// blocked in Post / Send (buffer full or unbuffered)
	for _, capy := range []int{0, 1} {
		capy := capy
		out = append(out, c15Scenario(fmt.Sprintf("H4-handler-closes-itself-with-blocked-posters-cap%d", capy), "Handler", func(c *core.Ctx, id string) {
			var h *fpgo.HandlerDef
			if capy == 0 {
				h = fpgo.Handler.New()
			} else {
				h = fpgo.Handler.NewByCh(make(chan func(), capy))
			}
			closed := make(chan struct{})
			gate := make(chan struct{})
			var cp any
			h.Post(func() {
				<-gate
				cp, _ = core.Catch(func() { h.Close() })
				close(closed)
			})
			var wg sync.WaitGroup
			var up atomic.Value
			for i := 0; i < 3+capy; i++ {
				wg.Add(1)
				go func() {
					defer wg.Done()
					if pv, _ := core.Catch(func() { h.Post(func() {}) }); pv != nil {
						up.Store(fmt.Sprint(pv))
					}
				}()
			}
			time.Sleep(2 * time.Millisecond) // the posters are blocked in the channel send now
			close(gate)
			all := make(chan struct{})
			go func() { <-closed; wg.Wait(); close(all) }()
			v, dump := core.AwaitOrStuck(all, 2*time.Second, 60*time.Second, director.Get().Total)
			rep := map[string]any{"scenario": id}
			if cp != nil || up.Load() != nil {
				c.Violationf("Handler.self-close-with-blocked-posters:panic", rep, "panic: close=%v poster=%v", cp, up.Load())
			}
			if v == "stuck" {
				c.Violationf("Handler.self-close-with-blocked-posters:deadlock", map[string]any{"scenario": id, "goroutines": core.RepoGoroutineSummary(dump)}, "a posted function closes its own Handler while other Posts are blocked: somebody never returns")
			}
		}))
		out = append(out, c15Scenario(fmt.Sprintf("A4-actor-closes-itself-with-blocked-senders-cap%d", capy), "Actor", func(c *core.Ctx, id string) {
			closed := make(chan struct{})
			gate := make(chan struct{})
			var cp any
			first := true
			eff := func(self *fpgo.ActorDef[int], m int) {
				if first {
					first = false
					<-gate
					cp, _ = core.Catch(func() { self.Close() })
					close(closed)
				}
			}
			var a *fpgo.ActorDef[int]
			if capy == 0 {
				a = fpgo.ActorNewGenerics(eff)
			} else {
				a = fpgo.ActorNewByOptionsGenerics(eff, make(chan int, capy), map[string]interface{}{})
			}
			a.Send(0)
			var wg sync.WaitGroup
			var up atomic.Value
			for i := 0; i < 3+capy; i++ {
				wg.Add(1)
				go func() {
					defer wg.Done()
					if pv, _ := core.Catch(func() { a.Send(1) }); pv != nil {
						up.Store(fmt.Sprint(pv))
					}
				}()
			}
			time.Sleep(2 * time.Millisecond)
			close(gate)
			all := make(chan struct{})
			go func() { <-closed; wg.Wait(); close(all) }()
			v, dump := core.AwaitOrStuck(all, 2*time.Second, 60*time.Second, director.Get().Total)
			rep := map[string]any{"scenario": id}
			if cp != nil || up.Load() != nil {
				c.Violationf("Actor.self-close-with-blocked-senders:panic", rep, "panic: close=%v sender=%v", cp, up.Load())
			}
			if v == "stuck" {
				c.Violationf("Actor.self-close-with-blocked-senders:deadlock", map[string]any{"scenario": id, "goroutines": core.RepoGoroutineSummary(dump)}, "an effect closes its own Actor while other Sends are blocked: somebody never returns")
			}
		}))
	}
	out = append(out, c15Scenario("H3-A3-after-close", "Handler/Actor", func(c *core.Ctx, id string) {
		rep := map[string]any{"scenario": id}
		h := fpgo.Handler.New()
		var ran atomic.Int32
		h.Close()
		pv, _ := core.Catch(func() { h.Post(func() { ran.Add(1) }) })
		a := fpgo.ActorNewGenerics(func(*fpgo.ActorDef[int], int) { ran.Add(1) })
		a.Close()
		pv2, _ := core.Catch(func() { a.Send(1) })
		var child *fpgo.ActorDef[int]
		got := make(chan int, 1)
		pv3, _ := core.Catch(func() { child = a.Spawn(func(_ *fpgo.ActorDef[int], m int) { got <- m }) })
		if pv != nil || pv2 != nil || pv3 != nil {
			c.Violationf("after-close:panic", rep, "Post/Send/Spawn after Close returned panic: %v %v %v", pv, pv2, pv3)
			return
		}
		time.Sleep(2 * time.Millisecond)
		if ran.Load() != 0 {
			c.Violationf("after-close:callback-ran", rep, "a callback ran for work submitted after Close returned")
		}
		if !a.IsClosed() {
			c.Violationf("after-close:IsClosed", rep, "Actor.IsClosed() is false after Close")
		}
		if child == nil || child.GetParent() != nil {
			c.Violationf("after-close:spawn", rep, "Spawn from a closed parent must return an unregistered actor")
			return
		}
		child.Send(5)
		select {
		case <-got:
		case <-time.After(20 * time.Second):
			if quiet, _ := core.QuietNow(); quiet {
				c.Violationf("after-close:spawned-actor-dead", rep, "an actor spawned from a closed parent does not work")
			} else {
				c.Inconclusive("spawned-actor probe still in progress after 20 s")
			}
		}
		child.Close()
	}))
	return out
}

// ---------------------------------------------------------------------------------------------
// BufferedChannelQueue

func c15Queue() []core.Scenario {
	var out []core.Scenario
	mkQ := func(capy, buf int) *fpgo.BufferedChannelQueue[int] {
		q := fpgo.NewBufferedChannelQueue[int](capy, buf, 4)
		q.SetLoadFromPoolDuration(100 * time.Microsecond)
		return q
	}
	type userOp struct {
		name, point string
		run         func(q *fpgo.BufferedChannelQueue[int]) (int, error)
		okErrs      []error
	}
	ops := []userOp{
		{"Take", "bcq.Take.checked", func(q *fpgo.BufferedChannelQueue[int]) (int, error) { return q.Take() }, nil},
		{"TakeWithTimeout", "bcq.TakeWithTimeout.checked", func(q *fpgo.BufferedChannelQueue[int]) (int, error) { return q.TakeWithTimeout(5 * time.Millisecond) }, nil},
		{"Poll", "bcq.Poll.checked", func(q *fpgo.BufferedChannelQueue[int]) (int, error) { return q.Poll() }, nil},
		{"Poll", "bcq.Poll.notified", func(q *fpgo.BufferedChannelQueue[int]) (int, error) { return q.Poll() }, nil},
		{"GetChannel", "bcq.GetChannel.enter", func(q *fpgo.BufferedChannelQueue[int]) (int, error) {
			ch := q.GetChannel()
			select {
			case v, ok := <-ch:
				if !ok {
					return 0, fpgo.ErrQueueIsClosed
				}
				return v, nil
			case <-time.After(5 * time.Millisecond):
				return 0, fpgo.ErrQueueTakeTimeout
			}
		}, nil},
		{"Offer", "bcq.Offer.enter", func(q *fpgo.BufferedChannelQueue[int]) (int, error) { return 0, q.Offer(77) }, nil},
		{"Offer", "bcq.Offer.pooled", func(q *fpgo.BufferedChannelQueue[int]) (int, error) { return 0, q.Offer(77) }, nil},
		{"Put", "bcq.Offer.enter", func(q *fpgo.BufferedChannelQueue[int]) (int, error) { return 0, q.Put(77) }, nil},
		{"Count", "bcq.Count.checked", func(q *fpgo.BufferedChannelQueue[int]) (int, error) { return q.Count(), nil }, nil},
	}
	for _, prefill := range []int{0, 3} {
		for _, op := range ops {
			op := op
			prefill := prefill
			if op.point == "bcq.Offer.pooled" && prefill == 0 {
				continue // the overflow path needs a full channel
			}
			out = append(out, c15Scenario(fmt.Sprintf("Q-%s@%s-prefill%d", op.name, op.point, prefill), "BufferedChannelQueue", func(c *core.Ctx, id string) {
				q := mkQ(1, 8)
				for i := 1; i <= prefill; i++ {
					q.Offer(i)
				}
				var val int
				var err error
				o := c15Race(c, id, op.point, 1, func() { val, err = op.run(q) }, func() { q.Close() })
				if !c15Report(c, id, "BufferedChannelQueue", op.name, op.point, o) {
					return
				}
				rep := map[string]any{"scenario": id, "returned": fmt.Sprint(val, err)}
				// an operation that raced the close may return a real item, empty/timeout/full or closed - never an invented value
				switch op.name {
				case "Take", "TakeWithTimeout", "Poll", "GetChannel":
					if err == nil && (val < 1 || val > prefill) {
						c.Violationf("BufferedChannelQueue."+op.name+"@"+op.point+":invented-value", rep, "%s racing Close returned (%d, nil) although only the values 1..%d were ever offered", op.name, val, prefill)
					}
				}
			}))
		}
	}
	// Q7: the loader passed its closed check with a non-empty overflow list; Close completes; the loader goes on
	for _, point := range []string{"bcq.loader.checked", "bcq.loader.locked", "bcq.loader.inhand", "bcq.loader.wake", "bcq.loader.beforeSleep", "bcq.freeNode.wake"} {
		point := point
		out = append(out, c15Scenario("Q-loader@"+point, "BufferedChannelQueue", func(c *core.Ctx, id string) {
			q := mkQ(1, 8)
			d := director.Get()
			for i := 1; i <= 4; i++ {
				q.Offer(i) // 1 in the channel, 3 in the overflow list
			}
			time.Sleep(2 * time.Millisecond) // let the loader finish the passes the Offers triggered
			// arm the gate only now (the script must never need the lock while the loader is parked holding it),
			// then wake the loader once more: it finds a non-empty overflow list
			gate := d.Park(point, 1)
			go q.Poll()
			if !gate.WaitArrived(5 * time.Second) {
				gate.Release()
				c.Inconclusive(id + ": the loader never reached " + point)
				return
			}
			c.Count("directed.parks_reached", 1)
			cDone := make(chan struct{})
			var cp any
			go func() { defer close(cDone); cp, _ = core.Catch(func() { q.Close() }) }()
			select {
			case <-cDone:
			case <-time.After(20 * time.Millisecond):
			}
			gate.Release()
			v, dump := core.AwaitOrStuck(cDone, 2*time.Second, 60*time.Second, d.Total)
			if cp != nil {
				c.Violationf("BufferedChannelQueue.Close-vs-loader@"+point+":close-panic", map[string]any{"scenario": id}, "Close panics while the loader is at %s: %v", point, cp)
			}
			if v == "stuck" {
				c.Violationf("BufferedChannelQueue.loader@"+point+":deadlock", map[string]any{"scenario": id, "goroutines": core.RepoGoroutineSummary(dump)}, "Close never returns while the loader is at %s", point)
			}
			// the loader continues in its own goroutine: a panic there kills this process and is attributed by the parent
			time.Sleep(20 * time.Millisecond)
		}))
	}
	// Q10/Q11: consumers already blocked when Close arrives
	out = append(out, c15Scenario("Q-blocked-take-and-receiver", "BufferedChannelQueue", func(c *core.Ctx, id string) {
		q := mkQ(2, 2)
		var wg sync.WaitGroup
		errs := make([]error, 3)
		var pvs [3]any
		wg.Add(3)
		go func() { defer wg.Done(); pvs[0], _ = core.Catch(func() { _, errs[0] = q.Take() }) }()
		go func() {
			defer wg.Done()
			pvs[1], _ = core.Catch(func() { _, errs[1] = q.TakeWithTimeout(10 * time.Second) })
		}()
		go func() {
			defer wg.Done()
			pvs[2], _ = core.Catch(func() {
				if _, ok := <-q.GetChannel(); !ok {
					errs[2] = fpgo.ErrQueueIsClosed
				}
			})
		}()
		time.Sleep(3 * time.Millisecond)
		cp, _ := core.Catch(func() { q.Close() })
		joined := make(chan struct{})
		go func() { wg.Wait(); close(joined) }()
		v, dump := core.AwaitOrStuck(joined, 2*time.Second, 60*time.Second, director.Get().Total)
		rep := map[string]any{"scenario": id, "errors": fmt.Sprint(errs)}
		if cp != nil || pvs[0] != nil || pvs[1] != nil || pvs[2] != nil {
			c.Violationf("BufferedChannelQueue.blocked-consumers:panic", rep, "Close with blocked consumers panics: %v %v", cp, pvs)
		}
		if v == "stuck" {
			c.Violationf("BufferedChannelQueue.blocked-consumers:deadlock", map[string]any{"scenario": id, "goroutines": core.RepoGoroutineSummary(dump)}, "consumers blocked on an empty queue are not released by Close")
			return
		}
		for i, e := range errs {
			if e != fpgo.ErrQueueIsClosed {
				c.Violationf("BufferedChannelQueue.blocked-consumers:wrong-result", rep, "blocked consumer #%d returned %v after Close, want ErrQueueIsClosed", i, e)
			}
		}
	}))
	// Q13: producers on a COMPLETELY full queue (channel full and overflow buffer at its maximum, no consumer) while
	// Close arrives: whatever Offer / Put do when nothing fits (refuse, or wait for room), the close must neither make
	// them panic nor leave them blocked
	for _, cfg := range [][2]int{{0, 0}, {1, 0}, {0, 1}, {2, 2}, {1, 3}} {
		for _, usePut := range []bool{false, true} {
			for _, delay := range []time.Duration{0, 3 * time.Millisecond} {
				cfg, usePut, delay := cfg, usePut, delay
				opName := "Offer"
				if usePut {
					opName = "Put"
				}
				out = append(out, c15Scenario(fmt.Sprintf("Q-full-queue-%s-cap%d-buf%d-close-after-%v", opName, cfg[0], cfg[1], delay), "BufferedChannelQueue", func(c *core.Ctx, id string) {
					q := mkQ(cfg[0], cfg[1])
					held := 0
					for i := 1; i <= cfg[0]+cfg[1]+2; i++ {
						if q.Offer(i) == nil {
							held++
						} else {
							time.Sleep(time.Millisecond) // the loader may still move an item from the buffer to the channel
							if q.Offer(i) == nil {
								held++
							}
						}
					}
					var wg sync.WaitGroup
					pvs := make([]any, 3)
					errs := make([]error, 3)
					for g := 0; g < 3; g++ {
						g := g
						wg.Add(1)
						go func() {
							defer wg.Done()
							pvs[g], _ = core.Catch(func() {
								if usePut {
									errs[g] = q.Put(100 + g)
								} else {
									errs[g] = q.Offer(100 + g)
								}
							})
						}()
					}
					if delay > 0 {
						time.Sleep(delay)
					}
					cp, _ := core.Catch(func() { q.Close() })
					joined := make(chan struct{})
					go func() { wg.Wait(); close(joined) }()
					v, dump := core.AwaitOrStuck(joined, 2*time.Second, 60*time.Second, director.Get().Total)
					rep := map[string]any{"scenario": id, "held_at_close": held, "results": fmt.Sprint(errs), "panics": fmt.Sprint(pvs)}
					if cp != nil || pvs[0] != nil || pvs[1] != nil || pvs[2] != nil {
						c.Violationf("BufferedChannelQueue.full-queue-producers:panic", rep, "three %s calls on a completely full queue (capacity %d + buffer %d, no consumer) while Close() runs: panic close=%v producers=%v", opName, cfg[0], cfg[1], cp, pvs)
					}
					if v == "stuck" {
						c.Violationf("BufferedChannelQueue.full-queue-producers:deadlock", map[string]any{"scenario": id, "goroutines": core.RepoGoroutineSummary(dump)}, "%s on a completely full queue is not released by Close()", opName)
						return
					} else if v != "done" {
						c.Inconclusive("watchdog in " + id)
						return
					}
					for g, e := range errs {
						if pvs[g] == nil && e != fpgo.ErrQueueIsFull && e != fpgo.ErrQueueIsClosed {
							c.Violationf("BufferedChannelQueue.full-queue-producers:wrong-result", rep, "%s #%d on a completely full queue that is being closed returned %v (want ErrQueueIsFull or ErrQueueIsClosed: nobody took anything)", opName, g, e)
						}
					}
				}))
			}
		}
	}
	// Q12: everything after Close returned reports it
	for _, fill := range []int{0, 1, 5, 6, 9} {
		fill := fill
		out = append(out, c15Scenario(fmt.Sprintf("Q-after-close-filled%d", fill), "BufferedChannelQueue", func(c *core.Ctx, id string) {
			// closed empty, partly filled, completely full (channel 2 + buffer 4) and after refused Offers
			q := mkQ(2, 4)
			for i := 1; i <= fill; i++ {
				q.Offer(i)
			}
			q.Close()
			rep := map[string]any{"scenario": id, "values_held_at_close": fill}
			pv, where := core.Catch(func() {
				for k := 0; k < 3; k++ {
					if err := q.Offer(9); err != fpgo.ErrQueueIsClosed {
						c.Violationf("after-close:Offer", rep, "Offer after Close returned %v (the queue held %d values when it was closed; capacity 2+4)", err, fill)
						break
					}
					if err := q.Put(9); err != fpgo.ErrQueueIsClosed {
						c.Violationf("after-close:Put", rep, "Put after Close returned %v (the queue held %d values when it was closed; capacity 2+4)", err, fill)
						break
					}
				}
				if !q.IsClosed() || q.Count() != 0 {
					c.Violationf("after-close:IsClosed", rep, "after Close: IsClosed=%v Count=%d", q.IsClosed(), q.Count())
				}
			})
			if pv != nil {
				c.Violationf("after-close:panic:"+core.NormalizePanic(fmt.Sprint(pv)), rep, "an operation after Close returned panics: %v at %s", pv, where)
			}
		}))
	}
	out = append(out, c15Scenario("Q-after-close", "BufferedChannelQueue", func(c *core.Ctx, id string) {
		q := mkQ(2, 4)
		for i := 1; i <= 5; i++ {
			q.Offer(i)
		}
		q.Close()
		rep := map[string]any{"scenario": id}
		pv, where := core.Catch(func() {
			if err := q.Offer(9); err != fpgo.ErrQueueIsClosed {
				c.Violationf("after-close:Offer", rep, "Offer after Close returned %v", err)
			}
			if err := q.Put(9); err != fpgo.ErrQueueIsClosed {
				c.Violationf("after-close:Put", rep, "Put after Close returned %v", err)
			}
			if _, err := q.Take(); err != fpgo.ErrQueueIsClosed {
				c.Violationf("after-close:Take", rep, "Take after Close returned %v", err)
			}
			if _, err := q.TakeWithTimeout(time.Millisecond); err != fpgo.ErrQueueIsClosed {
				c.Violationf("after-close:TakeWithTimeout", rep, "TakeWithTimeout after Close returned %v", err)
			}
			if _, err := q.Poll(); err != fpgo.ErrQueueIsClosed {
				c.Violationf("after-close:Poll", rep, "Poll after Close returned %v", err)
			}
			if n := q.Count(); n != 0 {
				c.Violationf("after-close:Count", rep, "Count after Close returned %d", n)
			}
			if !q.IsClosed() {
				c.Violationf("after-close:IsClosed", rep, "IsClosed is false after Close")
			}
			_ = q.GetChannel()
		})
		if pv != nil {
			c.Violationf("after-close:panic:"+core.NormalizePanic(fmt.Sprint(pv)), rep, "an operation after Close returned panics: %v at %s", pv, where)
		}
	}))
	return out
}

// ---------------------------------------------------------------------------------------------
// Coroutines

func c15Cor() []core.Scenario {
	var out []core.Scenario
	// R1: a caller is inside target.receive, past the done check, when the target's effect returns and close() completes
	for _, point := range []string{"cor.doCloseSafe.checked"} {
		point := point
		out = append(out, c15Scenario("R1-yieldfrom@"+point, "Cor", func(c *core.Ctx, id string) {
			d := director.Get()
			finish := make(chan struct{})
			target := fpgo.CorNewGenerics[int](func() { <-finish })
			target.Start()
			var callerPanic any
			callerDone := make(chan struct{})
			var caller *fpgo.CorDef[int]
			gate := d.Park(point, 1)
			caller = fpgo.CorNewGenerics[int](func() {
				defer close(callerDone)
				callerPanic, _ = core.Catch(func() { caller.YieldFrom(target, 5) })
			})
			caller.Start()
			if !gate.WaitArrived(5 * time.Second) {
				gate.Release()
				close(finish)
				c.Inconclusive(id + ": hook never reached")
				return
			}
			c.Count("directed.parks_reached", 1)
			close(finish) // the target's effect returns; close() runs to completion
			deadline := time.Now().Add(10 * time.Second)
			for !target.IsDone() && time.Now().Before(deadline) {
				time.Sleep(50 * time.Microsecond)
			}
			time.Sleep(2 * time.Millisecond)
			gate.Release()
			v, dump := core.AwaitOrStuck(callerDone, 2*time.Second, 60*time.Second, d.Total)
			if callerPanic != nil {
				c.Violationf("Cor.YieldFrom@"+point+":user-panic:"+core.NormalizePanic(fmt.Sprint(callerPanic)), map[string]any{"scenario": id}, "a caller inside YieldFrom (past the done check) panics when the target coroutine completes: %v", callerPanic)
			}
			if v == "stuck" {
				c.Violationf("Cor.YieldFrom@"+point+":deadlock", map[string]any{"scenario": id, "goroutines": core.RepoGoroutineSummary(dump)}, "a caller inside YieldFrom never returns after the target coroutine completed")
			}
		}))
	}
	// R2: the target's close() is parked right after setting the flag / after taking the lock; a caller starts YieldFrom
	for _, point := range []string{"cor.close.flagged", "cor.close.locked"} {
		point := point
		out = append(out, c15Scenario("R2-close@"+point, "Cor", func(c *core.Ctx, id string) {
			d := director.Get()
			gate := d.Park(point, 1)
			target := fpgo.CorNewGenerics[int](func() {})
			target.Start()
			if !gate.WaitArrived(5 * time.Second) {
				gate.Release()
				c.Inconclusive(id + ": hook never reached")
				return
			}
			c.Count("directed.parks_reached", 1)
			var callerPanic any
			callerDone := make(chan struct{})
			var caller *fpgo.CorDef[int]
			caller = fpgo.CorNewGenerics[int](func() {
				defer close(callerDone)
				callerPanic, _ = core.Catch(func() { caller.YieldFrom(target, 5) })
			})
			caller.Start()
			time.Sleep(2 * time.Millisecond)
			gate.Release()
			v, dump := core.AwaitOrStuck(callerDone, 2*time.Second, 60*time.Second, d.Total)
			if callerPanic != nil {
				c.Violationf("Cor.YieldFrom-vs-close@"+point+":user-panic:"+core.NormalizePanic(fmt.Sprint(callerPanic)), map[string]any{"scenario": id}, "YieldFrom racing the target's completion panics: %v", callerPanic)
			}
			if v == "stuck" {
				c.Violationf("Cor.YieldFrom-vs-close@"+point+":deadlock", map[string]any{"scenario": id, "goroutines": core.RepoGoroutineSummary(dump)}, "YieldFrom racing the target's completion never returns")
			}
		}))
	}
	// R3: YieldFrom begun after the target is done
	out = append(out, c15Scenario("R3-yieldfrom-after-done", "Cor", func(c *core.Ctx, id string) {
		target := fpgo.CorNewGenerics[int](func() {})
		target.Start()
		deadline := time.Now().Add(10 * time.Second)
		for !target.IsDone() && time.Now().Before(deadline) {
			time.Sleep(50 * time.Microsecond)
		}
		time.Sleep(time.Millisecond)
		var callerPanic any
		var got int
		callerDone := make(chan struct{})
		var caller *fpgo.CorDef[int]
		caller = fpgo.CorNewGenerics[int](func() {
			defer close(callerDone)
			callerPanic, _ = core.Catch(func() { got = caller.YieldFrom(target, 5) })
		})
		caller.Start()
		v, dump := core.AwaitOrStuck(callerDone, 2*time.Second, 60*time.Second, director.Get().Total)
		rep := map[string]any{"scenario": id}
		if callerPanic != nil {
			c.Violationf("Cor.YieldFrom@after-done:user-panic", rep, "YieldFrom on a finished coroutine panics: %v", callerPanic)
		}
		if v == "stuck" {
			c.Violationf("Cor.YieldFrom@after-done:deadlock", map[string]any{"scenario": id, "goroutines": core.RepoGoroutineSummary(dump)}, "YieldFrom(target, x) begun after the target coroutine is done never returns (nothing was sent, nobody will reply)")
			return
		}
		if got != 0 || !target.IsDone() {
			c.Violationf("Cor.YieldFrom@after-done:result", rep, "YieldFrom on a finished coroutine returned %d (IsDone=%v), want the zero value", got, target.IsDone())
		}
	}))
	// the callers' own completion while the target replies (YieldRef -> caller.resultCh)
	out = append(out, c15Scenario("R4-yieldref-reply-vs-caller-done", "Cor", func(c *core.Ctx, id string) {
		d := director.Get()
		d.Yield(3, "cor.YieldRef.taken", "cor.doCloseSafe.checked", "cor.close.flagged")
		for round := 0; round < 200; round++ {
			var target *fpgo.CorDef[int]
			tDone := make(chan struct{})
			var tPanic any
			target = fpgo.CorNewGenerics[int](func() {
				defer close(tDone)
				tPanic, _ = core.Catch(func() {
					for k := 0; k < 3; k++ {
						target.YieldRef(k)
					}
				})
			})
			target.Start()
			var wg sync.WaitGroup
			for ci := 0; ci < 3; ci++ {
				wg.Add(1)
				var caller *fpgo.CorDef[int]
				caller = fpgo.CorNewGenerics[int](func() {
					defer wg.Done()
					caller.YieldFrom(target, 1)
				})
				caller.Start()
			}
			both := make(chan struct{})
			go func() { wg.Wait(); <-tDone; close(both) }()
			v, dump := core.AwaitOrStuck(both, 2*time.Second, 60*time.Second, d.Total)
			if tPanic != nil {
				c.Violationf("Cor.YieldRef:user-panic", map[string]any{"scenario": id}, "YieldRef panics while callers complete: %v", tPanic)
				return
			}
			if v == "stuck" {
				c.Violationf("Cor.pairing-vs-completion:deadlock", map[string]any{"scenario": id, "goroutines": core.RepoGoroutineSummary(dump)}, "3 callers x 1 request against a target with 3 YieldRefs never finished (round %d)", round)
				return
			}
		}
	}))
	// R5: the CALLING coroutine completes while a helper goroutine started by its effect is inside a.YieldFrom(b, x),
	// past the hand-over to b and before it waits for the answer: the helper must return (zero value), not block
	for _, fullOps := range []bool{false, true} {
		fullOps := fullOps
		out = append(out, c15Scenario(fmt.Sprintf("R5-caller-completes-inside-its-own-yieldfrom-fullops%v", fullOps), "Cor", func(c *core.Ctx, id string) {
			d := director.Get()
			finishB := make(chan struct{})
			b := fpgo.CorNewGenerics[int](func() { <-finishB })
			b.Start()
			if fullOps {
				// b's request channel is full (5 pending requests of other callers): the hand-over itself blocks
				for k := 0; k < 5; k++ {
					var other *fpgo.CorDef[int]
					other = fpgo.CorNewGenerics[int](func() { other.YieldFrom(b, k) })
					other.Start()
				}
				time.Sleep(2 * time.Millisecond)
			}
			var gate *director.Gate
			if !fullOps {
				gate = d.Park("cor.YieldFrom.sent", 1)
			}
			helperDone := make(chan struct{})
			var helperPanic any
			leave := make(chan struct{})
			var a *fpgo.CorDef[int]
			a = fpgo.CorNewGenerics[int](func() {
				go func() {
					defer close(helperDone)
					helperPanic, _ = core.Catch(func() { a.YieldFrom(b, 99) })
				}()
				<-leave
			})
			a.Start()
			if gate != nil {
				if !gate.WaitArrived(5 * time.Second) {
					gate.Release()
					close(leave)
					close(finishB)
					c.Inconclusive(id + ": hook never reached")
					return
				}
				c.Count("directed.parks_reached", 1)
			} else {
				time.Sleep(3 * time.Millisecond) // the helper blocks in the hand-over
			}
			close(leave) // a's effect returns; a.close() runs to completion
			deadline := time.Now().Add(10 * time.Second)
			for !a.IsDone() && time.Now().Before(deadline) {
				time.Sleep(50 * time.Microsecond)
			}
			time.Sleep(2 * time.Millisecond)
			if gate != nil {
				gate.Release()
			} else {
				close(finishB) // b completes: the blocked hand-overs are released
			}
			v, dump := core.AwaitOrStuck(helperDone, 2*time.Second, 60*time.Second, d.Total)
			if helperPanic != nil {
				c.Violationf("Cor.YieldFrom-vs-own-completion:user-panic:"+core.NormalizePanic(fmt.Sprint(helperPanic)), map[string]any{"scenario": id}, "a.YieldFrom(b, x) on a helper goroutine panics when a completes meanwhile: %v", helperPanic)
			}
			if v == "stuck" {
				c.Violationf("Cor.YieldFrom-vs-own-completion:deadlock", map[string]any{"scenario": id, "goroutines": core.RepoGoroutineSummary(dump)}, "a.YieldFrom(b, x) running on a helper goroutine never returns after a itself completed (request handed to b: nobody will answer a finished coroutine)")
			}
			if gate != nil {
				close(finishB)
			}
		}))
	}
	return out
}

// ---------------------------------------------------------------------------------------------
// WorkerPool

func c15Pool() []core.Scenario {
	var out []core.Scenario
	type poolEnv struct {
		q       *fpgo.BufferedChannelQueue[func()]
		p       *worker.DefaultWorkerPool
		handled *[]interface{}
		mu      *sync.Mutex
	}
	mk := func(closeQueue bool, qcap, qbuf int) poolEnv {
		q := fpgo.NewBufferedChannelQueue[func()](qcap, qbuf, 4)
		q.SetLoadFromPoolDuration(100 * time.Microsecond)
		var mu sync.Mutex
		var handled []interface{}
		p := worker.NewDefaultWorkerPool(q, nil).SetSpawnWorkerDuration(100 * time.Microsecond).SetWorkerExpiryDuration(2 * time.Millisecond).
			SetWorkerSizeMaximum(2).SetWorkerSizeStandBy(1).SetWorkerBatchSize(1).SetIsJobQueueClosedWhenClose(closeQueue).
			SetPanicHandler(func(v interface{}) { mu.Lock(); handled = append(handled, v); mu.Unlock() })
		return poolEnv{q, p, &handled, &mu}
	}
	checkHandler := func(c *core.Ctx, id string, e poolEnv) {
		time.Sleep(10 * time.Millisecond)
		e.mu.Lock()
		defer e.mu.Unlock()
		if len(*e.handled) > 0 {
			c.Violationf("WorkerPool:panic-handler-invoked-for-non-job-panic:"+core.NormalizePanic(fmt.Sprint((*e.handled)[0])), map[string]any{"scenario": id},
				"the pool's panic handler was invoked with %v although no job panicked (a worker's own shutdown path panicked)", (*e.handled)[0])
		}
	}
	for _, closeQueue := range []bool{true, false} {
		closeQueue := closeQueue
		tag := map[bool]string{true: "closeQueue", false: "keepQueue"}[closeQueue]
		out = append(out, c15Scenario("P1-schedule-checked-"+tag, "WorkerPool", func(c *core.Ctx, id string) {
			e := mk(closeQueue, 2, 4)
			var ran atomic.Int32
			var err error
			o := c15Race(c, id, "pool.Schedule.checked", 1, func() { err = e.p.Schedule(func() { ran.Add(1) }) }, func() { e.p.Close() })
			if !c15Report(c, id, "WorkerPool", "Schedule", "pool.Schedule.checked", o) {
				return
			}
			rep := map[string]any{"scenario": id, "returned": fmt.Sprint(err)}
			if closeQueue && err != worker.ErrWorkerPoolIsClosed && err != fpgo.ErrQueueIsClosed {
				c.Violationf("WorkerPool.Schedule@checked:wrong-result", rep, "Schedule racing Close (queue closed with the pool) returned %v", err)
			}
			checkHandler(c, id, e)
		}))
		for _, point := range []string{"pool.worker.checked", "pool.worker.loop", "pool.worker.expired", "pool.worker.gotJob"} {
			point := point
			out = append(out, c15Scenario("P2-worker@"+point+"-"+tag, "WorkerPool", func(c *core.Ctx, id string) {
				e := mk(closeQueue, 2, 4)
				d := director.Get()
				gate := d.Park(point, 1)
				var ran atomic.Int32
				e.p.Schedule(func() { ran.Add(1) })
				if !gate.WaitArrived(5 * time.Second) {
					gate.Release()
					e.p.Close()
					c.Inconclusive(id + ": a worker never reached " + point)
					return
				}
				c.Count("directed.parks_reached", 1)
				cp, _ := core.Catch(func() { e.p.Close() })
				gate.Release()
				if cp != nil {
					c.Violationf("WorkerPool.Close-vs-worker@"+point+":close-panic", map[string]any{"scenario": id}, "Close panics: %v", cp)
				}
				checkHandler(c, id, e)
			}))
		}
		out = append(out, c15Scenario("P3-idle-workers-"+tag, "WorkerPool", func(c *core.Ctx, id string) {
			e := mk(closeQueue, 2, 4)
			e.p.PreAllocWorkerSize(2)
			time.Sleep(time.Millisecond)
			cp, _ := core.Catch(func() { e.p.Close() })
			if cp != nil {
				c.Violationf("WorkerPool.Close:panic", map[string]any{"scenario": id}, "Close with idle workers panics: %v", cp)
			}
			checkHandler(c, id, e)
		}))
		for _, point := range []string{"pool.Schedule.offered", "pool.spawn.wake", "pool.trySpawn.computed"} {
			point := point
			out = append(out, c15Scenario("P4-"+point+"-"+tag, "WorkerPool", func(c *core.Ctx, id string) {
				e := mk(closeQueue, 2, 4)
				var err error
				o := c15Race(c, id, point, 1, func() { err = e.p.Schedule(func() {}) }, func() { e.p.Close() })
				c15Report(c, id, "WorkerPool", "Schedule", point, o)
				_ = err
				checkHandler(c, id, e)
			}))
		}
		out = append(out, c15Scenario("P6-schedule-with-timeout-on-full-queue-"+tag, "WorkerPool", func(c *core.Ctx, id string) {
			e := mk(closeQueue, 1, 0)
			e.p.SetWorkerSizeMaximum(1)
			gate := make(chan struct{})
			running := make(chan struct{})
			e.p.Schedule(func() { close(running); <-gate })
			select {
			case <-running: // the only worker is inside the gated job: nothing leaves the queue any more
			case <-time.After(20 * time.Second):
				close(gate)
				e.p.Close()
				c.Inconclusive(id + ": the gated job never started")
				return
			}
			for i := 0; i < 3; i++ {
				e.p.Schedule(func() {})
			}
			var err error
			var up any
			uDone := make(chan struct{})
			go func() {
				defer close(uDone)
				up, _ = core.Catch(func() { err = e.p.ScheduleWithTimeout(func() {}, 10*time.Second) })
			}()
			time.Sleep(3 * time.Millisecond)
			select {
			case <-uDone:
				// the call already returned (a second worker, spawned under the pool's initial maximum, made room): the
				// window "retrying on a full queue while Close runs" was not reached in this run
				c.Count("P6.call-returned-before-close", 1)
				close(gate)
				e.p.Close()
				return
			default:
			}
			cp, _ := core.Catch(func() { e.p.Close() })
			v, dump := core.AwaitOrStuck(uDone, 2*time.Second, 60*time.Second, director.Get().Total)
			close(gate)
			rep := map[string]any{"scenario": id, "returned": fmt.Sprint(err)}
			if up != nil || cp != nil {
				c.Violationf("WorkerPool.ScheduleWithTimeout-vs-Close:panic", rep, "panic: %v %v", up, cp)
			}
			if v == "stuck" {
				c.Violationf("WorkerPool.ScheduleWithTimeout-vs-Close:deadlock", map[string]any{"scenario": id, "goroutines": core.RepoGoroutineSummary(dump)}, "ScheduleWithTimeout retrying on a full queue never returns after Close")
			} else if err != worker.ErrWorkerPoolIsClosed && err != fpgo.ErrQueueIsClosed && err != nil {
				// (nil = a retry was accepted in the instant before Close set its flag: a legal linearization)
				c.Violationf("WorkerPool.ScheduleWithTimeout-vs-Close:wrong-result", rep, "ScheduleWithTimeout returned %v after the pool was closed", err)
			}
			checkHandler(c, id, e)
		}))
		// P8: the job queue is closed by somebody else (its owner, or another pool sharing it) while this pool is open
		for _, who := range []string{"owner", "other-pool"} {
			who := who
			out = append(out, c15Scenario("P8-queue-closed-by-"+who+"-"+tag, "WorkerPool", func(c *core.Ctx, id string) {
				e := mk(closeQueue, 2, 4)
				e.p.Schedule(func() {})
				time.Sleep(time.Millisecond)
				if who == "owner" {
					e.q.Close()
				} else {
					other := worker.NewDefaultWorkerPool(e.q, nil).SetSpawnWorkerDuration(100 * time.Microsecond).SetWorkerSizeMaximum(1).SetWorkerSizeStandBy(1).SetPanicHandler(func(interface{}) {})
					other.Close() // closes the shared queue
				}
				var ran atomic.Int32
				rep := map[string]any{"scenario": id}
				for k, call := range []func() error{
					func() error { return e.p.Schedule(func() { ran.Add(1) }) },
					func() error { return e.p.ScheduleWithTimeout(func() { ran.Add(1) }, time.Millisecond) },
					func() error {
						worker.NewDefaultInvokable[int](e.p, func(int) { ran.Add(1) }).Invoke(1)
						return worker.NewDefaultInvokable[int](e.p, func(int) { ran.Add(1) }).InvokeWithTimeout(1, time.Millisecond)
					},
					func() error { return e.p.Schedule(func() { ran.Add(1) }) },
				} {
					var err error
					pv, where := core.Catch(func() { err = call() })
					if pv != nil {
						c.Violationf("WorkerPool:queue-closed-under-open-pool:user-panic:"+core.NormalizePanic(fmt.Sprint(pv)), rep, "the job queue was closed by %s while the pool is open: call #%d (Schedule / ScheduleWithTimeout / Invoke / Schedule) panics in the caller's goroutine: %v (at %s)", who, k, pv, where)
						break
					}
					if err == nil {
						c.Violationf("WorkerPool:queue-closed-under-open-pool:accepted", rep, "call #%d reported success although the job queue is closed", k)
					}
				}
				time.Sleep(2 * time.Millisecond)
				if ran.Load() != 0 {
					c.Violationf("WorkerPool:queue-closed-under-open-pool:job-ran", rep, "%d jobs submitted after the job queue was closed were run", ran.Load())
				}
				checkHandler(c, id, e)
			}))
		}
		out = append(out, c15Scenario("P7-after-close-"+tag, "WorkerPool", func(c *core.Ctx, id string) {
			e := mk(closeQueue, 2, 4)
			e.p.Schedule(func() {})
			time.Sleep(time.Millisecond)
			e.p.Close()
			var ran atomic.Int32
			rep := map[string]any{"scenario": id}
			pv, _ := core.Catch(func() {
				if err := e.p.Schedule(func() { ran.Add(1) }); err != worker.ErrWorkerPoolIsClosed {
					c.Violationf("after-close:Schedule", rep, "Schedule after Close returned %v", err)
				}
				if err := e.p.ScheduleWithTimeout(func() { ran.Add(1) }, time.Millisecond); err != worker.ErrWorkerPoolIsClosed {
					c.Violationf("after-close:ScheduleWithTimeout", rep, "ScheduleWithTimeout after Close returned %v", err)
				}
				if !e.p.IsClosed() {
					c.Violationf("after-close:IsClosed", rep, "IsClosed is false after Close")
				}
				e.p.Close() // closing twice is harmless
			})
			if pv != nil {
				c.Violationf("after-close:panic", rep, "an operation after Close panics: %v", pv)
			}
			time.Sleep(2 * time.Millisecond)
			if ran.Load() != 0 {
				c.Violationf("after-close:job-ran", rep, "a job scheduled after Close returned was run")
			}
			checkHandler(c, id, e)
		}))
	}
	// Close() while workers are INSIDE running jobs, for worker batch sizes 1..4 and both job-queue policies: when the
	// jobs return the workers find the pool (and the job channel) closed; the panic handler must stay silent
	for batch := 1; batch <= 4; batch++ {
		for _, closeQueue := range []bool{true, false} {
			batch, closeQueue := batch, closeQueue
			out = append(out, c15Scenario(fmt.Sprintf("P-close-while-jobs-running-batch%d-closeQueue%v", batch, closeQueue), "WorkerPool", func(c *core.Ctx, id string) {
				e := mk(closeQueue, 4, 8)
				e.p.SetWorkerBatchSize(batch).SetWorkerSizeMaximum(3).SetWorkerSizeStandBy(2)
				gate := make(chan struct{})
				var started, finished atomic.Int32
				for i := 0; i < 3; i++ {
					e.p.Schedule(func() { started.Add(1); <-gate; finished.Add(1) })
				}
				for t0 := time.Now(); started.Load() < 2 && time.Since(t0) < 5*time.Second; {
					time.Sleep(200 * time.Microsecond)
				}
				if started.Load() < 1 {
					c.Inconclusive("no job started within 5 s in " + id)
					close(gate)
					return
				}
				cp, where := core.Catch(e.p.Close)
				close(gate)
				time.Sleep(20 * time.Millisecond) // the released jobs return and their workers look at the closed pool
				rep := map[string]any{"scenario": id, "worker_batch_size": batch, "jobs_running_at_close": started.Load()}
				if cp != nil {
					c.Violationf("WorkerPool.Close-while-jobs-running:panic", rep, "Close() with %d jobs in progress panics: %v at %s", started.Load(), cp, where)
				}
				checkHandler(c, id, e)
				if !closeQueue {
					core.Catch(e.q.Close)
				}
			}))
		}
	}
	return out
}

// ---------------------------------------------------------------------------------------------
// randomised stress for windows without a hook

func c15Stress(id string, comp int, seed int64) core.Scenario {
	return core.Scenario{ID: id, Class: [...]string{"Handler.stress", "Actor.stress", "BufferedChannelQueue.stress", "WorkerPool.stress", "Cor.stress"}[comp], Run: func(c *core.Ctx) {
		d := director.Get()
		d.Reset(seed)
		d.Yield(3, "handler.Post.checked", "actor.Send.checked", "bcq.Take.checked", "bcq.Poll.checked", "bcq.Poll.notified", "bcq.loader.checked", "bcq.loader.inhand", "bcq.Close.flagged", "bcq.Close.loadChClosed",
			"pool.worker.checked", "pool.Schedule.checked", "cor.doCloseSafe.checked", "cor.close.flagged", "handler.Close.flagged", "actor.Close.flagged")
		c.Eval(1)
		c.Distinct(id)
		rng := rand.New(rand.NewSource(seed))
		users := 1 + rng.Intn(8)
		var wg sync.WaitGroup
		var mu sync.Mutex
		panics := map[string]bool{}
		guard := func(fn func()) {
			if pv, where := core.Catch(fn); pv != nil {
				mu.Lock()
				panics[core.NormalizePanic(fmt.Sprint(pv))+"@"+where] = true
				mu.Unlock()
			}
		}
		closeAfter := time.Duration(rng.Intn(400)) * time.Microsecond
		var closer func()
		switch comp {
		case 0:
			h := fpgo.Handler.NewByCh(make(chan func(), rng.Intn(3)))
			for u := 0; u < users; u++ {
				wg.Add(1)
				go func() {
					defer wg.Done()
					guard(func() {
						for i := 0; i < 200; i++ {
							h.Post(func() {})
						}
					})
				}()
			}
			closer = func() { guard(h.Close) }
		case 1:
			a := fpgo.ActorNewByOptionsGenerics(func(*fpgo.ActorDef[int], int) {}, make(chan int, rng.Intn(3)), map[string]interface{}{})
			for u := 0; u < users; u++ {
				wg.Add(1)
				go func() {
					defer wg.Done()
					guard(func() {
						for i := 0; i < 200; i++ {
							a.Send(i)
						}
					})
				}()
			}
			closer = func() { guard(a.Close) }
		case 2:
			q := fpgo.NewBufferedChannelQueue[int](1+rng.Intn(2), rng.Intn(6), 4)
			q.SetLoadFromPoolDuration(50 * time.Microsecond)
			for u := 0; u < users; u++ {
				u := u
				wg.Add(1)
				go func() {
					defer wg.Done()
					guard(func() {
						for i := 0; i < 300; i++ {
							switch (u + i) % 5 {
							case 0, 1:
								q.Offer(i)
							case 2:
								q.Poll()
							case 3:
								q.TakeWithTimeout(100 * time.Microsecond)
							default:
								select {
								case <-q.GetChannel():
								default:
								}
								q.Count()
							}
						}
					})
				}()
			}
			closer = func() { guard(q.Close) }
		case 3:
			q := fpgo.NewBufferedChannelQueue[func()](2, 4, 4)
			q.SetLoadFromPoolDuration(50 * time.Microsecond)
			var foreign atomic.Int32
			p := worker.NewDefaultWorkerPool(q, nil).SetSpawnWorkerDuration(50 * time.Microsecond).SetWorkerExpiryDuration(time.Millisecond).
				SetWorkerSizeMaximum(3).SetWorkerSizeStandBy(1).SetWorkerBatchSize(1 + int(seed%3)).SetPanicHandler(func(interface{}) { foreign.Add(1) })
			for u := 0; u < users; u++ {
				wg.Add(1)
				go func() {
					defer wg.Done()
					guard(func() {
						for i := 0; i < 200; i++ {
							p.Schedule(func() { runtime.Gosched() })
						}
					})
				}()
			}
			closer = func() {
				guard(p.Close)
				time.Sleep(5 * time.Millisecond)
				if foreign.Load() > 0 {
					c.Violationf("WorkerPool:panic-handler-invoked-for-non-job-panic", map[string]any{"scenario": id}, "the panic handler was invoked %d times although no job panics", foreign.Load())
				}
			}
		default:
			finish := make(chan struct{})
			var target *fpgo.CorDef[int]
			target = fpgo.CorNewGenerics[int](func() {
				for {
					select {
					case <-finish:
						return
					default:
					}
					target.YieldRef(1)
				}
			})
			target.Start()
			for u := 0; u < users; u++ {
				wg.Add(1)
				var caller *fpgo.CorDef[int]
				done := make(chan struct{})
				caller = fpgo.CorNewGenerics[int](func() {
					defer close(done)
					guard(func() {
						for i := 0; i < 50; i++ {
							caller.YieldFrom(target, i)
						}
					})
				})
				caller.Start()
				go func() {
					defer wg.Done()
					select {
					case <-done:
					case <-time.After(3 * time.Second): // a caller may legitimately wait for a target that no longer serves
					}
				}()
			}
			closer = func() { close(finish) }
		}
		time.Sleep(closeAfter)
		closer()
		joined := make(chan struct{})
		go func() { wg.Wait(); close(joined) }()
		v, dump := core.AwaitOrStuck(joined, 2*time.Second, 60*time.Second, d.Total)
		if v == "stuck" && comp != 4 {
			c.Violationf("stress:deadlock:"+id[:strings.Index(id, "-")], map[string]any{"scenario": id, "goroutines": core.RepoGoroutineSummary(dump)}, "users never returned after the close")
		}
		for k := range panics {
			c.Violationf("stress:user-panic:"+k, map[string]any{"scenario": id, "users": users, "close_after": closeAfter.String()}, "a user goroutine panicked around the close: %s", k)
		}
		time.Sleep(10 * time.Millisecond)
	}}
}

// many short-lived pools: every round 1..8 goroutines call Schedule / ScheduleWithTimeout in a loop (some jobs panic,
// so that workers die while the pool closes) and one goroutine closes the pool after a PRNG-chosen number of yields.
// Windows a few instructions wide that have no hook point are only reachable by volume.
func c15PoolChurn(id string, rounds int, seed int64) core.Scenario {
	return core.Scenario{ID: id, Class: "WorkerPool.churn", Run: func(c *core.Ctx) {
		d := director.Get()
		d.Reset(seed)
		d.Yield(2, "pool.worker.checked", "pool.Schedule.checked", "pool.Schedule.offered", "pool.spawn.wake")
		rng := rand.New(rand.NewSource(seed))
		c.Eval(int64(rounds))
		c.Distinct(id)
		type jobPanic struct{ n int }
		for r := 0; r < rounds; r++ {
			users := 1 + rng.Intn(8)
			spin := rng.Intn(60)
			q := fpgo.NewBufferedChannelQueue[func()](1+rng.Intn(3), rng.Intn(4), 4)
			q.SetLoadFromPoolDuration(50 * time.Microsecond)
			var foreign atomic.Value
			p := worker.NewDefaultWorkerPool(q, nil).SetWorkerSizeMaximum(1 + rng.Intn(3)).SetWorkerSizeStandBy(rng.Intn(2)).SetWorkerBatchSize(1 + r%3).
				SetSpawnWorkerDuration(50 * time.Microsecond).SetWorkerExpiryDuration(time.Duration(200+rng.Intn(800)) * time.Microsecond).
				SetIsJobQueueClosedWhenClose(r%3 != 0).
				SetPanicHandler(func(v interface{}) {
					if _, own := v.(jobPanic); !own {
						foreign.CompareAndSwap(nil, fmt.Sprint(v))
					}
				})
			var stop atomic.Bool
			var wg sync.WaitGroup
			var mu sync.Mutex
			panics := map[string]bool{}
			for u := 0; u < users; u++ {
				wg.Add(1)
				go func(u int) {
					defer wg.Done()
					pv, where := core.Catch(func() {
						for i := 0; i < 400 && !stop.Load(); i++ {
							n := u*1000 + i
							job := func() {
								if n%7 == 3 {
									panic(jobPanic{n})
								}
							}
							if i%5 == 4 {
								p.ScheduleWithTimeout(job, 100*time.Microsecond)
							} else {
								p.Schedule(job)
							}
						}
					})
					if pv != nil {
						mu.Lock()
						panics[core.NormalizePanic(fmt.Sprint(pv))+"@"+where] = true
						mu.Unlock()
					}
				}(u)
			}
			for i := 0; i < spin; i++ {
				runtime.Gosched()
			}
			cp, cwhere := core.Catch(p.Close)
			stop.Store(true)
			joined := make(chan struct{})
			go func() { wg.Wait(); close(joined) }()
			v, dump := core.AwaitOrStuck(joined, 2*time.Second, 60*time.Second, d.Total)
			rep := map[string]any{"scenario": id, "round": r, "users": users}
			if cp != nil {
				c.Violationf("churn:close-panic:"+core.NormalizePanic(fmt.Sprint(cp)), rep, "WorkerPool.Close() racing %d scheduling goroutines panics: %v at %s", users, cp, cwhere)
			}
			for k := range panics {
				c.Violationf("churn:user-panic:"+k, rep, "Schedule / ScheduleWithTimeout racing Close panicked in the calling goroutine (round %d): %s", r, k)
			}
			if f := foreign.Load(); f != nil {
				c.Violationf("WorkerPool:panic-handler-invoked-for-non-job-panic:"+core.NormalizePanic(f.(string)), rep, "the pool's panic handler was invoked with %v, which is not a job's own panic", f)
			}
			if v == "stuck" {
				c.Violationf("churn:deadlock", map[string]any{"scenario": id, "goroutines": core.RepoGoroutineSummary(dump)}, "scheduling goroutines never returned after Close (round %d)", r)
				return
			}
			if !r3keep(r) {
				// the queue was kept open by this pool: close it ourselves (single close)
				core.Catch(q.Close)
			}
			if c.NumViolations() > 0 {
				return
			}
		}
		time.Sleep(20 * time.Millisecond) // a panic in a library-owned goroutine kills the process a little later
	}}
}

// many short-lived queues: every round 1..4 producers (Offer / Put, the channel is pre-filled so that the overflow path
// with its loader wake-up is taken) and 0..2 consumers use a fresh BufferedChannelQueue while one goroutine closes it
// after a PRNG-chosen number of yields. The window between an operation's unlock and its wake-up of the loader has no
// hook point: it is only reachable by volume.
func c15QueueChurn(id string, rounds int, seed int64) core.Scenario {
	return core.Scenario{ID: id, Class: "BufferedChannelQueue.churn", Run: func(c *core.Ctx) {
		d := director.Get()
		d.Reset(seed)
		d.Yield(2, "bcq.Offer.pooled", "bcq.Take.checked", "bcq.Poll.checked", "bcq.Poll.notified", "bcq.loader.checked", "bcq.Close.flagged", "bcq.Close.loadChClosed")
		rng := rand.New(rand.NewSource(seed))
		c.Eval(int64(rounds))
		c.Distinct(id)
		for r := 0; r < rounds; r++ {
			producers, consumers := 1+rng.Intn(4), rng.Intn(3)
			spin := rng.Intn(40)
			capy := 1 + rng.Intn(2)
			q := fpgo.NewBufferedChannelQueue[int](capy, 1+rng.Intn(6), 2)
			q.SetLoadFromPoolDuration(50 * time.Microsecond)
			for i := 0; i < capy; i++ {
				q.Offer(-1)
			}
			var wg sync.WaitGroup
			var mu sync.Mutex
			panics := map[string]bool{}
			note := func(pv any, where string) {
				if pv != nil {
					mu.Lock()
					panics[core.NormalizePanic(fmt.Sprint(pv))+"@"+where] = true
					mu.Unlock()
				}
			}
			start := make(chan struct{})
			for u := 0; u < producers; u++ {
				wg.Add(1)
				go func(u int) {
					defer wg.Done()
					<-start
					note(core.Catch(func() {
						for i := 0; i < 6; i++ {
							if (u+i)%3 == 0 {
								q.Put(u*10 + i)
							} else {
								q.Offer(u*10 + i)
							}
						}
					}))
				}(u)
			}
			for u := 0; u < consumers; u++ {
				wg.Add(1)
				go func(u int) {
					defer wg.Done()
					<-start
					note(core.Catch(func() {
						for i := 0; i < 4; i++ {
							switch (u + i) % 3 {
							case 0:
								q.Poll()
							case 1:
								q.TakeWithTimeout(50 * time.Microsecond)
							default:
								q.Count()
							}
						}
					}))
				}(u)
			}
			close(start)
			for i := 0; i < spin; i++ {
				runtime.Gosched()
			}
			cp, cwhere := core.Catch(q.Close)
			joined := make(chan struct{})
			go func() { wg.Wait(); close(joined) }()
			v, dump := core.AwaitOrStuck(joined, 2*time.Second, 60*time.Second, d.Total)
			rep := map[string]any{"scenario": id, "round": r, "producers": producers, "consumers": consumers}
			if cp != nil {
				c.Violationf("queue-churn:close-panic:"+core.NormalizePanic(fmt.Sprint(cp)), rep, "BufferedChannelQueue.Close() racing %d producers / %d consumers panics: %v at %s", producers, consumers, cp, cwhere)
			}
			for k := range panics {
				c.Violationf("queue-churn:user-panic:"+k, rep, "an operation racing Close panicked in the calling goroutine (round %d): %s", r, k)
			}
			if v == "stuck" {
				c.Violationf("queue-churn:deadlock", map[string]any{"scenario": id, "goroutines": core.RepoGoroutineSummary(dump)}, "users of the queue never returned after Close (round %d)", r)
				return
			} else if v != "done" {
				c.Inconclusive("watchdog in " + id)
				return
			}
			if err := q.Offer(1); err != fpgo.ErrQueueIsClosed {
				c.Violationf("after-close:Offer", rep, "Offer after Close returned %v (queue churn round %d)", err, r)
			}
			if c.NumViolations() > 0 {
				return
			}
		}
		time.Sleep(20 * time.Millisecond) // a panic in a library-owned goroutine kills the process a little later
	}}
}

func r3keep(r int) bool { return r%3 != 0 }

func c15Scenarios(c *core.Ctx, race bool) []core.Scenario {
	var out []core.Scenario
	for i := 0; i < c.Pick(14, 40); i++ {
		if race && i >= 2 {
			break
		}
		out = append(out, c15PoolChurn(fmt.Sprintf("pool-churn-%d-race%v", i, race), c.Pick(800, 2500), c.Seed*67+int64(i)))
	}
	for i := 0; i < c.Pick(10, 30); i++ {
		if race && i >= 2 {
			break
		}
		out = append(out, c15QueueChurn(fmt.Sprintf("queue-churn-%d-race%v", i, race), c.Pick(1500, 5000), c.Seed*71+int64(i)))
	}
	reps := c.Pick(1, 5)
	if race {
		reps = 1
	}
	for r := 0; r < reps; r++ {
		for _, group := range [][]core.Scenario{c15HandlerActor(), c15Queue(), c15Cor(), c15Pool()} {
			for _, s := range group {
				if r > 0 {
					s.ID = fmt.Sprintf("%s#%d", s.ID, r)
				}
				if race {
					s.ID += "-race"
				}
				out = append(out, s)
			}
		}
	}
	n := c.Pick(100, 2000)
	if race {
		n = c.Pick(40, 300)
	}
	for i := 0; i < n; i++ {
		comp := i % 5
		out = append(out, c15Stress(fmt.Sprintf("%s-stress-%d-race%v", [...]string{"handler", "actor", "bcq", "pool", "cor"}[comp], i, race), comp, c.Seed*59+int64(i)))
	}
	return out
}

func init() {
	core.Register(&core.Check{
		ID: "C15",
		Meta: func(c *core.Ctx) core.Meta {
			return core.Meta{
				Level: "fault_enumeration",
				Rule: "directed schedule enumeration, one scenario per child process: for every (component, operation, hook point after the operation's closed/done check) the user goroutine is parked at the point, Close() (or the coroutine's completion) runs to completion - or until it blocks on a lock the parked goroutine holds -, the user is released, both are awaited with the stuck detector, then post-close probes run. Handler {Post checked / blocked in send} and Actor {Send, Spawn} x channel capacity {0,2}; BufferedChannelQueue {Take, TakeWithTimeout, Poll (2 points), GetChannel, Offer (2 points), Put, Count} x {empty, pre-filled}, the loader and the node-pool goroutine parked at 6 points with a non-empty overflow, blocked consumers, Close() while 2-3 jobs are in progress for worker batch sizes 1..4 and both job-queue policies (panic handler silent), queue churn (thousands of short-lived queues: 1..4 producers on the overflow path and 0..2 consumers racing one Close each), three Offer / Put producers on a COMPLETELY full queue (5 capacity/buffer pairs, no consumer) with Close arriving at once or 3 ms later, everything-after-close; coroutines {caller past the done check, close parked after the flag / after the lock, YieldFrom after done, replies racing caller completion}; WorkerPool {Schedule checked/offered, worker at 4 points, idle workers, spawn loop, ScheduleWithTimeout on a full queue, after close} x isJobQueueClosedWhenClose {true,false}; " +
					"a panic in a calling goroutine is caught by recover, a panic in a library goroutine kills the child and is attributed by the parent, the pool's panic handler must stay silent; plus PRNG stress (1..8 users, close after 0..400 us, yields at the hook points) and a -race pass. distinct_nontrivial = distinct scenarios",
				Assumptions: []string{"an operation that raced the close may return a real item, empty/timeout/full or the closed error, but never an invented value",
					"unsynchronised reads of Handler/Actor isClosed are reported by the race detector as part of the same finding and do not decide separately",
					"windows without a hook point are only reached by the PRNG stress"},
				Exhaustive: false,
			}
		},
		Scenarios: c15Scenarios,
		Batch:     1, RaceToo: true, RaceBatch: 1, Par: 12, Timeout: 200e9, NoEarlyExit: true,
		RaceRelevant: func(s core.RaceSig) bool {
			// plain isClosed flags of Handler/Actor/(settings of the pool): see DESIGN.md section 4
			if strings.Contains(s.Text, "worker/pool.go") {
				return false
			}
			return !strings.Contains(s.Sig, "HandlerDef") && !strings.Contains(s.Sig, "ActorDef")
		},
	})
}
