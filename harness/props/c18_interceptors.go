package props

import (
	"errors"
	"fmt"
	"io"
	"math/rand"
	"net/http"
	"strings"
	"sync"

	"github.com/TeaEntityLab/fpGo/v2/network"

	"verifharness/internal/core"
)

// C18 — interceptors run once each, in registration order, before the transport; an error aborts.
// Oracle: one shared call log written by stub interceptors and stub transports; the model is the
// ordered registration list.

type c18World struct {
	mu       sync.Mutex
	log      []string          // "I<n>" / "T<name>"
	seenHdr  map[string]string // headers the transport saw
	reqInfo  []string          // method+URL the interceptors were called with
	failID   int               // interceptor id that must fail now (0 = none)
	failErr  error
	depth    int // nested entries of the chain (recursion guard)
	maxDepth int
	counter  int
}

type c18Transport struct {
	w    *c18World
	name string
}

func (t *c18Transport) RoundTrip(r *http.Request) (*http.Response, error) {
	t.w.mu.Lock()
	t.w.log = append(t.w.log, "T")
	t.w.seenHdr = map[string]string{}
	for k, v := range r.Header {
		if strings.HasPrefix(k, "X-I") {
			t.w.seenHdr[k] = strings.Join(v, ",")
		}
	}
	t.w.mu.Unlock()
	return &http.Response{StatusCode: 200, Status: "200 OK", Proto: "HTTP/1.1", ProtoMajor: 1, ProtoMinor: 1, Header: http.Header{}, Body: io.NopCloser(strings.NewReader(`{"V":1}`)), Request: r}, nil
}

func (w *c18World) interceptor(id int) *network.Interceptor {
	var f network.Interceptor = func(r *http.Request) error {
		w.mu.Lock()
		defer w.mu.Unlock()
		w.depth++
		if w.depth > w.maxDepth {
			w.maxDepth = w.depth
		}
		if len(w.log) > 64 {
			// hard cap: a chain that recurses must not overflow the stack before the oracle sees it
			return errors.New("stub: chain re-entered too often")
		}
		w.log = append(w.log, fmt.Sprintf("I%d", id))
		w.reqInfo = append(w.reqInfo, r.Method+" "+r.URL.String())
		w.counter++
		r.Header.Add(fmt.Sprintf("X-I%d", id), fmt.Sprint(w.counter))
		if w.failID == id {
			w.failID = 0 // fail at the first occurrence only
			return w.failErr
		}
		return nil
	}
	return &f
}

type c18Op struct {
	kind string // Add, Remove, Clear, SetClient, Req, Second
	ids  []int  // interceptor ids for Add/Remove
	arg  int    // client variant / verb / how the second instance is created
	inst int    // 0 = the first SimpleHTTP, 1 = the second one (created by a "Second" op; ignored before that)
}

func (o c18Op) String() string {
	switch o.kind {
	case "Add", "Remove":
		return fmt.Sprintf("%s%v", o.kind, o.ids)
	case "SetClient":
		return "SetHTTPClient(" + [...]string{"same", "fresh-nil-transport", "fresh-custom-transport", "first-client-again", "client-whose-transport-is-this-SimpleHTTP", "the client it already holds, after the caller replaced its Transport", "the client it already holds, after the caller set its Transport to nil"}[o.arg] + ")"
	case "Req":
		if o.inst == 1 {
			return "Request(" + c18Verbs[o.arg] + " through the second SimpleHTTP)"
		}
		return "Request(" + c18Verbs[o.arg] + ")"
	case "Second":
		return "second SimpleHTTP on " + [...]string{"the SAME http.Client", "its own http.Client"}[o.arg] + " (constructor given the same spare-capacity interceptor slice)"
	}
	if o.inst == 1 && (o.kind == "Add" || o.kind == "Remove") {
		return fmt.Sprintf("%s%v on the second SimpleHTTP", o.kind, o.ids)
	}
	return o.kind
}

var c18Verbs = []string{"GET", "HEAD", "OPTIONS", "DELETE", "POST", "PUT", "PATCH", "SimpleAPI-GET", "SimpleAPI-POST"}

type c18Target struct{ V int }

// c18Run executes one history and checks every request in it.
func c18Run(c *core.Ctx, hist []c18Op, failPlan map[int]int) {
	w := &c18World{failErr: errors.New("stub: interceptor failed")}
	tA, tB := &c18Transport{w, "A"}, &c18Transport{w, "B"}
	oldDefault := http.DefaultTransport
	http.DefaultTransport = &c18Transport{w, "default"}
	defer func() { http.DefaultTransport = oldDefault }()
	icp := map[int]*network.Interceptor{}
	for id := 1; id <= 6; id++ {
		icp[id] = w.interceptor(id)
	}
	c1 := &http.Client{Transport: tA}
	// the constructor is handed a caller-owned slice with spare capacity (a second instance may be built from the same one)
	base := make([]*network.Interceptor, 0, 8)
	shs := []*network.SimpleHTTPDef{network.NewSimpleHTTPWithClientAndInterceptors(c1, base...), nil}
	apis := []*network.SimpleAPIDef{network.NewSimpleAPIWithSimpleHTTP("http://example.test", shs[0]), nil}
	models := [][]int{nil, nil}
	sh, api := shs[0], apis[0]
	var model []int
	describe := func(upto int) string {
		var p []string
		for _, o := range hist[:upto+1] {
			p = append(p, o.String())
		}
		return strings.Join(p, "; ")
	}
	viol := func(key string, i int, format string, args ...any) {
		c.Violationf(key, map[string]any{"history": describe(i), "fail_plan": fmt.Sprint(failPlan)}, "history [%s]: %s", describe(i), fmt.Sprintf(format, args...))
	}
	for i, op := range hist {
		pv, where := core.Catch(func() {
			cur := 0
			if op.inst == 1 && shs[1] != nil {
				cur = 1
			}
			if op.inst == 1 && shs[1] == nil && (op.kind == "Add" || op.kind == "Remove") {
				return // interceptors 4..6 belong to the second instance, which does not exist yet
			}
			sh, api, model = shs[cur], apis[cur], models[cur]
			defer func() { models[cur] = model }()
			switch op.kind {
			case "Second":
				if shs[1] != nil {
					return
				}
				cl := c1
				if op.arg == 1 {
					cl = &http.Client{Transport: tB}
				}
				shs[1] = network.NewSimpleHTTPWithClientAndInterceptors(cl, base...)
				apis[1] = network.NewSimpleAPIWithSimpleHTTP("http://example.test", shs[1])
				return
			case "Add":
				var ps []*network.Interceptor
				for _, id := range op.ids {
					ps = append(ps, icp[id])
					model = append(model, id)
				}
				sh.AddInterceptor(ps...)
			case "Remove":
				var ps []*network.Interceptor
				for _, id := range op.ids {
					ps = append(ps, icp[id])
					var nm []int
					for _, m := range model {
						if m != id {
							nm = append(nm, m)
						}
					}
					model = nm
				}
				sh.RemoveInterceptor(ps...)
			case "Clear":
				sh.ClearInterceptor()
				model = nil
			case "SetClient":
				switch op.arg {
				case 0:
					sh.SetHTTPClient(sh.GetHTTPClient())
				case 1:
					sh.SetHTTPClient(&http.Client{})
				case 2:
					sh.SetHTTPClient(&http.Client{Transport: tB})
				case 3:
					sh.SetHTTPClient(c1)
				case 5, 6:
					// (skipped while the other instance lives on the same http.Client: overwriting the Transport of a shared
					// client evicts that instance by the caller's own hand, its requests are then outside the statement)
					if shs[1] != nil && shs[1-cur].GetHTTPClient() == sh.GetHTTPClient() {
						return
					}
					cl := sh.GetHTTPClient()
					if op.arg == 6 {
						cl.Transport = nil
						sh.SetHTTPClient(cl)
						return
					}
					cl.Transport = tB
					sh.SetHTTPClient(cl)
				default:
					sh.SetHTTPClient(&http.Client{Transport: sh})
				}
			case "Req":
				w.mu.Lock()
				w.log, w.seenHdr, w.reqInfo, w.depth, w.maxDepth = nil, nil, nil, 0, 0
				w.failID = failPlan[i]
				failing := w.failID
				w.mu.Unlock()
				var err error
				wantMethod := c18Verbs[op.arg]
				url := fmt.Sprintf("http://example.test/r%d", i)
				switch op.arg {
				case 0:
					err = sh.Get(url).Err
				case 1:
					err = sh.Head(url).Err
				case 2:
					err = sh.Options(url).Err
				case 3:
					err = sh.Delete(url).Err
				case 4:
					err = sh.Post(url, "text/plain", strings.NewReader("b")).Err
				case 5:
					err = sh.Put(url, "text/plain", strings.NewReader("b")).Err
				case 6:
					err = sh.Patch(url, "text/plain", strings.NewReader("b")).Err
				case 7:
					wantMethod = "GET"
					url = fmt.Sprintf("http://example.test/r%d", i)
					err = network.APIMakeGet[c18Target](api, fmt.Sprintf("r%d", i))(nil, &c18Target{}).Eval().Err
				default:
					wantMethod = "POST"
					body := map[string]int{"a": 1}
					err = network.APIMakePostJSONBody[map[string]int, c18Target](api, fmt.Sprintf("r%d", i))(nil, body, &c18Target{}).Eval().Err
				}
				w.mu.Lock()
				log := append([]string(nil), w.log...)
				seen := w.seenHdr
				info := append([]string(nil), w.reqInfo...)
				w.failID = 0
				w.mu.Unlock()
				c.Eval(1)
				c.Count("requests", 1)
				c.CountMax("max.interceptors_on_a_request", int64(len(model)))
				// expected: the interceptors of the instance the request went through, each exactly once, in
				// registration order, then exactly one transport call. When two instances are chained on one client the
				// other instance's interceptors run as part of the chain too (each at most once, in their order); the
				// designated failing interceptor (wherever it is registered) cuts the chain at its first occurrence.
				mineSet, otherSet := map[string]bool{}, map[string]bool{}
				var mineWant, otherWant []string
				for _, id := range model {
					mineSet[fmt.Sprintf("I%d", id)] = true
					mineWant = append(mineWant, fmt.Sprintf("I%d", id))
				}
				if shs[1] != nil {
					for _, id := range models[1-cur] {
						otherSet[fmt.Sprintf("I%d", id)] = true
						otherWant = append(otherWant, fmt.Sprintf("I%d", id))
					}
				}
				failName := fmt.Sprintf("I%d", failing)
				fired := false
				firedAt := -1
				var mineGot, otherGot []string
				transports := 0
				for k, l := range log {
					switch {
					case l == "T":
						transports++
						if k != len(log)-1 {
							viol("chain:transport-not-last", i, "call log %v: the transport was not the last call", log)
						}
					case mineSet[l]:
						mineGot = append(mineGot, l)
					case otherSet[l]:
						otherGot = append(otherGot, l)
					default:
						viol("chain:unregistered-interceptor-ran", i, "call log %v contains %s which is registered on neither instance (registered %v)", log, l, model)
					}
					if failing != 0 && l == failName && !fired {
						fired, firedAt = true, k
					}
				}
				isPrefix := func(got, want []string) bool {
					if len(got) > len(want) {
						return false
					}
					for k := range got {
						if got[k] != want[k] {
							return false
						}
					}
					return true
				}
				if fired {
					c.Count("requests.with_failing_interceptor", 1)
					if firedAt != len(log)-1 {
						viol("chain:continued-after-error", i, "call log %v: calls continued after interceptor %d returned an error", log, failing)
					}
					if transports != 0 {
						viol("chain:transport-after-error", i, "call log %v: the transport was called although interceptor %d failed", log, failing)
					}
					if !isPrefix(mineGot, mineWant) || !isPrefix(otherGot, otherWant) {
						viol("chain:wrong-calls", i, "call log %v (registered %v, other instance %v, failing interceptor %d)", log, mineWant, otherWant, failing)
					}
					if err == nil || !strings.Contains(err.Error(), "stub: interceptor failed") {
						viol("error:not-surfaced", i, "interceptor %d failed but the caller got err=%v", failing, err)
					}
				} else {
					if strings.Join(mineGot, " ") != strings.Join(mineWant, " ") {
						key := "chain:wrong-calls"
						if len(mineGot) > len(mineWant) {
							key = "chain:ran-more-than-once"
						}
						viol(key, i, "call log %v: the interceptors of this SimpleHTTP ran as %v, registered %v", log, mineGot, mineWant)
					}
					if len(otherGot) != 0 && strings.Join(otherGot, " ") != strings.Join(otherWant, " ") {
						viol("chain:other-instance-interceptors", i, "call log %v: interceptors of the other SimpleHTTP ran as %v (its registration list is %v)", log, otherGot, otherWant)
					}
					if transports != 1 {
						viol("chain:transport-calls", i, "call log %v: the transport was called %d times", log, transports)
					}
					if err != nil {
						viol("error:unexpected", i, "no interceptor failed but the caller got err=%v", err)
					}
					// header changes of every interceptor of this instance reached the transport
					for _, id := range model {
						if _, ok := seen[fmt.Sprintf("X-I%d", id)]; !ok && transports == 1 {
							viol("header:not-reaching-transport", i, "the transport did not see X-I%d (saw %v)", id, seen)
							break
						}
					}
				}
				for _, inf := range info {
					if inf != wantMethod+" "+url {
						viol("interceptor:other-request", i, "an interceptor was invoked with %q, the outgoing request is %s %s", inf, wantMethod, url)
						break
					}
				}
			}
		})
		if pv != nil {
			viol("panic:"+op.kind+":"+core.NormalizePanic(fmt.Sprint(pv)), i, "%s panics: %v at %s", op, pv, where)
			return
		}
	}
}

func c18Alphabet() []c18Op {
	return []c18Op{
		{kind: "Add", ids: []int{1}}, {kind: "Add", ids: []int{2}}, {kind: "Add", ids: []int{1, 2, 1}}, {kind: "Add", ids: []int{3}},
		{kind: "Remove", ids: []int{1}}, {kind: "Remove", ids: []int{2}}, {kind: "Clear"},
		{kind: "SetClient", arg: 0}, {kind: "SetClient", arg: 1}, {kind: "SetClient", arg: 2}, {kind: "SetClient", arg: 3}, {kind: "SetClient", arg: 4}, {kind: "SetClient", arg: 5}, {kind: "SetClient", arg: 6},
		{kind: "Req", arg: 0}, {kind: "Req", arg: 4}, {kind: "Req", arg: 7},
		{kind: "Second", arg: 0}, {kind: "Second", arg: 1}, {kind: "Add", ids: []int{4}, inst: 1}, {kind: "Add", ids: []int{5, 4}, inst: 1},
		{kind: "Remove", ids: []int{4}, inst: 1}, {kind: "Req", arg: 0, inst: 1}, {kind: "Req", arg: 8, inst: 1},
	}
}

func c18Scenarios(c *core.Ctx, race bool) []core.Scenario {
	alpha := c18Alphabet()
	depth := c.Pick(4, 5)
	var out []core.Scenario
	out = append(out, c18DefaultTransport("simplehttp-as-default-transport"))
	// exhaustive histories, grouped by their first letter(s) into scenarios
	groups := len(alpha)
	for g := 0; g < groups; g++ {
		g := g
		out = append(out, core.Scenario{ID: fmt.Sprintf("exhaustive-first-%d", g), Class: "interceptor-chain", Run: func(c *core.Ctx) {
			n := 0
			var rec func(prefix []int)
			rec = func(prefix []int) {
				if len(prefix) >= 1 {
					// the history, followed by one probe request per verb group and one failing probe
					hist := make([]c18Op, 0, len(prefix)+4)
					for _, p := range prefix {
						hist = append(hist, alpha[p])
					}
					last := len(hist)
					hist = append(hist, c18Op{kind: "Req", arg: (n) % len(c18Verbs)}, c18Op{kind: "Req", arg: (n + 3) % len(c18Verbs)}, c18Op{kind: "Req", arg: (n + 5) % len(c18Verbs)},
						c18Op{kind: "Req", arg: (n + 1) % len(c18Verbs), inst: 1})
					// fail plan: the second probe fails at interceptor 1 or 2 (if registered, the oracle knows)
					c18Run(c, hist, map[int]int{last + 1: 1 + n%2})
					c.DistinctAdd(1)
					n++
				}
				if len(prefix) == depth {
					return
				}
				for k := range alpha {
					rec(append(append([]int(nil), prefix...), k))
				}
			}
			rec([]int{g})
			c.Count("histories.exhaustive", int64(n))
			if g == 2 {
				c.Sample(map[string]any{"history": "Add[1 2 1]; Remove[1]; SetHTTPClient(fresh-nil-transport); Request(GET); Request(DELETE) with interceptor 2 failing; Request(PUT)"})
			}
		}})
	}
	for i := 0; i < c.Pick(6, 30); i++ {
		out = append(out, c18Concurrent(fmt.Sprintf("concurrent-%d", i), []int{2, 4, 8, 16}[i%4], 12, c.Seed+int64(i)))
	}
	// long histories on one instance, with redirects and many refused requests
	for i := 0; i < c.Pick(6, 40); i++ {
		out = append(out, c18LongHistory(fmt.Sprintf("long-%d", i), c.Pick(600, 3000), c.Seed*131+int64(i)))
	}
	// PRNG histories of length 12 with 0..6 interceptors and every failing position
	nr := c.Pick(5000, 100000)
	per := 250
	for b := 0; b*per < nr; b++ {
		b := b
		out = append(out, core.Scenario{ID: fmt.Sprintf("random-%d", b), Class: "interceptor-chain", Run: func(c *core.Ctx) {
			rng := rand.New(rand.NewSource(c.Seed*100003 + int64(b)))
			for k := 0; k < per; k++ {
				var hist []c18Op
				plan := map[int]int{}
				// start with 0..6 interceptors (duplicates allowed)
				var ids []int
				for j := 0; j < rng.Intn(7); j++ {
					ids = append(ids, 1+rng.Intn(3)) // the first instance uses interceptors 1..3, the second one 4..6
				}
				if len(ids) > 0 {
					hist = append(hist, c18Op{kind: "Add", ids: ids})
				}
				for len(hist) < 12 {
					switch r := rng.Intn(10); {
					case r < 2:
						hist = append(hist, c18Op{kind: "Add", ids: []int{1 + rng.Intn(3)}})
					case r < 3:
						hist = append(hist, c18Op{kind: "Remove", ids: []int{1 + rng.Intn(3)}})
					case r == 3 && rng.Intn(3) == 0:
						hist = append(hist, c18Op{kind: "Clear"})
					case r < 5:
						hist = append(hist, c18Op{kind: "SetClient", arg: rng.Intn(5)})
					case r < 6:
						switch rng.Intn(3) {
						case 0:
							hist = append(hist, c18Op{kind: "Second", arg: rng.Intn(2)})
						case 1:
							hist = append(hist, c18Op{kind: "Add", ids: []int{4 + rng.Intn(3)}, inst: 1})
						default:
							hist = append(hist, c18Op{kind: "Remove", ids: []int{4 + rng.Intn(3)}, inst: 1})
						}
					default:
						if rng.Intn(2) == 0 {
							plan[len(hist)] = 1 + rng.Intn(6)
						}
						hist = append(hist, c18Op{kind: "Req", arg: rng.Intn(len(c18Verbs)), inst: rng.Intn(2)})
					}
				}
				c18Run(c, hist, plan)
				c.Distinct(fmt.Sprintf("rnd-%d-%d", b, k))
				if b == 0 && k < 2 {
					var p []string
					for _, o := range hist {
						p = append(p, o.String())
					}
					c.Sample(map[string]any{"history": strings.Join(p, "; "), "failing": fmt.Sprint(plan)})
				}
			}
			c.Count("histories.random", int64(per))
		}})
	}
	return out
}

func init() {
	core.Register(&core.Check{
		ID: "C18",
		Meta: func(c *core.Ctx) core.Meta {
			return core.Meta{
				Level: "fault_enumeration",
				Rule: "histories over {AddInterceptor (single, duplicates), RemoveInterceptor, ClearInterceptor, SetHTTPClient (same client, fresh client with nil transport, fresh client with custom transport, first client again, client whose transport is this SimpleHTTP, the client it already holds after the caller replaced its Transport by another one or by nil), request (7 direct verbs + SimpleAPI GET/POST)}: every history of length <= D over a 24-letter alphabet (D=4 quick, 5 thorough; the alphabet includes a second SimpleHTTP instance on the same or its own http.Client, built from the same spare-capacity interceptor slice, with its own Add/Remove/requests) each followed by three probe requests one of which has a failing interceptor, plus PRNG histories of length 12 with 0..6 interceptors and a failing interceptor at every position, plus 2..16 goroutines sending through one instance at the same time (every request its own complete pass), plus long histories of 600 (3000) requests on ONE instance whose transport also answers 301/302/303/307/308 (every outgoing request of a redirected call is checked) and where about 40% of the requests are refused by an interceptor at the first or second outgoing request. " +
					"(round 7) a SimpleHTTP installed as http.DefaultTransport combined with SetHTTPClient of default clients (Transport nil), requests through its own client and through plain http.Client{}; " +
					"One shared call log written by stub interceptors and stub transports is compared per request with the model registration list: each interceptor once, in order, then exactly one transport call; after a failing interceptor nothing else runs and the error is surfaced; interceptors' header changes reach the transport. Runs in child processes (a recursing chain is a fatal stack overflow). distinct_nontrivial = distinct histories",
				Assumptions: []string{"RemoveInterceptor removes every occurrence of the named pointer", "which underlying transport a re-set client ends up with is not part of the property; exactly one transport call is",
					"http.DefaultTransport is replaced by a stub for the run (a client with a nil transport must not reach the network)"},
				Exhaustive: true,
			}
		},
		Scenarios: c18Scenarios,
		Batch:     4, Par: 16, Timeout: 300e9,
	})
}
