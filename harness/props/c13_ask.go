package props

import (
	"fmt"
	"math/rand"
	"runtime"
	"strings"
	"sync"
	"sync/atomic"
	"time"

	fpgo "github.com/TeaEntityLab/fpGo/v2"

	"verifharness/internal/core"
	"verifharness/internal/director"
)

// C13 — Ask/Reply: every asker gets its own answer; timeouts are clean.

type c13Payload struct {
	Asker, Seq int
	Kind       int
	Text       string
}

type c13Answer struct {
	Asker, Seq int
	Echo       string
	Nonce      int64
}

func c13Expected(p c13Payload, nonce int64) c13Answer {
	return c13Answer{Asker: p.Asker, Seq: p.Seq, Echo: fmt.Sprintf("%d/%s", p.Kind, p.Text), Nonce: nonce}
}

type c13Ask = fpgo.AskDef[c13Payload, c13Answer]

// correlation under load: the actor hands asks to helper goroutines that reply in shuffled order
func c13Correlation(id string, askers, asksEach int, mode int, seed int64) core.Scenario {
	return core.Scenario{ID: id, Class: "Ask.correlation", Run: func(c *core.Ctx) {
		d := director.Get()
		d.Reset(seed)
		rep := map[string]any{"scenario": id, "askers": askers, "asks_each": asksEach, "reply_mode": [...]string{"inline", "helper goroutines, shuffled", "batched and reversed"}[mode]}
		c.Eval(int64(askers * asksEach))
		c.Distinct(id)
		var batchMu sync.Mutex
		var batch []*c13Ask
		var replyPanics atomic.Int32
		reply := func(a *c13Ask) {
			defer func() {
				if r := recover(); r != nil {
					replyPanics.Add(1)
				}
			}()
			a.Reply(c13Expected(a.Message, int64(a.Message.Asker)*1000003+int64(a.Message.Seq)))
		}
		actor := fpgo.Actor.New(func(self *fpgo.ActorDef[interface{}], m interface{}) {
			a, ok := m.(*c13Ask)
			if !ok {
				return
			}
			switch mode {
			case 0:
				reply(a)
			case 1:
				go func() {
					for i := 0; i < (a.Message.Seq*7+a.Message.Asker)%5; i++ {
						runtime.Gosched()
					}
					reply(a)
				}()
			default:
				batchMu.Lock()
				batch = append(batch, a)
				var flush []*c13Ask
				if len(batch) >= askers || len(batch) >= 3 {
					flush, batch = batch, nil
				}
				batchMu.Unlock()
				for i := len(flush) - 1; i >= 0; i-- {
					go reply(flush[i])
				}
			}
		})
		var wg sync.WaitGroup
		var wrong, timeouts atomic.Int32
		var firstWrong atomic.Value
		for ai := 0; ai < askers; ai++ {
			wg.Add(1)
			go func(ai int) {
				defer wg.Done()
				rng := rand.New(rand.NewSource(seed*41 + int64(ai)))
				for k := 0; k < asksEach; k++ {
					p := c13Payload{Asker: ai, Seq: k, Kind: rng.Intn(4), Text: fmt.Sprint(rng.Intn(1000))}
					want := c13Expected(p, int64(ai)*1000003+int64(k))
					var got c13Answer
					var err error
					ask := fpgo.AskNewGenerics[c13Payload, c13Answer](p)
					switch (ai + k) % 3 {
					case 0:
						got = ask.AskOnce(actor)
					case 1:
						got, err = ask.AskOnceWithTimeout(actor, 60*time.Second)
					default:
						got = <-ask.AskChannel(actor)
					}
					if err != nil {
						timeouts.Add(1)
					} else if got != want {
						wrong.Add(1)
						firstWrong.CompareAndSwap(nil, fmt.Sprintf("asker %d request %d received %+v, want %+v", ai, k, got, want))
					}
				}
			}(ai)
		}
		joined := make(chan struct{})
		go func() {
			wg.Wait()
			// mode 2 may hold a last partial batch: flush it
			close(joined)
		}()
		// flush helper for the batched mode (a partial batch would otherwise wait for more asks)
		stopFlush := make(chan struct{})
		if mode == 2 {
			go func() {
				for {
					select {
					case <-stopFlush:
						return
					case <-time.After(200 * time.Microsecond):
						batchMu.Lock()
						flush := batch
						batch = nil
						batchMu.Unlock()
						for i := len(flush) - 1; i >= 0; i-- {
							go reply(flush[i])
						}
					}
				}
			}()
		}
		v, dump := core.AwaitOrStuck(joined, 3*time.Second, 120*time.Second, func() int64 { return d.Total() })
		close(stopFlush)
		if v == "stuck" {
			c.Violationf("correlation:stuck", map[string]any{"scenario": id, "goroutines": core.RepoGoroutineSummary(dump)}, "askers never received their answers")
			return
		}
		if v != "done" {
			c.Inconclusive("watchdog in " + id)
			return
		}
		if n := wrong.Load(); n > 0 {
			c.Violationf("correlation:wrong-answer", rep, "%d askers received an answer that belongs to another request; first: %v", n, firstWrong.Load())
		}
		if n := timeouts.Load(); n > 0 {
			c.Violationf("correlation:timeout-although-answered", rep, "%d asks with a 60 s timeout reported ErrActorAskTimeout although the actor replies immediately", n)
		}
		if n := replyPanics.Load(); n > 0 {
			c.Violationf("correlation:reply-panicked", rep, "%d Reply calls panicked although nobody timed out", n)
		}
		actor.Close()
		if c.WantSample() {
			c.Sample(rep)
		}
	}}
}

// timeout classes, made logical rather than timed
func c13Timeout(id string, class int, payloadKind int, seed int64) core.Scenario {
	return core.Scenario{ID: id, Class: "Ask.timeout", Run: func(c *core.Ctx) {
		d := director.Get()
		d.Reset(seed)
		rep := map[string]any{"scenario": id, "class": [...]string{"reply in time", "never replied", "reply after the timeout was reported", "reply racing the timeout"}[class]}
		c.Eval(1)
		c.Distinct(id)
		goAhead := make(chan struct{})
		replied := make(chan string, 4)
		var payload interface{}
		switch payloadKind {
		case 0:
			payload = 7
		case 1:
			payload = "text"
		case 2:
			payload = c13Payload{Asker: 1}
		default:
			payload = nil
		}
		type lateAsk = fpgo.AskDef[interface{}, string]
		actor := fpgo.Actor.New(func(self *fpgo.ActorDef[interface{}], m interface{}) {
			a, ok := m.(*lateAsk)
			if !ok {
				return
			}
			switch class {
			case 0:
				a.Reply(fmt.Sprintf("re:%v", a.Message))
			case 1:
				// never reply
			case 2, 3:
				if s, isStr := a.Message.(string); isStr && s == "probe" {
					a.Reply("alive")
					return
				}
				if class == 2 {
					<-goAhead // signalled only after AskOnceWithTimeout has RETURNED the timeout
				} else {
					for i := 0; i < int(seed%6); i++ {
						runtime.Gosched()
					}
					time.Sleep(time.Duration(seed%5) * 100 * time.Microsecond)
				}
				done := make(chan string, 1)
				go func() {
					defer func() {
						if r := recover(); r != nil {
							done <- "panic: " + fmt.Sprint(r)
						}
					}()
					a.Reply("late")
					done <- "returned"
				}()
				select {
				case r := <-done:
					replied <- r
				case <-time.After(10 * time.Second):
					replied <- "blocked"
				}
			}
		})
		// the ask is built by every constructor: the library's own reply channel, or a caller supplied unbuffered /
		// buffered one (NewByOptions)
		var ask *lateAsk
		switch ctor := int(seed/4) % 4; ctor {
		case 0:
			ask = fpgo.AskNewGenerics[interface{}, string](payload)
		case 1:
			ask = fpgo.AskNewByOptionsGenerics[interface{}, string](payload, make(chan string))
		case 2:
			ask = fpgo.AskNewByOptionsGenerics[interface{}, string](payload, make(chan string, 1))
		default:
			var proto lateAsk
			ask = proto.NewByOptions(payload, make(chan string))
		}
		rep["constructor"] = [...]string{"AskNewGenerics", "AskNewByOptionsGenerics(unbuffered)", "AskNewByOptionsGenerics(buffered 1)", "NewByOptions(unbuffered)"}[int(seed/4)%4]
		var gate *director.Gate
		if class == 3 && seed%2 == 0 {
			// park the asker between the timer firing and the channel being closed; the reply lands in between
			gate = d.Park("ask.timeout.fired", 1)
			go func() {
				if gate.WaitArrived(2 * time.Second) {
					c.Count("directed.parks_reached", 1)
					time.Sleep(500 * time.Microsecond)
				}
				gate.Release()
			}()
		}
		timeout := 5 * time.Millisecond
		if class == 0 {
			timeout = 60 * time.Second
		}
		if class == 1 || class == 2 {
			// also the boundary values: a used-up budget (0, negative) times out at once
			timeout = []time.Duration{5 * time.Millisecond, 0, -time.Nanosecond, -time.Hour, time.Nanosecond, 300 * time.Microsecond}[int(seed%6+6)%6]
			rep["timeout"] = timeout.String()
		}
		if class == 3 {
			timeout = time.Duration(200+seed%400) * time.Microsecond
		}
		var res string
		var err error
		returned := make(chan struct{})
		go func() { defer close(returned); res, err = ask.AskOnceWithTimeout(actor, timeout) }()
		if v, dump := core.AwaitOrStuck(returned, 2*time.Second, 90*time.Second, func() int64 { return 0 }); v == "stuck" {
			c.Violationf("timeout:asker-never-returns", map[string]any{"scenario": id, "class": rep["class"], "timeout": timeout.String(), "goroutines": core.RepoGoroutineSummary(dump)},
				"AskOnceWithTimeout(actor, %v) never returned although no reply is coming (%s); nothing can make progress", timeout, rep["class"])
			if class == 2 {
				close(goAhead)
			}
			return
		} else if v != "done" {
			c.Inconclusive("watchdog in " + id)
			return
		}
		switch class {
		case 0:
			if err != nil || res != fmt.Sprintf("re:%v", payload) {
				c.Violationf("timeout:in-time-reply-lost", rep, "the actor replied immediately but AskOnceWithTimeout(60s) returned (%q, %v)", res, err)
			}
		case 1, 2:
			if err != fpgo.ErrActorAskTimeout || res != "" {
				c.Violationf("timeout:no-timeout-error", rep, "no reply was sent but AskOnceWithTimeout returned (%q, %v), want (zero, ErrActorAskTimeout)", res, err)
			}
		case 3:
			if !((err == fpgo.ErrActorAskTimeout && res == "") || (err == nil && res == "late")) {
				c.Violationf("timeout:racing-result", rep, "racing reply: AskOnceWithTimeout returned (%q, %v), want either the reply or (zero, timeout)", res, err)
			}
		}
		if class == 2 || class == 3 {
			if class == 2 {
				// the reply may come long after the timeout was reported (an implementation that only waits a grace
				// period for late replies is not enough): 0, 1.3 s or 2.6 s later
				late := []time.Duration{0, 0, 0, 1300 * time.Millisecond, 2600 * time.Millisecond}[int(seed%5+5)%5]
				rep["reply_this_long_after_the_timeout"] = late.String()
				time.Sleep(late)
				close(goAhead)
			}
			select {
			case r := <-replied:
				c.Count("late_replies."+strings.SplitN(r, ":", 2)[0], 1)
				if strings.HasPrefix(r, "panic") {
					c.Violationf("late-reply:panics", rep, "a Reply produced after the timeout panicked inside the actor's effect: %s", r)
				} else if r == "blocked" {
					if quiet, _ := core.QuietNow(); quiet {
						c.Violationf("late-reply:blocks", rep, "a Reply produced after the timeout blocks the actor forever")
					} else {
						c.Inconclusive("late Reply still in progress after 10 s in " + id)
					}
					return // (the actor is stuck in Reply: a liveness probe would only wait for the watchdog)
				}
			case <-time.After(30 * time.Second):
				c.Inconclusive("the actor never reported the outcome of its late Reply in " + id)
				return
			}
			// the actor keeps serving later requests
			probe := fpgo.AskNewGenerics[interface{}, string]("probe")
			r, err := probe.AskOnceWithTimeout(actor, 60*time.Second)
			if err != nil || r != "alive" {
				c.Violationf("late-reply:actor-disturbed", rep, "after a late reply a fresh AskOnceWithTimeout(60s) returned (%q, %v)", r, err)
			}
		}
		actor.Close()
		if c.WantSample() {
			c.Sample(rep)
		}
	}}
}

// the request is still queued behind a busy actor when the asker's timeout could expire; the actor answers it later
func c13BusyActor(id string, capacity int, seed int64) core.Scenario {
	return core.Scenario{ID: id, Class: "Ask.timeout", Run: func(c *core.Ctx) {
		rep := map[string]any{"scenario": id, "class": "request queued behind a busy actor", "mailbox_capacity": capacity}
		c.Eval(1)
		c.Distinct(id)
		type qAsk = fpgo.AskDef[interface{}, string]
		gate := make(chan struct{})
		busy := make(chan struct{}, 1)
		replied := make(chan string, 8)
		eff := func(self *fpgo.ActorDef[interface{}], m interface{}) {
			switch x := m.(type) {
			case string:
				if x == "block" {
					busy <- struct{}{}
					<-gate
				}
			case *qAsk:
				if s, _ := x.Message.(string); s == "probe" {
					x.Reply("alive")
					return
				}
				done := make(chan string, 1)
				go func() {
					defer func() {
						if r := recover(); r != nil {
							done <- "panic: " + fmt.Sprint(r)
						}
					}()
					x.Reply("answer")
					done <- "returned"
				}()
				select {
				case r := <-done:
					replied <- r
				case <-time.After(10 * time.Second):
					replied <- "blocked"
				}
			}
		}
		var actor *fpgo.ActorDef[interface{}]
		if capacity == 0 {
			actor = fpgo.Actor.New(eff)
		} else {
			actor = fpgo.Actor.NewByOptions(eff, make(chan interface{}, capacity), map[string]interface{}{})
		}
		actor.Send("block")
		<-busy
		type res struct {
			v   string
			err error
		}
		out := make(chan res, 1)
		go func() {
			v, err := fpgo.AskNewGenerics[interface{}, string]("q").AskOnceWithTimeout(actor, 3*time.Millisecond)
			out <- res{v, err}
		}()
		time.Sleep(time.Duration(8+seed%5) * time.Millisecond) // well beyond the asker's timeout
		close(gate)
		var r res
		select {
		case r = <-out:
		case <-time.After(30 * time.Second):
			if quiet, _ := core.QuietNow(); quiet {
				c.Violationf("busy-actor:asker-stuck", rep, "AskOnceWithTimeout(3ms) towards a busy actor never returned")
			} else {
				c.Inconclusive("busy-actor asker still in progress after 30 s")
			}
			return
		}
		if !((r.err == nil && r.v == "answer") || (r.err == fpgo.ErrActorAskTimeout && r.v == "")) {
			c.Violationf("busy-actor:result", rep, "AskOnceWithTimeout returned (%q, %v)", r.v, r.err)
		}
		select {
		case rr := <-replied:
			c.Count("busy_actor_replies."+strings.SplitN(rr, ":", 2)[0], 1)
			if strings.HasPrefix(rr, "panic") {
				c.Violationf("late-reply:panics", rep, "the reply to a request that had been queued behind a busy actor panicked: %s", rr)
			} else if rr == "blocked" {
				if quiet, _ := core.QuietNow(); quiet {
					c.Violationf("late-reply:blocks", rep, "the reply to a request whose asker timed out while it was queued behind a busy actor blocks the actor forever (asker saw (%q, %v))", r.v, r.err)
				} else {
					c.Inconclusive("reply to a stale request still in progress after 10 s in " + id)
				}
				return
			}
		case <-time.After(30 * time.Second):
			c.Inconclusive("no reply outcome in " + id)
			return
		}
		pr, err := fpgo.AskNewGenerics[interface{}, string]("probe").AskOnceWithTimeout(actor, 60*time.Second)
		if err != nil || pr != "alive" {
			c.Violationf("late-reply:actor-disturbed", rep, "after answering a stale request the actor does not serve a fresh ask: (%q, %v)", pr, err)
		}
		actor.Close()
	}}
}

// multi-step history in one process: asks whose reply lands within a hair of their timeout (either outcome legal),
// each followed at once by an ask with a 60 s timeout that the actor answers immediately: that one must never time out.
func c13NearThenLong(id string, rounds int, seed int64) core.Scenario {
	return core.Scenario{ID: id, Class: "Ask.timeout", Run: func(c *core.Ctx) {
		rep := map[string]any{"scenario": id, "class": "reply within a hair of the timeout, then an ask with a 60 s timeout", "rounds": rounds}
		c.Eval(int64(rounds))
		c.Distinct(id)
		type nAsk = fpgo.AskDef[interface{}, string]
		actor := fpgo.Actor.New(func(self *fpgo.ActorDef[interface{}], m interface{}) {
			a, ok := m.(*nAsk)
			if !ok {
				return
			}
			if d, isDur := a.Message.(time.Duration); isDur {
				t0 := time.Now()
				for time.Since(t0) < d {
				}
				func() {
					defer func() { recover() }() // a panic of a late Reply is the subject of the late-reply classes
					a.Reply("near")
				}()
				return
			}
			a.Reply("prompt")
		})
		rng := rand.New(rand.NewSource(seed))
		var inTime, timedOut int64
		for r := 0; r < rounds; r++ {
			timeout := time.Duration(150+rng.Intn(200)) * time.Microsecond
			delay := timeout + time.Duration(rng.Intn(120)-90)*time.Microsecond
			v, err := fpgo.AskNewGenerics[interface{}, string](delay).AskOnceWithTimeout(actor, timeout)
			switch {
			case err == nil && v == "near":
				inTime++
			case err == fpgo.ErrActorAskTimeout && v == "":
				timedOut++
			default:
				c.Violationf("timeout:racing-result", rep, "reply near the timeout: AskOnceWithTimeout returned (%q, %v)", v, err)
			}
			v, err = fpgo.AskNewGenerics[interface{}, string]("now").AskOnceWithTimeout(actor, 60*time.Second)
			if err != nil || v != "prompt" {
				c.Violationf("timeout:in-time-reply-lost", rep, "round %d: after an ask whose reply came within a hair of its timeout, an ask with a 60 s timeout that the actor answers immediately returned (%q, %v)", r, v, err)
				break
			}
		}
		c.Count("near_timeout.replied_in_time", inTime)
		c.Count("near_timeout.timed_out", timedOut)
		actor.Close()
	}}
}

// an ask object prepared long before it is sent: the timeout counts from the call, not from the construction
func c13PreparedAsk(id string, seed int64) core.Scenario {
	return core.Scenario{ID: id, Class: "Ask.timeout", Run: func(c *core.Ctx) {
		c.Eval(1)
		c.Distinct(id)
		type pAsk = fpgo.AskDef[interface{}, string]
		actor := fpgo.Actor.New(func(self *fpgo.ActorDef[interface{}], m interface{}) {
			if a, ok := m.(*pAsk); ok {
				a.Reply("prompt")
			}
		})
		defer actor.Close()
		const timeout = 3 * time.Second
		// three independent attempts: a single late answer proves nothing on a loaded machine
		failures := 0
		var lastErr error
		for attempt := 0; attempt < 3; attempt++ {
			var ask *pAsk
			if (seed+int64(attempt))%2 == 0 {
				ask = fpgo.AskNewGenerics[interface{}, string]("prepared")
			} else {
				ask = fpgo.AskNewByOptionsGenerics[interface{}, string]("prepared", make(chan string, 1))
			}
			time.Sleep(timeout + 400*time.Millisecond) // the ask object is older than its timeout when it is finally sent
			v, err := ask.AskOnceWithTimeout(actor, timeout)
			if err == nil && v == "prompt" {
				break
			}
			failures++
			lastErr = err
		}
		if failures == 3 {
			c.Violationf("timeout:in-time-reply-lost", map[string]any{"scenario": id, "class": "ask object built 3.4 s before AskOnceWithTimeout(3 s) is called, actor answers immediately"},
				"an ask object constructed %v before it was sent, AskOnceWithTimeout(%v) towards an actor that answers immediately: 3 of 3 attempts failed, last error %v", timeout+400*time.Millisecond, timeout, lastErr)
		}
	}}
}

// the timeout counts from the moment the request has been handed to the actor: an ask towards an UNBUFFERED actor that
// is busy for longer than the timeout is handed over late (Send blocks meanwhile), answered at once and must deliver
// that answer
func c13HandOverLate(id string, seed int64) core.Scenario {
	return core.Scenario{ID: id, Class: "Ask.timeout", Run: func(c *core.Ctx) {
		c.Eval(1)
		c.Distinct(id)
		type hAsk = fpgo.AskDef[interface{}, string]
		actor := fpgo.Actor.New(func(self *fpgo.ActorDef[interface{}], m interface{}) {
			switch x := m.(type) {
			case time.Duration:
				time.Sleep(x)
			case *hAsk:
				x.Reply("prompt")
			}
		})
		defer actor.Close()
		const busy, timeout = 450 * time.Millisecond, 300 * time.Millisecond
		failures := 0
		var last string
		for attempt := 0; attempt < 3; attempt++ {
			actor.Send(busy) // returns when the actor has taken it: the actor is busy from now on
			v, err := fpgo.AskNewGenerics[interface{}, string]("q").AskOnceWithTimeout(actor, timeout)
			if err == nil && v == "prompt" {
				break
			}
			failures++
			last = fmt.Sprintf("(%q, %v)", v, err)
		}
		if failures == 3 {
			c.Violationf("timeout:in-time-reply-lost", map[string]any{"scenario": id, "class": "request handed over late to a busy unbuffered actor, answered at once"},
				"AskOnceWithTimeout(%v) towards an unbuffered actor that is busy for %v: the request is handed over when the actor is free again and answered immediately, yet 3 of 3 attempts returned %s", timeout, busy, last)
		}
	}}
}

// scatter / gather from ONE goroutine: n AskChannel calls, then the answers are read in request order from an actor that
// answers in arrival order. Requests of one sender arrive in the order they were made (C12), so nobody waits for anybody.
func c13ScatterGather(id string, n, capacity int, seed int64) core.Scenario {
	return core.Scenario{ID: id, Class: "Ask.correlation", Run: func(c *core.Ctx) {
		c.Eval(int64(n))
		c.Distinct(id)
		type sAsk = fpgo.AskDef[interface{}, int]
		var mu sync.Mutex
		var arrival []int
		eff := func(self *fpgo.ActorDef[interface{}], m interface{}) {
			if a, ok := m.(*sAsk); ok {
				k := a.Message.(int)
				mu.Lock()
				arrival = append(arrival, k)
				mu.Unlock()
				a.Reply(k * 10)
			}
		}
		var actor *fpgo.ActorDef[interface{}]
		if capacity == 0 {
			actor = fpgo.Actor.New(eff)
		} else {
			actor = fpgo.Actor.NewByOptions(eff, make(chan interface{}, capacity), map[string]interface{}{})
		}
		done := make(chan struct{})
		var got []int
		go func() {
			defer close(done)
			for round := 0; round < 20; round++ {
				var chs []chan int
				for k := 1; k <= n; k++ {
					chs = append(chs, fpgo.AskNewGenerics[interface{}, int](round*100+k).AskChannel(actor))
				}
				for _, ch := range chs {
					got = append(got, <-ch)
				}
			}
		}()
		v, dump := core.AwaitOrStuck(done, 2*time.Second, 60*time.Second, func() int64 { mu.Lock(); defer mu.Unlock(); return int64(len(arrival)) })
		rep := map[string]any{"scenario": id, "asks_in_flight": n, "mailbox_capacity": capacity}
		if v == "stuck" {
			mu.Lock()
			arr := append([]int(nil), arrival...)
			mu.Unlock()
			if len(arr) > 24 {
				arr = arr[len(arr)-24:]
			}
			c.Violationf("scatter-gather:stuck", map[string]any{"scenario": id, "goroutines": core.RepoGoroutineSummary(dump), "last_arrivals": fmt.Sprint(arr)},
				"%d AskChannel calls from one goroutine, answers read in request order: the asker and the actor wait for each other (requests arrived as ...%v)", n, arr)
			return
		}
		if v != "done" {
			c.Inconclusive("watchdog in " + id)
			return
		}
		for i, g := range got {
			round, k := i/n, i%n+1
			if g != (round*100+k)*10 {
				c.Violationf("scatter-gather:wrong-answer", rep, "answer #%d of round %d is %d, want %d", k, round, g, (round*100+k)*10)
				break
			}
		}
		mu.Lock()
		for i := 1; i < len(arrival); i++ {
			if arrival[i] < arrival[i-1] {
				c.Violationf("scatter-gather:requests-overtake", rep, "requests made by one goroutine in the order ...%d, %d... reached the actor as ...%d, %d...", arrival[i], arrival[i-1], arrival[i-1], arrival[i])
				break
			}
		}
		mu.Unlock()
		actor.Close()
	}}
}

// c13ReusedAsk: a polling client keeps ONE ask object and sends it again with AskChannel whenever it wants a fresh
// answer; every one of those requests gets the reply made for it (the reply counter of the actor tells them apart),
// one-shot asks of other clients in between are served as well.
func c13ReusedAsk(id string, seed int64) core.Scenario {
	return core.Scenario{ID: id, Class: "Ask.reuse", Run: func(c *core.Ctx) {
		c.Eval(1)
		c.Distinct(id)
		type rAsk = fpgo.AskDef[interface{}, int]
		served := 0
		actor := fpgo.Actor.New(func(self *fpgo.ActorDef[interface{}], m interface{}) {
			if a, ok := m.(*rAsk); ok {
				served++
				a.Reply(a.Message.(int)*1000 + served)
			}
		})
		defer actor.Close()
		var poll *rAsk
		if seed%2 == 0 {
			poll = fpgo.AskNewGenerics[interface{}, int](7)
		} else {
			poll = fpgo.AskNewByOptionsGenerics[interface{}, int](7, make(chan int, 1))
		}
		rep := map[string]any{"scenario": id, "caller_supplied_channel": seed%2 == 1}
		expectServed := 0
		for round := 1; round <= 6; round++ {
			ch := poll.AskChannel(actor)
			expectServed++
			got := make(chan int, 1)
			go func() { got <- <-ch }()
			done := make(chan struct{})
			var v int
			go func() { v = <-got; close(done) }()
			verdict, dump := core.AwaitOrStuck(done, 2*time.Second, 60*time.Second, director.Get().Total)
			if verdict == "stuck" {
				rep["goroutines"] = core.RepoGoroutineSummary(dump)
				c.Violationf("reused-ask:no-reply", rep, "round %d: the same ask object sent again with AskChannel never receives the reply the actor made for it", round)
				return
			} else if verdict != "done" {
				c.Inconclusive("watchdog in " + id)
				return
			}
			if v != 7000+expectServed {
				c.Violationf("reused-ask:wrong-reply", rep, "round %d: the re-sent ask received %d, want %d", round, v, 7000+expectServed)
				return
			}
			// a one-shot ask of another client in between
			ov, err := fpgo.AskNewGenerics[interface{}, int](1).AskOnceWithTimeout(actor, 30*time.Second)
			expectServed++
			if err != nil || ov != 1000+expectServed {
				c.Violationf("reused-ask:other-client", rep, "round %d: a one-shot ask between two uses of the polling ask returned (%d, %v), want %d", round, ov, err, 1000+expectServed)
				return
			}
		}
	}}
}

func c13Scenarios(c *core.Ctx, race bool) []core.Scenario {
	var out []core.Scenario
	for i := 0; i < c.Pick(2, 6); i++ {
		if race && i > 0 {
			break
		}
		out = append(out, c13PreparedAsk(fmt.Sprintf("prepared-ask-%d-race%v", i, race), c.Seed+int64(i)))
		out = append(out, c13ReusedAsk(fmt.Sprintf("reused-ask-%d-race%v", i, race), c.Seed+int64(i)))
	}
	for i := 0; i < c.Pick(2, 6); i++ {
		if race && i > 0 {
			break
		}
		out = append(out, c13HandOverLate(fmt.Sprintf("hand-over-late-%d-race%v", i, race), c.Seed+int64(i)))
	}
	for i := 0; i < c.Pick(12, 60); i++ {
		// (the mailbox holds all requests of a round: with a smaller one the asker's synchronous Send itself waits for the
		// actor, which waits for the asker to read an earlier answer - a deadlock of the usage, not of the library)
		n := 2 + i%7
		out = append(out, c13ScatterGather(fmt.Sprintf("scatter-gather-%d-race%v", i, race), n, n+[]int{0, 1, 8}[i%3], c.Seed+int64(i)))
	}
	for i := 0; i < c.Pick(4, 16); i++ {
		out = append(out, c13NearThenLong(fmt.Sprintf("near-then-long-%d-race%v", i, race), c.Pick(300, 1500), c.Seed*71+int64(i)))
	}
	n := c.Pick(30, 300)
	if race {
		n = c.Pick(12, 60)
	}
	rng := c.Rng("c13")
	for i := 0; i < n; i++ {
		askers := []int{1, 2, 4, 8, 16, 32}[rng.Intn(6)]
		each := []int{1, 5, 30, 200}[rng.Intn(4)]
		if race && each > 30 {
			each = 30
		}
		out = append(out, c13Correlation(fmt.Sprintf("corr-%d-a%d-n%d-m%d-race%v", i, askers, each, i%3, race), askers, each, i%3, c.Seed*29+int64(i)))
	}
	per := c.Pick(20, 500)
	if race {
		per = c.Pick(5, 50)
	}
	for i := 0; i < per; i++ {
		out = append(out, c13BusyActor(fmt.Sprintf("busy-actor-cap%d-%d-race%v", i%3, i, race), i%3, c.Seed*61+int64(i)))
	}
	for class := 0; class < 4; class++ {
		for i := 0; i < per; i++ {
			out = append(out, c13Timeout(fmt.Sprintf("timeout-class%d-%d-race%v", class, i, race), class, i%4, c.Seed*37+int64(i)))
		}
	}
	return out
}

func init() {
	core.Register(&core.Check{
		ID: "C13",
		Meta: func(c *core.Ctx) core.Meta {
			return core.Meta{
				Level:       "exploration",
				Rule:        "correlation: 1..32 concurrent askers x 1..200 asks through AskOnce / AskOnceWithTimeout(60 s) / AskChannel; the reply is a pure function of the request payload and a per-request nonce, the actor replies inline, from helper goroutines in shuffled order, or in reversed batches, so every asker can verify that it received exactly its own answer; timeouts as logical classes: 'in time' = 60 s timeout + immediate reply (an error is a violation), 'never' = timeout in {5 ms, 0, -1 ns, -1 h, 1 ns, 300 us} and no reply (the call itself is under the stuck detector), 'after' = the actor replies only after AskOnceWithTimeout has RETURNED ErrActorAskTimeout (signalled by the harness) under recover with a 10 s blocked-detector, 'queued' = the request waits behind a busy actor (mailbox capacity 0..2) beyond the asker's 3 ms timeout and is answered afterwards, 'racing' = PRNG delays around a 200-600 us timeout and the asker parked at ask.timeout.fired so that the reply lands between the timer and the close; afterwards a fresh ask with a 60 s timeout must be served; the asks of the timeout classes are built by AskNewGenerics, AskNewByOptionsGenerics / NewByOptions with caller supplied unbuffered and 1-buffered reply channels; asks handed over late to a busy unbuffered actor (busy 450 ms, timeout 300 ms, answered at once; 3 attempts); ask objects built 3.4 s before AskOnceWithTimeout(3 s) is called (3 attempts); scatter / gather of 2..8 AskChannel calls from one goroutine read in request order (stuck detector, arrival order); multi-step histories of 300 (thorough 1500) rounds {ask whose reply lands within +-100 us of its 150-350 us timeout, then an ask with a 60 s timeout answered immediately, which must not time out}; payload kinds int/string/struct/nil; repeated under -race. distinct_nontrivial = distinct scenarios; (round 7) one ask object sent again six times with AskChannel (default and caller-supplied reply channel) with one-shot asks of another client in between",
				Assumptions: []string{"a 60 s timeout is never hit by an immediately replying actor (safe direction only: a timeout error is a violation, finishing late is not)", "in the racing class either outcome (reply or timeout) is legal"},
			}
		},
		Scenarios: c13Scenarios,
		Batch:     10, RaceToo: true, RaceBatch: 10, Par: 8, Timeout: 300e9,
		RaceRelevant: func(s core.RaceSig) bool {
			return strings.Contains(s.Text, "actor.go") && !strings.Contains(s.Text, ".Close")
		},
	})
}
