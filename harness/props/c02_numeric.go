package props

import (
	"fmt"
	"math"
	"math/big"
	"regexp"
	"strconv"
	"unsafe"

	fpgo "github.com/TeaEntityLab/fpGo/v2"

	"verifharness/internal/core"
)

// C02 — numeric conversions are value-preserving or fail.
// Oracle: exact arithmetic (sign+magnitude for integer sources, math/big for float and string sources).

type convAll interface {
	ToInt() (int, error)
	ToInt8() (int8, error)
	ToInt16() (int16, error)
	ToInt32() (int32, error)
	ToInt64() (int64, error)
	ToByte() (byte, error)
	ToUint8() (uint8, error)
	ToUint() (uint, error)
	ToUint16() (uint16, error)
	ToUint32() (uint32, error)
	ToUint64() (uint64, error)
	ToUintptr() (uintptr, error)
	ToFloat32() (float32, error)
	ToFloat64() (float64, error)
	ToBool() (bool, error)
}

// exact value of a source
type c02Src struct {
	typ                   string
	v                     any
	isInt                 bool // integer-valued source with sign+magnitude
	neg                   bool
	mag                   uint64
	f                     float64 // for float sources (float32 widened exactly)
	isF                   bool
	rat                   *big.Rat // for string sources
	garbage               bool     // string with bytes that occur in no numeric syntax
	str                   string
	canonInt, floatSyntax bool
}

type c02IntTarget struct {
	name string
	lo   int64  // real minimum (<= 0)
	hi   uint64 // real maximum
	plo  int64  // portable must-succeed minimum
	phi  uint64 // portable must-succeed maximum
	call func(convAll) (neg bool, mag uint64, err error)
}

func sm(v int64) (bool, uint64) {
	if v < 0 {
		return true, uint64(-(v + 1)) + 1
	}
	return false, uint64(v)
}

var c02IntTargets = []c02IntTarget{
	{"ToInt", math.MinInt64, math.MaxInt64, math.MinInt32, math.MaxInt32, func(m convAll) (bool, uint64, error) { v, e := m.ToInt(); n, g := sm(int64(v)); return n, g, e }},
	{"ToInt8", math.MinInt8, math.MaxInt8, math.MinInt8, math.MaxInt8, func(m convAll) (bool, uint64, error) { v, e := m.ToInt8(); n, g := sm(int64(v)); return n, g, e }},
	{"ToInt16", math.MinInt16, math.MaxInt16, math.MinInt16, math.MaxInt16, func(m convAll) (bool, uint64, error) { v, e := m.ToInt16(); n, g := sm(int64(v)); return n, g, e }},
	{"ToInt32", math.MinInt32, math.MaxInt32, math.MinInt32, math.MaxInt32, func(m convAll) (bool, uint64, error) { v, e := m.ToInt32(); n, g := sm(int64(v)); return n, g, e }},
	{"ToInt64", math.MinInt64, math.MaxInt64, math.MinInt64, math.MaxInt64, func(m convAll) (bool, uint64, error) { v, e := m.ToInt64(); n, g := sm(v); return n, g, e }},
	{"ToByte", 0, math.MaxUint8, 0, math.MaxUint8, func(m convAll) (bool, uint64, error) { v, e := m.ToByte(); return false, uint64(v), e }},
	{"ToUint8", 0, math.MaxUint8, 0, math.MaxUint8, func(m convAll) (bool, uint64, error) { v, e := m.ToUint8(); return false, uint64(v), e }},
	{"ToUint", 0, math.MaxUint64, 0, math.MaxUint32, func(m convAll) (bool, uint64, error) { v, e := m.ToUint(); return false, uint64(v), e }},
	{"ToUint16", 0, math.MaxUint16, 0, math.MaxUint16, func(m convAll) (bool, uint64, error) { v, e := m.ToUint16(); return false, uint64(v), e }},
	{"ToUint32", 0, math.MaxUint32, 0, math.MaxUint32, func(m convAll) (bool, uint64, error) { v, e := m.ToUint32(); return false, uint64(v), e }},
	{"ToUint64", 0, math.MaxUint64, 0, math.MaxUint64, func(m convAll) (bool, uint64, error) { v, e := m.ToUint64(); return false, v, e }},
	{"ToUintptr", 0, math.MaxUint64, 0, math.MaxUint32, func(m convAll) (bool, uint64, error) { v, e := m.ToUintptr(); return false, uint64(v), e }},
}

func init() {
	if unsafe.Sizeof(int(0)) != 8 || unsafe.Sizeof(uintptr(0)) != 8 {
		panic("C02 model assumes a 64-bit platform for the real range of int/uint/uintptr")
	}
}

func within(neg bool, mag uint64, lo int64, hi uint64) bool {
	if neg {
		_, lomag := sm(lo)
		return lo < 0 && mag <= lomag
	}
	return mag <= hi
}

func smString(neg bool, mag uint64) string {
	if neg {
		return "-" + strconv.FormatUint(mag, 10)
	}
	return strconv.FormatUint(mag, 10)
}

func bigOf(neg bool, mag uint64) *big.Int {
	b := new(big.Int).SetUint64(mag)
	if neg {
		b.Neg(b)
	}
	return b
}

// roundHalfAway rounds an exact rational half away from zero.
func roundHalfAway(r *big.Rat) *big.Int {
	half := big.NewRat(1, 2)
	x := new(big.Rat).Set(r)
	neg := x.Sign() < 0
	if neg {
		x.Neg(x)
	}
	x.Add(x, half)
	q := new(big.Int).Quo(x.Num(), x.Denom()) // floor for non-negative
	if neg {
		q.Neg(q)
	}
	return q
}

type c02Env struct {
	c *core.Ctx
}

func (e *c02Env) viol(src *c02Src, target, class, detail string) {
	e.c.Violationf(fmt.Sprintf("%s->%s:%s", src.typ, target, class), map[string]any{"source_type": src.typ, "value": fmt.Sprintf("%#v", src.v), "target": target},
		"%s(%#v).%s: %s", src.typ, src.v, target, detail)
}

func (e *c02Env) nontrivial(src *c02Src) bool {
	if src.isInt {
		return src.mag > 1
	}
	if src.isF {
		return src.f != 0 && src.f != 1
	}
	return src.str != "0" && src.str != "1"
}

// checkValue runs every conversion of one wrapped source value.
func (e *c02Env) checkValue(m convAll, src *c02Src) {
	nt := e.nontrivial(src)
	// ---- integer targets
	for ti := range c02IntTargets {
		t := &c02IntTargets[ti]
		e.c.Eval(1)
		if nt {
			e.c.DistinctAdd(1)
		}
		var gneg bool
		var gmag uint64
		var gerr error
		pv, where := core.Catch(func() { gneg, gmag, gerr = t.call(m) })
		if pv != nil {
			e.viol(src, t.name, "panic", fmt.Sprintf("panics: %v at %s", pv, where))
			continue
		}
		// expected
		var want *big.Int // nil if no number (NaN/Inf/unparsable)
		mustFail, mustSucceed := false, false
		switch {
		case src.isInt:
			want = bigOf(src.neg, src.mag)
			if !within(src.neg, src.mag, t.lo, t.hi) {
				mustFail = true
			} else if within(src.neg, src.mag, t.plo, t.phi) {
				mustSucceed = true
			}
		case src.isF:
			if math.IsNaN(src.f) || math.IsInf(src.f, 0) {
				mustFail = true
			} else {
				r := new(big.Rat)
				r.SetFloat64(src.f)
				want = roundHalfAway(r)
				lo, hi := big.NewInt(t.lo), new(big.Int).SetUint64(t.hi)
				plo, phi := new(big.Rat).SetInt64(t.plo), new(big.Rat).SetInt(new(big.Int).SetUint64(t.phi))
				if want.Cmp(lo) < 0 || want.Cmp(hi) > 0 {
					mustFail = true
				} else if r.Cmp(plo) >= 0 && r.Cmp(phi) <= 0 {
					mustSucceed = true
				}
			}
		default: // string
			if src.rat == nil {
				if !src.garbage {
					// not a number the model understands: only "no panic" is required
					continue
				}
				// bytes that occur in no numeric syntax at all (invalid UTF-8, NUL, non-ASCII digits, invisible characters):
				// certainly not a number, every numeric conversion must report an error
				mustFail = true
				break
			}
			want = roundHalfAway(src.rat)
			lo, hi := big.NewInt(t.lo), new(big.Int).SetUint64(t.hi)
			if src.canonInt {
				plo, phi := big.NewInt(t.plo), new(big.Int).SetUint64(t.phi)
				if want.Cmp(lo) < 0 || want.Cmp(hi) > 0 {
					mustFail = true
				} else if want.Cmp(plo) >= 0 && want.Cmp(phi) <= 0 {
					mustSucceed = true
				}
			} else if want.Cmp(lo) < 0 || want.Cmp(hi) > 0 {
				mustFail = true
			}
		}
		got := bigOf(gneg, gmag)
		if gerr == nil {
			if mustFail {
				e.viol(src, t.name, "accepts-out-of-range", fmt.Sprintf("returned (%s, nil) although the value is outside %s's range / not a number", got, t.name[2:]))
			} else if want != nil && got.Cmp(want) != 0 {
				e.viol(src, t.name, "wrong-value", fmt.Sprintf("returned (%s, nil), exact result is %s", got, want))
			}
		} else {
			if mustSucceed {
				e.viol(src, t.name, "rejects-in-range", fmt.Sprintf("returned error %q although the value fits (expected %s)", gerr, want))
			}
		}
	}
	// ---- float targets
	for _, bits := range []int{32, 64} {
		name := fmt.Sprintf("ToFloat%d", bits)
		e.c.Eval(1)
		if nt {
			e.c.DistinctAdd(1)
		}
		var g float64
		var gerr error
		pv, where := core.Catch(func() {
			if bits == 32 {
				var g32 float32
				g32, gerr = m.ToFloat32()
				g = float64(g32)
			} else {
				g, gerr = m.ToFloat64()
			}
		})
		if pv != nil {
			e.viol(src, name, "panic", fmt.Sprintf("panics: %v at %s", pv, where))
			continue
		}
		var want float64
		haveWant := true
		mustFail, mustSucceed := false, false
		nearest := func(r *big.Rat) float64 {
			if bits == 32 {
				f, _ := r.Float32()
				return float64(f)
			}
			f, _ := r.Float64()
			return f
		}
		switch {
		case src.isInt:
			want = nearest(new(big.Rat).SetInt(bigOf(src.neg, src.mag)))
			mustSucceed = true
		case src.isF:
			if math.IsNaN(src.f) || math.IsInf(src.f, 0) {
				want = src.f
				mustSucceed = true
			} else {
				r := new(big.Rat)
				r.SetFloat64(src.f)
				want = nearest(r)
				if math.IsInf(want, 0) {
					mustFail = true
				} else {
					mustSucceed = true
				}
			}
		default:
			if src.rat == nil {
				continue
			}
			want = nearest(src.rat)
			if math.IsInf(want, 0) {
				mustFail = true
			} else if src.floatSyntax {
				mustSucceed = true
			}
		}
		same := g == want || (math.IsNaN(g) && math.IsNaN(want))
		if gerr == nil {
			if mustFail {
				e.viol(src, name, "accepts-out-of-range", fmt.Sprintf("returned (%v, nil) although the finite value overflows float%d", g, bits))
			} else if haveWant && !same {
				e.viol(src, name, "wrong-value", fmt.Sprintf("returned (%v, nil), nearest float%d is %v", g, bits, want))
			}
		} else if mustSucceed {
			e.viol(src, name, "rejects-in-range", fmt.Sprintf("returned error %q, expected %v", gerr, want))
		}
	}
	// ---- ToBool of a number is exactly value != 0
	if src.isInt || src.isF {
		e.c.Eval(1)
		var b bool
		var berr error
		pv, where := core.Catch(func() { b, berr = m.ToBool() })
		want := false
		if src.isInt {
			want = src.mag != 0
		} else {
			want = src.f != 0 // NaN != 0 is true
		}
		if pv != nil {
			e.viol(src, "ToBool", "panic", fmt.Sprintf("panics: %v at %s", pv, where))
		} else if berr != nil || b != want {
			e.viol(src, "ToBool", "tobool", fmt.Sprintf("returned (%v, %v), want (%v, nil)", b, berr, want))
		}
	} else if src.typ == "string" && src.rat != nil {
		// a numeric string: an error is fine, but an answer must be the number's truth value (value != 0)
		e.c.Eval(1)
		var b bool
		var berr error
		pv, where := core.Catch(func() { b, berr = m.ToBool() })
		if pv != nil {
			e.viol(src, "ToBool", "panic", fmt.Sprintf("panics: %v at %s", pv, where))
		} else if berr == nil && b != (src.rat.Sign() != 0) {
			e.viol(src, "ToBool", "tobool", fmt.Sprintf("returned (%v, nil) for a string that denotes the number %s (value != 0 is %v)", b, src.rat.FloatString(3), src.rat.Sign() != 0))
		}
	}
}

func wrapBoth(v any) []convAll {
	out := []convAll{fpgo.Maybe.Just(v).(convAll)}
	switch x := v.(type) {
	case int:
		out = append(out, fpgo.JustGenerics(x).(convAll))
	case int8:
		out = append(out, fpgo.JustGenerics(x).(convAll))
	case int16:
		out = append(out, fpgo.JustGenerics(x).(convAll))
	case int32:
		out = append(out, fpgo.JustGenerics(x).(convAll))
	case int64:
		out = append(out, fpgo.JustGenerics(x).(convAll))
	case uint:
		out = append(out, fpgo.JustGenerics(x).(convAll))
	case uint8:
		out = append(out, fpgo.JustGenerics(x).(convAll))
	case uint16:
		out = append(out, fpgo.JustGenerics(x).(convAll))
	case uint32:
		out = append(out, fpgo.JustGenerics(x).(convAll))
	case uint64:
		out = append(out, fpgo.JustGenerics(x).(convAll))
	case uintptr:
		out = append(out, fpgo.JustGenerics(x).(convAll))
	case float32:
		out = append(out, fpgo.JustGenerics(x).(convAll))
	case float64:
		out = append(out, fpgo.JustGenerics(x).(convAll))
	case string:
		out = append(out, fpgo.JustGenerics(x).(convAll))
	case bool:
		out = append(out, fpgo.JustGenerics(x).(convAll))
	}
	return out
}

type c02IntType struct {
	name string
	lo   int64
	hi   uint64
	mk   func(neg bool, mag uint64) any
}

func toI64(neg bool, mag uint64) int64 {
	if neg {
		return -int64(mag-1) - 1
	}
	return int64(mag)
}

var c02IntTypes = []c02IntType{
	{"int", math.MinInt64, math.MaxInt64, func(n bool, m uint64) any { return int(toI64(n, m)) }},
	{"int8", math.MinInt8, math.MaxInt8, func(n bool, m uint64) any { return int8(toI64(n, m)) }},
	{"int16", math.MinInt16, math.MaxInt16, func(n bool, m uint64) any { return int16(toI64(n, m)) }},
	{"int32", math.MinInt32, math.MaxInt32, func(n bool, m uint64) any { return int32(toI64(n, m)) }},
	{"int64", math.MinInt64, math.MaxInt64, func(n bool, m uint64) any { return toI64(n, m) }},
	{"uint", 0, math.MaxUint64, func(n bool, m uint64) any { return uint(m) }},
	{"uint8", 0, math.MaxUint8, func(n bool, m uint64) any { return uint8(m) }},
	{"uint16", 0, math.MaxUint16, func(n bool, m uint64) any { return uint16(m) }},
	{"uint32", 0, math.MaxUint32, func(n bool, m uint64) any { return uint32(m) }},
	{"uint64", 0, math.MaxUint64, func(n bool, m uint64) any { return m }},
	{"uintptr", 0, math.MaxUint64, func(n bool, m uint64) any { return uintptr(m) }},
}

type smv struct {
	neg bool
	mag uint64
}

// boundary integer candidates as sign+magnitude
func c02IntCandidates() []smv {
	var out []smv
	add := func(neg bool, mag uint64) { out = append(out, smv{neg && mag != 0, mag}) }
	for _, m := range []uint64{0, 1, 2, 3, 10, 100} {
		add(false, m)
		add(true, m)
	}
	for _, sh := range []uint{7, 8, 15, 16, 24, 31, 32, 53, 63} {
		b := uint64(1) << sh
		for d := uint64(0); d <= 3; d++ {
			add(false, b-d)
			add(false, b+d)
			add(true, b-d)
			add(true, b+d)
		}
	}
	for d := uint64(0); d <= 3; d++ {
		add(false, math.MaxUint64-d)
		add(true, math.MaxUint64-d)
	}
	return out
}

var (
	canonIntRe  = regexp.MustCompile(`^(0|-?[1-9][0-9]*)$`)
	floatSynRe  = regexp.MustCompile(`^[+-]?[0-9]+(\.[0-9]+)?([eE][+-]?[0-9]+)?$`)
	ratParsable = regexp.MustCompile(`^[+-]?[0-9]+(\.[0-9]+)?([eE][+-]?[0-9]{1,4})?$`)
)

func c02StringSrc(s string) *c02Src {
	src := &c02Src{typ: "string", v: s, str: s}
	if ratParsable.MatchString(s) {
		if r, ok := new(big.Rat).SetString(s); ok {
			src.rat = r
		}
	}
	for i := 0; i < len(s); i++ {
		if s[i] >= 0x80 || s[i] == 0 {
			src.garbage = src.rat == nil
		}
	}
	src.canonInt = canonIntRe.MatchString(s)
	src.floatSyntax = floatSynRe.MatchString(s)
	return src
}

func runC02(c *core.Ctx) {
	e := &c02Env{c: c}
	seenSample := 0
	sample := func(src *c02Src) {
		if seenSample < 10 && c.WantSample() {
			seenSample++
			c.Sample(map[string]any{"source_type": src.typ, "value": fmt.Sprintf("%#v", src.v), "targets": "all 14 numeric conversions + ToBool"})
		}
	}
	// ---- exhaustive 8- and 16-bit sources
	type job struct {
		t   *c02IntType
		neg bool
		mag uint64
	}
	var jobs []job
	for ti := range c02IntTypes {
		t := &c02IntTypes[ti]
		switch t.name {
		case "int8", "int16":
			for v := t.lo; v <= int64(t.hi); v++ {
				n, m := sm(v)
				jobs = append(jobs, job{t, n, m})
			}
		case "uint8", "uint16":
			for v := uint64(0); v <= t.hi; v++ {
				jobs = append(jobs, job{t, false, v})
			}
		}
	}
	c.Note("exhaustive_sources", "every value of int8, uint8, int16, uint16 (131584 values) x 14 numeric conversions + ToBool")
	// ---- boundary + PRNG values for the wide integer types
	rng := c.Rng("c02")
	nrand := c.Pick(20000, 1000000)
	cands := c02IntCandidates()
	for ti := range c02IntTypes {
		t := &c02IntTypes[ti]
		seen := map[smv]bool{}
		add := func(neg bool, mag uint64) {
			if !within(neg, mag, t.lo, t.hi) {
				return
			}
			k := smv{neg && mag != 0, mag}
			if seen[k] {
				return
			}
			seen[k] = true
			jobs = append(jobs, job{t, k.neg, k.mag})
		}
		for _, cnd := range cands {
			add(cnd.neg, cnd.mag)
		}
		switch t.name {
		case "int8", "int16", "uint8", "uint16":
			continue
		}
		for i := 0; i < nrand; i++ {
			bitsN := 1 + rng.Intn(64)
			mag := rng.Uint64() >> uint(64-bitsN)
			if rng.Intn(4) == 0 { // hug a power of two
				mag = (uint64(1) << uint(bitsN-1)) + uint64(rng.Intn(5)) - 2
			}
			add(rng.Intn(2) == 0, mag)
		}
	}
	// 64-bit integers beside a float32 / float64 rounding tie (more significant bits than float64 holds): an
	// int -> float64 -> float32 detour double-rounds exactly these
	for ti := range c02IntTypes {
		t := &c02IntTypes[ti]
		if t.hi < math.MaxUint32 {
			continue
		}
		for e := uint(25); e <= 63; e++ {
			for rep := 0; rep < c.Pick(6, 60); rep++ {
				m := uint64(rng.Intn(1 << 23))
				if rep == 0 {
					m = 0
				}
				tie32 := (uint64(1) << e) | (m << (e - 23)) | (uint64(1) << (e - 24))
				for _, dlt := range []uint64{0, 1, 2, 3} {
					for _, sgn := range []bool{false, true} {
						for _, neg := range []bool{false, true} {
							v := tie32 + dlt
							if sgn {
								v = tie32 - dlt
							}
							if within(neg, v, t.lo, t.hi) {
								jobs = append(jobs, job{t, neg && v != 0, v})
							}
						}
					}
				}
				if e >= 54 {
					tie64 := (uint64(1) << e) | ((m | uint64(rng.Intn(1<<29))<<23) << (e - 52)) | (uint64(1) << (e - 53))
					for _, dlt := range []uint64{0, 1} {
						for _, neg := range []bool{false, true} {
							if within(neg, tie64+dlt, t.lo, t.hi) {
								jobs = append(jobs, job{t, neg, tie64 + dlt})
							}
							if within(neg, tie64-dlt, t.lo, t.hi) {
								jobs = append(jobs, job{t, neg, tie64 - dlt})
							}
						}
					}
				}
			}
		}
	}
	parallelFor(len(jobs), func(w, i int) {
		j := jobs[i]
		v := j.t.mk(j.neg, j.mag)
		src := &c02Src{typ: j.t.name, v: v, isInt: true, neg: j.neg, mag: j.mag}
		for _, m := range wrapBoth(v) {
			e.checkValue(m, src)
		}
	})
	for i := 0; i < len(jobs); i += len(jobs)/6 + 1 {
		j := jobs[i]
		sample(&c02Src{typ: j.t.name, v: j.t.mk(j.neg, j.mag)})
	}
	c.Count("int_source_values", int64(len(jobs)))

	// ---- bool
	for _, b := range []bool{false, true} {
		mag := uint64(0)
		if b {
			mag = 1
		}
		src := &c02Src{typ: "bool", v: b, isInt: true, mag: mag}
		for _, m := range wrapBoth(b) {
			e.checkValue(m, src)
		}
	}

	// ---- floats
	var f64s []float64
	addF := func(f float64) { f64s = append(f64s, f) }
	for _, cnd := range cands {
		k := float64(cnd.mag)
		if cnd.neg {
			k = -k
		}
		for _, d := range []float64{0, 0.25, 0.5, 0.75, -0.25, -0.5, -0.75, 1, -1} {
			addF(k + d)
		}
		addF(math.Nextafter(k, math.Inf(1)))
		addF(math.Nextafter(k, math.Inf(-1)))
		k32 := float32(k)
		addF(float64(math.Nextafter32(k32, float32(math.Inf(1)))))
		addF(float64(math.Nextafter32(k32, float32(math.Inf(-1)))))
		addF(float64(k32))
	}
	for _, f := range []float64{0, math.Copysign(0, -1), math.NaN(), math.Inf(1), math.Inf(-1), math.MaxFloat32, -math.MaxFloat32, math.MaxFloat64, -math.MaxFloat64,
		math.SmallestNonzeroFloat32, math.SmallestNonzeroFloat64, -math.SmallestNonzeroFloat64, math.MaxFloat32 * 2, 1e300, -1e300, 0.49999999999999994, 0.5, 1.5, 2.5, -0.5, -1.5, -2.5,
		math.Nextafter(math.MaxFloat32, math.Inf(1)), 3.4028235677973366e+38, 3.4028235e38, 1e39, 1e-50, 16777217, 9007199254740993} {
		addF(f)
	}
	for e := -140; e <= 127; e += 3 { // float64 values beside float32 rounding ties
		for rep := 0; rep < 4; rep++ {
			m := float64(rng.Intn(1<<23)) / float64(1<<23)
			tie := math.Ldexp(1+m+1.0/float64(1<<24), e)
			addF(tie)
			addF(math.Nextafter(tie, math.Inf(1)))
			addF(math.Nextafter(tie, math.Inf(-1)))
			addF(-tie)
		}
	}
	for i := 0; i < nrand; i++ {
		switch rng.Intn(3) {
		case 0:
			addF(math.Float64frombits(rng.Uint64()))
		case 1: // around integer bounds: random mantissa, exponent 0..70
			f := math.Ldexp(1+rng.Float64(), rng.Intn(72)-2)
			if rng.Intn(2) == 0 {
				f = -f
			}
			addF(f)
		default:
			f := float64(int64(rng.Uint64()>>uint(rng.Intn(64)))) + float64(rng.Intn(4))*0.25
			if rng.Intn(2) == 0 {
				f = -f
			}
			addF(f)
		}
	}
	// dedupe by bits
	seenF := map[uint64]bool{}
	var ff []float64
	for _, f := range f64s {
		b := math.Float64bits(f)
		if math.IsNaN(f) {
			b = 0x7ff8000000000001
		}
		if !seenF[b] {
			seenF[b] = true
			ff = append(ff, f)
		}
	}
	parallelFor(len(ff), func(w, i int) {
		f := ff[i]
		src := &c02Src{typ: "float64", v: f, isF: true, f: f}
		for _, m := range wrapBoth(f) {
			e.checkValue(m, src)
		}
		f32 := float32(f)
		if float64(f32) == f || math.IsNaN(f) || i%3 == 0 {
			src32 := &c02Src{typ: "float32", v: f32, isF: true, f: float64(f32)}
			for _, m := range wrapBoth(f32) {
				e.checkValue(m, src32)
			}
		}
	})
	c.Count("float_source_values", int64(len(ff)))
	sample(&c02Src{typ: "float64", v: ff[7]})
	sample(&c02Src{typ: "float64", v: ff[len(ff)/2]})

	// ---- numeric strings
	var strs []string
	seenS := map[string]bool{}
	addS := func(s string) {
		if !seenS[s] {
			seenS[s] = true
			strs = append(strs, s)
		}
	}
	for _, cnd := range cands {
		addS(smString(cnd.neg, cnd.mag))
	}
	for i := 0; i < len(ff) && i < c.Pick(4000, 60000); i++ {
		f := ff[i]
		if math.IsNaN(f) || math.IsInf(f, 0) {
			continue
		}
		addS(strconv.FormatFloat(f, 'g', -1, 64))
		if math.Abs(f) < 1e18 {
			addS(strconv.FormatFloat(f, 'f', -1, 64))
		}
	}
	for _, s := range []string{"", " 1", "1 ", "+1", "+200", "1e3", "1E3", "0x10", "1.5", "-1.5", "2.5", "0.5", "-0.5", "-0", "00012", "1_000", "NaN", "Inf", "-Inf", "1e400", "-1e400", "1e39",
		"340282356779733661637539395458142568448", "18446744073709551616", "99999999999999999999999999999999999999999", "-99999999999999999999999999999999999999999",
		"4\xff2", "-1\xf0\x9f\x9800", "1\x002", "\xff", "12\xff", "\xff12", "\u0967\u0968", "\uff11\uff12", "12\u200b", "1\u00a02", "4\xc3\x282", "\xed\xa0\x8012",
		"1e-400", "-1e-400", "2.4e-324", "4.9e-324", "1e-320", "0.0", "0e10", "0.000000000000000000000000000001", "2", "10", "-3", "abc", "1.0", "255.0", "256", "-1", "65535", "65536", "4294967295", "4294967296", "3000000000", "200", "128", "127", "-128", "-129", "0.1", "1e-400", "true", "false"} {
		addS(s)
	}
	parallelFor(len(strs), func(w, i int) {
		src := c02StringSrc(strs[i])
		for _, m := range wrapBoth(strs[i]) {
			e.checkValue(m, src)
		}
	})
	c.Count("string_source_values", int64(len(strs)))
	sample(c02StringSrc("3000000000"))
	sample(c02StringSrc("-1"))

	// ---- unsupported kinds fail with ErrConversionUnsupported
	x := 5
	unsupported := []any{complex64(1), complex128(2), struct{ A int }{1}, []int{1}, map[string]int{"a": 1}, [2]int{1, 2}, func() {}, make(chan int), &x, unsafe.Pointer(&x), []byte("12"), fmt.Errorf("e")}
	for _, v := range unsupported {
		m := fpgo.Maybe.Just(v).(convAll)
		src := &c02Src{typ: fmt.Sprintf("%T", v), v: fmt.Sprintf("%T", v)}
		calls := map[string]func() error{
			"ToInt": func() error { _, e := m.ToInt(); return e }, "ToInt8": func() error { _, e := m.ToInt8(); return e }, "ToInt16": func() error { _, e := m.ToInt16(); return e },
			"ToInt32": func() error { _, e := m.ToInt32(); return e }, "ToInt64": func() error { _, e := m.ToInt64(); return e }, "ToByte": func() error { _, e := m.ToByte(); return e },
			"ToUint8": func() error { _, e := m.ToUint8(); return e }, "ToUint": func() error { _, e := m.ToUint(); return e }, "ToUint16": func() error { _, e := m.ToUint16(); return e },
			"ToUint32": func() error { _, e := m.ToUint32(); return e }, "ToUint64": func() error { _, e := m.ToUint64(); return e }, "ToUintptr": func() error { _, e := m.ToUintptr(); return e },
			"ToFloat32": func() error { _, e := m.ToFloat32(); return e }, "ToFloat64": func() error { _, e := m.ToFloat64(); return e }, "ToBool": func() error { _, e := m.ToBool(); return e },
		}
		for name, f := range calls {
			c.Eval(1)
			c.DistinctAdd(1)
			var err error
			pv, where := core.Catch(func() { err = f() })
			if pv != nil {
				e.viol(src, name, "panic", fmt.Sprintf("panics: %v at %s", pv, where))
			} else if err != fpgo.ErrConversionUnsupported {
				e.viol(src, name, "unsupported-error", fmt.Sprintf("returned error %v, want ErrConversionUnsupported", err))
			}
		}
	}
}

func init() {
	core.Register(&core.Check{
		ID: "C02",
		Meta: func(c *core.Ctx) core.Meta {
			return core.Meta{
				Level: "exploration",
				Rule: "exact-arithmetic oracle (sign+magnitude / math/big): exhaustive over every int8/uint8/int16/uint16 value; for the wide integer types, float32/float64 and numeric strings a boundary set (0, +-1, every power-of-two bound +-3, +-0.25/0.5/0.75, +-1 ulp in float32 and float64, NaN, +-Inf, -0, max/min, subnormals) plus PRNG values biased to bit-length boundaries, plus 64-bit integers and float64 values beside float32/float64 rounding ties (double-rounding traps); each value wrapped by Maybe.Just and JustGenerics[T] and pushed through all 14 numeric conversions and ToBool. " +
					"Zones per (target, value): must-succeed (raw value inside the target range; portable 32-bit range for int/uint/uintptr), must-fail (rounded value outside the real range, NaN/Inf to an integer, finite float overflowing float32), either; in every zone a nil error requires the exact expected number. distinct_nontrivial = distinct (source type, value, target) with value not in {0,1}",
				Assumptions: []string{"64-bit platform: the real range of int/uint/uintptr is 64 bits, the must-succeed range is the portable 32-bit one",
					"strings: canonical decimal integers are in the must-succeed/must-fail zones; other decimal syntaxes only when strconv's float syntax accepts them; strings the model cannot parse are only required not to panic, except strings with bytes that occur in no numeric syntax (invalid UTF-8, NUL, non-ASCII digits, invisible characters), which every numeric conversion must reject",
					"NaN/+-Inf convert to float targets unchanged"},
				Exhaustive: true,
			}
		},
		Run: runC02,
	})
}
