// Package props holds one workload + oracle per property (C01..C20).
package props

import (
	"fmt"
	"runtime"
	"sync"
)

// enumerate calls fn for every sequence in {0..k-1}^n, sharded over the CPUs by the leading letters.
// fn receives a worker-private slice (do not retain).
func enumerate(k, n int, fn func(worker int, seq []int)) {
	if n == 0 {
		fn(0, nil)
		return
	}
	prefixLen := 1
	if n >= 2 && k < 64 {
		prefixLen = 2
	}
	if prefixLen > n {
		prefixLen = n
	}
	nprefix := 1
	for i := 0; i < prefixLen; i++ {
		nprefix *= k
	}
	workers := runtime.NumCPU()
	if workers > nprefix {
		workers = nprefix
	}
	jobs := make(chan int, nprefix)
	for p := 0; p < nprefix; p++ {
		jobs <- p
	}
	close(jobs)
	var wg sync.WaitGroup
	for w := 0; w < workers; w++ {
		wg.Add(1)
		go func(w int) {
			defer wg.Done()
			seq := make([]int, n)
			for p := range jobs {
				x := p
				for i := prefixLen - 1; i >= 0; i-- {
					seq[i] = x % k
					x /= k
				}
				for i := prefixLen; i < n; i++ {
					seq[i] = 0
				}
				for {
					fn(w, seq)
					// increment suffix
					i := n - 1
					for ; i >= prefixLen; i-- {
						seq[i]++
						if seq[i] < k {
							break
						}
						seq[i] = 0
					}
					if i < prefixLen {
						break
					}
				}
			}
		}(w)
	}
	wg.Wait()
}

// parallelFor runs fn(i) for i in [0,n) on all CPUs.
func parallelFor(n int, fn func(worker, i int)) {
	workers := runtime.NumCPU()
	if workers > n {
		workers = n
	}
	if workers < 1 {
		workers = 1
	}
	var wg sync.WaitGroup
	next := make(chan int, 256)
	go func() {
		for i := 0; i < n; i++ {
			next <- i
		}
		close(next)
	}()
	for w := 0; w < workers; w++ {
		wg.Add(1)
		go func(w int) {
			defer wg.Done()
			for i := range next {
				fn(w, i)
			}
		}(w)
	}
	wg.Wait()
}

func errStr(e error) string {
	if e == nil {
		return "nil"
	}
	return e.Error()
}

func sprint(v any) string { return fmt.Sprintf("%#v", v) }
