package props

import (
	"context"
	"errors"
	"fmt"
	"io"
	"math/rand"
	"net/http"
	"strings"
	"sync"
	"syscall"
	"time"

	"github.com/TeaEntityLab/fpGo/v2/network"

	"verifharness/internal/core"
)

// C18, long histories on ONE SimpleHTTP (hundreds of requests, many of them refused by an interceptor) whose transport
// also answers redirects: http.Client then sends a second OUTGOING request through the same transport chain, and the
// statement holds for every outgoing request.

type c18LWorld struct {
	mu       sync.Mutex
	log      []string // "I<id>:<path>" / "T:<path>"
	hdrSeen  map[string]string
	failID   int
	failPath string
	failErr  error
	redirect int   // status for paths starting with /moved
	tFault   error // the transport fails the round trip of tPath with this error (once)
	tPath    string
}

func (w *c18LWorld) RoundTrip(r *http.Request) (*http.Response, error) {
	w.mu.Lock()
	w.log = append(w.log, "T:"+r.URL.Path)
	for id := 1; id <= 3; id++ {
		w.hdrSeen[fmt.Sprintf("%s#%d", r.URL.Path, id)] = r.Header.Get(fmt.Sprintf("X-L%d", id))
	}
	st := w.redirect
	fault := error(nil)
	if w.tFault != nil && w.tPath == r.URL.Path {
		fault, w.tFault = w.tFault, nil
	}
	w.mu.Unlock()
	if fault != nil {
		return nil, fault
	}
	if strings.HasPrefix(r.URL.Path, "/moved") && st != 0 {
		h := http.Header{"Location": {"http://other.test/final" + strings.TrimPrefix(r.URL.Path, "/moved")}}
		return &http.Response{StatusCode: st, Status: fmt.Sprint(st), Proto: "HTTP/1.1", ProtoMajor: 1, ProtoMinor: 1, Header: h, Body: io.NopCloser(strings.NewReader("")), Request: r}, nil
	}
	return &http.Response{StatusCode: 200, Status: "200 OK", Proto: "HTTP/1.1", ProtoMajor: 1, ProtoMinor: 1, Header: http.Header{}, Body: io.NopCloser(strings.NewReader(`{"V":1}`)), Request: r}, nil
}

var errC18L = errors.New("stub: interceptor refused")

// an interceptor's own error that happens to be of the timeout kind (net.Error style)
type c18TimeoutErr struct{}

func (c18TimeoutErr) Error() string   { return errC18L.Error() + " (quota window not open yet)" }
func (c18TimeoutErr) Timeout() bool   { return true }
func (c18TimeoutErr) Temporary() bool { return true }

func c18LongHistory(id string, requests int, seed int64) core.Scenario {
	return core.Scenario{ID: id, Class: "interceptor-chain.long", Run: func(c *core.Ctx) {
		rng := rand.New(rand.NewSource(seed))
		w := &c18LWorld{hdrSeen: map[string]string{}}
		// generation g of interceptor idn: the caller may assign a new function to the registered variable at any time
		// (the registration is the pointer), the chain runs whatever the variable holds NOW
		fn := func(idn, gen int) network.Interceptor {
			return func(r *http.Request) error {
				w.mu.Lock()
				defer w.mu.Unlock()
				w.log = append(w.log, fmt.Sprintf("I%dg%d:%s", idn, gen, r.URL.Path))
				r.Header.Set(fmt.Sprintf("X-L%d", idn), "seen:"+r.URL.Path)
				if w.failID == idn && w.failPath == r.URL.Path {
					return w.failErr
				}
				return nil
			}
		}
		var ptrs [4]*network.Interceptor
		var gens [4]int
		mk := func(idn int) *network.Interceptor {
			f := fn(idn, 0)
			ptrs[idn] = &f
			return &f
		}
		sh := network.NewSimpleHTTPWithClientAndInterceptors(&http.Client{Transport: w}, mk(1), mk(2), mk(3))
		api := network.NewSimpleAPIWithSimpleHTTP("http://example.test", sh)
		refused := 0
		for n := 0; n < requests; n++ {
			c.Eval(1)
			redirect := []int{0, 0, 301, 302, 303, 307, 308}[rng.Intn(7)]
			failing := []int{0, 0, 1, 2, 3}[rng.Intn(5)]
			failLeg := 1 + rng.Intn(2)
			p1 := fmt.Sprintf("/plain/%d", n)
			var legs []string
			if redirect != 0 {
				p1 = fmt.Sprintf("/moved/%d", n)
				legs = []string{p1, fmt.Sprintf("/final/%d", n)}
			} else {
				legs = []string{p1}
				failLeg = 1
			}
			// now and then: the caller re-assigns a registered interceptor variable; the transport loses the connection
			// (EOF-class error) on one outgoing request; the refusing interceptor's error wraps such an error
			if rng.Intn(12) == 0 {
				idn := 1 + rng.Intn(3)
				gens[idn]++
				*ptrs[idn] = fn(idn, gens[idn])
			}
			var tFault error
			tLeg := 0
			if failing == 0 && rng.Intn(6) == 0 {
				tFault = []error{io.EOF, io.ErrUnexpectedEOF, syscall.ECONNRESET, syscall.EPIPE, fmt.Errorf("stub: server closed idle connection: %w", io.EOF)}[rng.Intn(5)]
				tLeg = 1 + rng.Intn(len(legs))
			}
			failErr := errC18L
			switch rng.Intn(6) {
			case 0, 1:
				failErr = fmt.Errorf("%w (while refreshing a token: %w)", errC18L, io.ErrUnexpectedEOF)
			case 2:
				failErr = fmt.Errorf("%w (the token service did not answer: %w)", errC18L, context.DeadlineExceeded)
			case 3:
				failErr = c18TimeoutErr{}
			}
			w.mu.Lock()
			w.log, w.hdrSeen, w.redirect, w.failID, w.failErr = nil, map[string]string{}, redirect, failing, failErr
			w.failPath = legs[failLeg-1]
			w.tFault, w.tPath = tFault, ""
			if tFault != nil {
				w.tPath = legs[tLeg-1]
			}
			w.mu.Unlock()
			url := "http://example.test" + p1
			verb := rng.Intn(6)
			var err error
			switch verb {
			case 0:
				err = sh.Get(url).Err
			case 1:
				err = sh.Head(url).Err
			case 2:
				err = sh.Options(url).Err
			case 3:
				err = sh.Delete(url).Err
			case 4:
				err = sh.Post(url, "text/plain", strings.NewReader("b")).Err
			default:
				err = network.APIMakeGet[c18Target](api, strings.TrimPrefix(p1, "/"))(nil, &c18Target{}).Eval().Err
			}
			w.mu.Lock()
			log := append([]string(nil), w.log...)
			seen := w.hdrSeen
			w.mu.Unlock()
			// expected: per outgoing request I1 I2 I3 (cut at the refusing one) then T
			var want []string
			wantErr, wantTransportErr := false, false
			for li, path := range legs {
				cut := false
				for idn := 1; idn <= 3; idn++ {
					want = append(want, fmt.Sprintf("I%dg%d:%s", idn, gens[idn], path))
					if failing == idn && failLeg == li+1 {
						cut = true
						break
					}
				}
				if cut {
					wantErr = true
					break
				}
				want = append(want, "T:"+path)
				if tFault != nil && tLeg == li+1 {
					wantTransportErr = true
					break
				}
			}
			if wantErr {
				refused++
			}
			rep := map[string]any{"scenario": id, "request_no": n, "refused_so_far": refused, "redirect_status": redirect, "refusing_interceptor": failing, "refusing_at_outgoing_request": failLeg}
			desc := fmt.Sprintf("request #%d of a long history on one SimpleHTTP with 3 interceptors (%d requests refused by an interceptor so far; transport answers %d; interceptor %d refuses outgoing request %d)", n, refused, redirect, failing, failLeg)
			if strings.Join(log, " ") != strings.Join(want, " ") {
				key := "long:wrong-calls"
				if redirect != 0 && len(log) > 0 {
					key = "long:wrong-calls-with-redirect"
				}
				c.Violationf(key, rep, "%s: calls %v, want %v", desc, log, want)
				return
			}
			if wantErr && (err == nil || !strings.Contains(err.Error(), errC18L.Error())) {
				c.Violationf("long:error-not-surfaced", rep, "%s: the caller got err=%v", desc, err)
				return
			}
			if wantTransportErr {
				if err == nil || !errors.Is(err, tFault) {
					c.Violationf("long:transport-error-not-surfaced", rep, "%s: the transport failed outgoing request %d with %v, the caller got err=%v", desc, tLeg, tFault, err)
					return
				}
			} else if !wantErr && err != nil {
				c.Violationf("long:unexpected-error", rep, "%s: the caller got err=%v", desc, err)
				return
			}
			for _, l := range want {
				if strings.HasPrefix(l, "T:") {
					path := strings.TrimPrefix(l, "T:")
					if wantTransportErr && path == legs[tLeg-1] {
						continue
					}
					for idn := 1; idn <= 3; idn++ {
						if got := seen[fmt.Sprintf("%s#%d", path, idn)]; got != "seen:"+path {
							c.Violationf("long:header-not-reaching-transport", rep, "%s: for outgoing request %s the transport saw X-L%d=%q", desc, path, idn, got)
							return
						}
					}
				}
			}
		}
		c.Distinct(id)
		c.Count("long_history.requests", int64(requests))
		c.CountMax("max.refused_requests_on_one_instance", int64(refused))
	}}
}

// several goroutines send requests through ONE SimpleHTTP at the same time (the transport is slow): every request gets
// its own complete pass through the chain
// c18DefaultTransport: a SimpleHTTP installed as the process-wide http.DefaultTransport (so that plain http.Client{}
// requests are intercepted too), combined with SetHTTPClient of further default clients (Transport == nil): every
// request still runs each interceptor once, in order, then reaches the real transport once; nothing recurses.
func c18DefaultTransport(id string) core.Scenario {
	return core.Scenario{ID: id, Class: "interceptor-chain.default-transport", Run: func(c *core.Ctx) {
		c.Distinct(id)
		saved := http.DefaultTransport
		defer func() { http.DefaultTransport = saved }()
		var mu sync.Mutex
		var log []string
		real := roundTripFunc(func(r *http.Request) (*http.Response, error) {
			mu.Lock()
			log = append(log, "T:"+r.Header.Get("X-A")+r.Header.Get("X-B"))
			mu.Unlock()
			return &http.Response{StatusCode: 200, Status: "200 OK", Proto: "HTTP/1.1", ProtoMajor: 1, ProtoMinor: 1, Header: http.Header{}, Body: io.NopCloser(strings.NewReader(`{}`)), Request: r}, nil
		})
		http.DefaultTransport = real
		errLoop := errors.New("verif: the interceptor chain was entered more than 8 times for one request")
		var calls int
		mk := func(name string) *network.Interceptor {
			f := network.Interceptor(func(r *http.Request) error {
				mu.Lock()
				defer mu.Unlock()
				calls++
				if calls > 16 {
					return errLoop // cut a runaway chain before it overflows the stack
				}
				log = append(log, name)
				r.Header.Set("X-"+name, name)
				return nil
			})
			return &f
		}
		sh := network.NewSimpleHTTP()
		sh.AddInterceptor(mk("A"), mk("B"))
		http.DefaultTransport = sh // intercept everything of this process
		step := func(what string, cl *http.Client) bool {
			c.Eval(1)
			mu.Lock()
			log, calls = nil, 0
			mu.Unlock()
			req, _ := http.NewRequest("GET", "http://verif.invalid/x", nil)
			resp, err := cl.Do(req)
			if resp != nil && resp.Body != nil {
				resp.Body.Close()
			}
			mu.Lock()
			got := strings.Join(log, " ")
			mu.Unlock()
			if err != nil || got != "A B T:AB" {
				c.Violationf("default-transport:wrong-calls", map[string]any{"scenario": id, "step": what}, "a SimpleHTTP with interceptors A, B is installed as http.DefaultTransport; %s: call log %q, error %v (want \"A B T:AB\", nil)", what, got, err)
				return false
			}
			return true
		}
		if !step("request through the SimpleHTTP's own client", sh.GetHTTPClient()) {
			return
		}
		if !step("request through a plain http.Client{} (Transport nil)", &http.Client{}) {
			return
		}
		for k := 1; k <= 3; k++ {
			sh.SetHTTPClient(&http.Client{})
			if !step(fmt.Sprintf("after SetHTTPClient(&http.Client{}) #%d, request through GetHTTPClient()", k), sh.GetHTTPClient()) {
				return
			}
			if !step(fmt.Sprintf("after SetHTTPClient(&http.Client{}) #%d, request through a plain http.Client{}", k), &http.Client{}) {
				return
			}
		}
	}}
}

func c18Concurrent(id string, goroutines, each int, seed int64) core.Scenario {
	return core.Scenario{ID: id, Class: "interceptor-chain.concurrent", Run: func(c *core.Ctx) {
		c.Eval(int64(goroutines * each))
		c.Distinct(id)
		var mu sync.Mutex
		logs := map[string][]string{}
		var inTransport, maxInTransport int
		tr := roundTripFunc(func(r *http.Request) (*http.Response, error) {
			mu.Lock()
			logs[r.URL.Path] = append(logs[r.URL.Path], "T")
			inTransport++
			if inTransport > maxInTransport {
				maxInTransport = inTransport
			}
			mu.Unlock()
			time.Sleep(time.Duration(200+seed%300) * time.Microsecond)
			mu.Lock()
			inTransport--
			mu.Unlock()
			return &http.Response{StatusCode: 200, Status: "200 OK", Proto: "HTTP/1.1", ProtoMajor: 1, ProtoMinor: 1, Header: http.Header{}, Body: io.NopCloser(strings.NewReader(`{"V":1}`)), Request: r}, nil
		})
		mk := func(idn int) *network.Interceptor {
			var f network.Interceptor = func(r *http.Request) error {
				mu.Lock()
				logs[r.URL.Path] = append(logs[r.URL.Path], fmt.Sprintf("I%d", idn))
				mu.Unlock()
				return nil
			}
			return &f
		}
		sh := network.NewSimpleHTTPWithClientAndInterceptors(&http.Client{Transport: tr}, mk(1), mk(2), mk(3))
		errs := map[string]error{}
		var wg sync.WaitGroup
		start := make(chan struct{})
		for g := 0; g < goroutines; g++ {
			wg.Add(1)
			go func(g int) {
				defer wg.Done()
				<-start
				for k := 0; k < each; k++ {
					path := fmt.Sprintf("/g%d/r%d", g, k)
					var err error
					if k%2 == 0 {
						err = sh.Get("http://example.test" + path).Err
					} else {
						err = sh.Post("http://example.test"+path, "text/plain", strings.NewReader("b")).Err
					}
					mu.Lock()
					errs[path] = err
					mu.Unlock()
				}
			}(g)
		}
		close(start)
		wg.Wait()
		mu.Lock()
		defer mu.Unlock()
		c.CountMax("max.requests_inside_the_transport_at_once", int64(maxInTransport))
		for g := 0; g < goroutines; g++ {
			for k := 0; k < each; k++ {
				path := fmt.Sprintf("/g%d/r%d", g, k)
				if got := strings.Join(logs[path], " "); got != "I1 I2 I3 T" || errs[path] != nil {
					c.Violationf("concurrent:wrong-calls", map[string]any{"scenario": id, "goroutines": goroutines}, "%d goroutines sending through one SimpleHTTP at the same time: request %s saw the calls [%s] and err=%v, want [I1 I2 I3 T] and nil", goroutines, path, got, errs[path])
					return
				}
			}
		}
	}}
}

type roundTripFunc func(*http.Request) (*http.Response, error)

func (f roundTripFunc) RoundTrip(r *http.Request) (*http.Response, error) { return f(r) }
