package props

import (
	"fmt"
	"math/rand"
	"runtime"
	"strings"
	"sync"
	"sync/atomic"
	"time"

	fpgo "github.com/TeaEntityLab/fpGo/v2"
	"github.com/TeaEntityLab/fpGo/v2/worker"

	"verifharness/internal/core"
	"verifharness/internal/director"
)

// C09 — WorkerPool: accepted job runs exactly once, <= max concurrent, panics isolated.
// The jobs are the monitor.

type c09Cfg struct {
	max, standby, batch int
	qcap, qbuf          int
	expiry, jam         time.Duration
}

func (g c09Cfg) String() string {
	return fmt.Sprintf("max=%d standby=%d batch=%d queue(cap=%d,buf=%d) expiry=%v jam=%v", g.max, g.standby, g.batch, g.qcap, g.qbuf, g.expiry, g.jam)
}

type c09Panic struct{ job int }

func c09Scenario(id string, g c09Cfg, pattern, fault, nJobs, directed int, seed int64) core.Scenario {
	return core.Scenario{ID: id, Class: "WorkerPool", Run: func(c *core.Ctx) {
		d := director.Get()
		d.Reset(seed)
		rep := map[string]any{"scenario": id, "config": g.String(), "jobs": nJobs,
			"pattern":  [...]string{"burst", "trickle", "concurrent submitters", "ScheduleWithTimeout on a full queue", "Invoke/InvokeWithTimeout", "burst then silence"}[pattern],
			"faults":   [...]string{"none", "first job panics", "last job panics", "every worker's current job panics", "PRNG panics and slow jobs", "one slow job per worker", "some jobs end their goroutine with runtime.Goexit", "some jobs fail with a run-time error (nil map write, index out of range, nil dereference)"}[fault],
			"directed": directed}
		q := fpgo.NewBufferedChannelQueue[func()](g.qcap, g.qbuf, 8)
		q.SetLoadFromPoolDuration(100 * time.Microsecond)
		var handlerMu sync.Mutex
		var handled []interface{}
		// the maximum is set FIRST: the other setters wake the (already running) spawn loop, which would otherwise
		// spawn workers under the default maximum of 1000 / standby of 5 before this scenario's limits are in place
		pool := worker.NewDefaultWorkerPool(q, nil).
			SetWorkerSizeMaximum(g.max).
			SetWorkerSizeStandBy(g.standby).
			SetWorkerBatchSize(g.batch).
			SetSpawnWorkerDuration(100 * time.Microsecond).
			SetWorkerExpiryDuration(g.expiry).
			SetWorkerJamDuration(g.jam).
			SetPanicHandler(func(p interface{}) {
				// handlers of different speed: instant, 2 ms, 5 ms (slower than the spawn loop's reaction)
				time.Sleep(time.Duration([...]int{0, 2, 5}[int(seed%3+3)%3]) * time.Millisecond)
				handlerMu.Lock()
				handled = append(handled, p)
				handlerMu.Unlock()
			})
		starts := make([]atomic.Int32, nJobs)
		accepted := make([]atomic.Bool, nJobs)
		decided := make([]atomic.Bool, nJobs)
		var cur, maxCur, over, started, finished atomic.Int32
		rng := rand.New(rand.NewSource(seed))
		panics := make([]bool, nJobs)
		slow := make([]int, nJobs)
		goexit := make([]bool, nJobs)
		rtErr := make([]int, nJobs) // 0 none, 1 nil map write, 2 index out of range, 3 nil dereference
		switch fault {
		case 1:
			panics[0] = true
		case 2:
			panics[nJobs-1] = true
		case 3:
			for i := 0; i < g.max && i < nJobs; i++ {
				panics[i] = true
			}
		case 4:
			for i := range panics {
				panics[i] = rng.Intn(4) == 0
				slow[i] = rng.Intn(3)
			}
		case 5:
			for i := 0; i < g.max && i < nJobs; i++ {
				slow[i] = 3
			}
		case 7:
			for i := range rtErr {
				if i == 0 || rng.Intn(4) == 0 {
					rtErr[i] = 1 + rng.Intn(3)
				}
			}
		case 6:
			// a job may end the goroutine it runs on (runtime.Goexit, what testing.T.FailNow does): not a panic, the
			// handler is not involved, and later accepted jobs must still run
			for i := range goexit {
				goexit[i] = i == 0 || rng.Intn(5) == 0
			}
		}
		mkJob := func(i int) func() {
			return func() {
				starts[i].Add(1)
				started.Add(1)
				n := cur.Add(1)
				for {
					m := maxCur.Load()
					if n <= m || maxCur.CompareAndSwap(m, n) {
						break
					}
				}
				if int(n) > g.max {
					over.Add(1)
				}
				for k := 0; k < slow[i]; k++ {
					time.Sleep(300 * time.Microsecond)
				}
				if i%3 == 0 {
					runtime.Gosched()
				}
				cur.Add(-1)
				finished.Add(1)
				if panics[i] {
					panic(c09Panic{i})
				}
				if goexit[i] {
					runtime.Goexit()
				}
				switch rtErr[i] {
				case 1:
					var m map[int]int
					m[i] = 1
				case 2:
					var l []int
					_ = l[i+1]
				case 3:
					var p *c09Cfg
					_ = p.max
				}
			}
		}
		// directed interleavings
		var gates []*director.Gate
		switch directed {
		case 1:
			gates = append(gates, d.Park("pool.worker.exit", 1))
		case 2:
			gates = append(gates, d.Park("pool.worker.expired", 1), d.Park("pool.worker.expired", 2))
		case 3:
			gates = append(gates, d.Park("pool.trySpawn.computed", 2))
		case 4:
			gates = append(gates, d.Park("pool.Schedule.offered", 1+int(seed%3)))
		}
		for gi, gt := range gates {
			gt := gt
			gi := gi
			go func() {
				if gt.WaitArrived(300 * time.Millisecond) {
					c.Count("directed.parks_reached", 1)
					time.Sleep(time.Duration(300+200*gi+int(seed%700)) * time.Microsecond)
				}
				gt.Release()
			}()
		}
		var wrongErr atomic.Value
		submit := func(i int, how int) {
			job := mkJob(i)
			var err error
			switch how {
			case 0:
				err = pool.Schedule(job)
			case 1:
				err = pool.ScheduleWithTimeout(job, 2*time.Millisecond)
			case 2:
				inv := worker.NewDefaultInvokable[int](pool, func(int) { job() })
				err = inv.InvokeWithTimeout(i, 2*time.Millisecond)
			}
			switch err {
			case nil:
				accepted[i].Store(true)
			case worker.ErrWorkerPoolJobQueueIsFull:
				if how != 0 {
					wrongErr.CompareAndSwap(nil, fmt.Sprintf("ScheduleWithTimeout/InvokeWithTimeout returned %v", err))
				}
			case worker.ErrWorkerPoolScheduleTimeout:
				if how == 0 {
					wrongErr.CompareAndSwap(nil, fmt.Sprintf("Schedule returned %v", err))
				}
			default:
				wrongErr.CompareAndSwap(nil, fmt.Sprintf("job %d: unexpected error %v from an open pool", i, err))
			}
			decided[i].Store(true)
		}
		var wg sync.WaitGroup
		switch pattern {
		case 0, 5: // burst
			for i := 0; i < nJobs; i++ {
				submit(i, 0)
			}
		case 1: // trickle
			for i := 0; i < nJobs; i++ {
				submit(i, 0)
				if i%2 == 0 {
					time.Sleep(time.Duration(50+rng.Intn(300)) * time.Microsecond)
				}
			}
		case 2: // concurrent submitters
			subs := 2 + int(seed%7)
			for s := 0; s < subs; s++ {
				wg.Add(1)
				go func(s int) {
					defer wg.Done()
					for i := s; i < nJobs; i += subs {
						submit(i, 0)
						if i%5 == 0 {
							runtime.Gosched()
						}
					}
				}(s)
			}
			wg.Wait()
		case 3: // timed scheduling against a (possibly) full queue
			for i := 0; i < nJobs; i++ {
				submit(i, 1)
			}
		case 4:
			for i := 0; i < nJobs; i++ {
				submit(i, 2)
			}
		}
		nAcc := int32(0)
		for i := range accepted {
			if accepted[i].Load() {
				nAcc++
			}
		}
		// every accepted job must start: bounded progress with the stuck detector. Progress = job starts and
		// worker lifecycle events (idle workers re-arming their expiry timer are not progress).
		allStarted := make(chan struct{})
		go func() {
			for started.Load() < nAcc {
				time.Sleep(100 * time.Microsecond)
			}
			close(allStarted)
		}()
		progress := func() int64 {
			return int64(started.Load()) + d.Count("pool.worker.exit") + d.Count("pool.worker.gotJob") + d.Count("pool.trySpawn.computed")
		}
		v, dump := core.AwaitOrStuck(allStarted, 3*time.Second, 120*time.Second, progress)
		c.Eval(int64(nJobs))
		c.Count("jobs.accepted", int64(nAcc))
		c.Count("jobs.rejected", int64(nJobs)-int64(nAcc))
		c.Distinct(id)
		c.DistinctHash(d.Signature())
		c.CountMax("max.concurrency_seen", int64(maxCur.Load()))
		if v == "stuck" {
			pend := nAcc - started.Load()
			c.Violationf("accepted-job-never-runs", map[string]any{"scenario": id, "config": g.String(), "goroutines": core.RepoGoroutineSummary(dump)},
				"%s: %d of %d accepted jobs never started although the pool stays open; no job started and no worker was spawned or exited for 3 s and no library goroutine can make progress (%s, %s)", g, pend, nAcc, rep["pattern"], rep["faults"])
			pool.Close()
			return
		}
		if v != "done" {
			c.Inconclusive("watchdog in " + id)
			pool.Close()
			return
		}
		// let running jobs finish and the panic handler report
		deadline := time.Now().Add(30 * time.Second)
		wantPanics := 0
		for i := range panics {
			if (panics[i] || rtErr[i] != 0) && accepted[i].Load() {
				wantPanics++
			}
		}
		for time.Now().Before(deadline) {
			handlerMu.Lock()
			nh := len(handled)
			handlerMu.Unlock()
			if finished.Load() >= nAcc && nh >= wantPanics {
				break
			}
			time.Sleep(100 * time.Microsecond)
		}
		time.Sleep(500 * time.Microsecond) // a duplicate start or handler call would show up now
		for i := range starts {
			n := starts[i].Load()
			switch {
			case accepted[i].Load() && n != 1:
				c.Violationf("accepted-job-started-"+map[bool]string{true: "twice", false: "never"}[n > 1], rep, "%s: accepted job %d started %d times", g, i, n)
			case !accepted[i].Load() && n != 0:
				c.Violationf("rejected-job-ran", rep, "%s: job %d was rejected but started %d times", g, i, n)
			}
		}
		if over.Load() > 0 {
			c.Violationf("more-than-max-concurrent", rep, "%s: %d jobs were running at the same time (workerSizeMaximum=%d)", g, maxCur.Load(), g.max)
		}
		if w := wrongErr.Load(); w != nil {
			c.Violationf("wrong-error", rep, "%s: %v", g, w)
		}
		handlerMu.Lock()
		rtSeen := 0
		seen := map[int]int{}
		for _, h := range handled {
			p, ok := h.(c09Panic)
			if _, isRT := h.(runtime.Error); !ok && isRT && fault == 7 {
				rtSeen++
				continue
			}
			if !ok {
				c.Violationf("panic-handler:foreign-panic", rep, "%s: the panic handler was invoked with %v, which is not a job's own panic", g, h)
				continue
			}
			seen[p.job]++
		}
		handlerMu.Unlock()
		for i := range panics {
			if panics[i] && accepted[i].Load() && seen[i] != 1 {
				c.Violationf("panic-handler:count", rep, "%s: the panic of job %d was reported %d times", g, i, seen[i])
			}
		}
		if fault == 7 && rtSeen != wantPanics {
			c.Violationf("panic-handler:count", rep, "%s: %d accepted jobs failed with a run-time error, the panic handler was told %d times", g, wantPanics, rtSeen)
		}
		pool.Close()
		// a closed pool reports it and never runs the job
		var ranAfterClose atomic.Int32
		if err := pool.Schedule(func() { ranAfterClose.Add(1) }); err != worker.ErrWorkerPoolIsClosed {
			c.Violationf("closed:wrong-error", rep, "Schedule on a closed pool returned %v", err)
		}
		for _, to := range []time.Duration{time.Millisecond, 0, -time.Second} {
			if err := pool.ScheduleWithTimeout(func() { ranAfterClose.Add(1) }, to); err != worker.ErrWorkerPoolIsClosed {
				c.Violationf("closed:wrong-error", rep, "ScheduleWithTimeout(%v) on a closed pool returned %v", to, err)
			}
			if err := worker.NewDefaultInvokable[int](pool, func(int) { ranAfterClose.Add(1) }).InvokeWithTimeout(1, to); err != worker.ErrWorkerPoolIsClosed {
				c.Violationf("closed:wrong-error", rep, "InvokeWithTimeout(%v) on a closed pool returned %v", to, err)
			}
		}
		time.Sleep(300 * time.Microsecond)
		if ranAfterClose.Load() != 0 {
			c.Violationf("closed:job-ran", rep, "a job scheduled on a closed pool was run")
		}
		if c.WantSample() {
			c.Sample(rep)
		}
	}}
}

// a full queue yields ErrWorkerPoolJobQueueIsFull / ErrWorkerPoolScheduleTimeout (workers held busy by gated jobs)
func c09FullScenario(id string, qcap, qbuf int, seed int64) core.Scenario {
	return core.Scenario{ID: id, Class: "WorkerPool.full", Run: func(c *core.Ctx) {
		rep := map[string]any{"scenario": id, "queue_capacity": qcap, "queue_buffer": qbuf}
		c.Eval(1)
		c.Distinct(id)
		q := fpgo.NewBufferedChannelQueue[func()](qcap, qbuf, 8)
		q.SetLoadFromPoolDuration(100 * time.Microsecond)
		pool := worker.NewDefaultWorkerPool(q, nil).SetWorkerSizeMaximum(1).SetWorkerSizeStandBy(1).SetWorkerBatchSize(0).
			SetSpawnWorkerDuration(100 * time.Microsecond).SetWorkerExpiryDuration(5 * time.Millisecond).SetPanicHandler(func(interface{}) {})
		gate := make(chan struct{})
		var running, ran atomic.Int32
		blocker := func() { running.Add(1); <-gate; ran.Add(1) }
		if err := pool.Schedule(blocker); err != nil {
			c.Violationf("full:first-job-rejected", rep, "Schedule on an empty pool returned %v", err)
			close(gate)
			pool.Close()
			return
		}
		deadline := time.Now().Add(20 * time.Second)
		for running.Load() == 0 && time.Now().Before(deadline) {
			time.Sleep(50 * time.Microsecond)
		}
		// the single worker is busy: the queue takes exactly cap+buf more jobs
		acc := 0
		var firstErr error
		for i := 0; i < qcap+qbuf+3; i++ {
			err := pool.Schedule(func() { ran.Add(1) })
			if err == nil {
				acc++
			} else if firstErr == nil {
				firstErr = err
			}
		}
		if acc > qcap+qbuf {
			c.Violationf("full:more-accepted-than-capacity", rep, "%d jobs were accepted while the only worker is busy; the queue holds at most %d", acc, qcap+qbuf)
		}
		if firstErr != worker.ErrWorkerPoolJobQueueIsFull {
			c.Violationf("full:wrong-error", rep, "a full job queue yields %v, want ErrWorkerPoolJobQueueIsFull", firstErr)
		}
		if err := pool.ScheduleWithTimeout(func() { ran.Add(1) }, 3*time.Millisecond); err != worker.ErrWorkerPoolScheduleTimeout {
			// the queue may have drained one slot only if the worker finished: it is gated, so it cannot
			c.Violationf("full:wrong-timeout-error", rep, "ScheduleWithTimeout against a full queue returned %v, want ErrWorkerPoolScheduleTimeout", err)
		}
		// boundary timeouts ("do not wait") on the full queue, through both entry points: success must mean accepted
		for k, to := range []time.Duration{0, -time.Millisecond, -time.Hour, time.Nanosecond} {
			var e1, e2 error
			e1 = pool.ScheduleWithTimeout(func() { ran.Add(1) }, to)
			e2 = worker.NewDefaultInvokable[int](pool, func(int) { ran.Add(1) }).InvokeWithTimeout(k, to)
			for _, err := range []error{e1, e2} {
				if err == nil {
					acc++ // reported success: the job must run exactly once (checked below through the total)
				} else if err != worker.ErrWorkerPoolScheduleTimeout && err != worker.ErrWorkerPoolJobQueueIsFull {
					c.Violationf("full:wrong-timeout-error", rep, "ScheduleWithTimeout / InvokeWithTimeout(timeout %v) against a full queue returned %v", to, err)
				}
			}
		}
		// a pool that keeps its job queue open on Close must still refuse new jobs
		{
			q2 := fpgo.NewBufferedChannelQueue[func()](2, 2, 4)
			p2 := worker.NewDefaultWorkerPool(q2, nil).SetSpawnWorkerDuration(100 * time.Microsecond).SetWorkerSizeMaximum(1).SetWorkerSizeStandBy(1).
				SetIsJobQueueClosedWhenClose(false).SetPanicHandler(func(interface{}) {})
			p2.Close()
			var ran2 atomic.Int32
			if err := p2.Schedule(func() { ran2.Add(1) }); err != worker.ErrWorkerPoolIsClosed {
				c.Violationf("closed:wrong-error", rep, "Schedule on a closed pool (job queue kept open) returned %v", err)
			}
			for _, to := range []time.Duration{0, -time.Millisecond, time.Millisecond} {
				if err := p2.ScheduleWithTimeout(func() { ran2.Add(1) }, to); err != worker.ErrWorkerPoolIsClosed {
					c.Violationf("closed:wrong-error", rep, "ScheduleWithTimeout(%v) on a closed pool (job queue kept open) returned %v", to, err)
				}
				if err := worker.NewDefaultInvokable[int](p2, func(int) { ran2.Add(1) }).InvokeWithTimeout(1, to); err != worker.ErrWorkerPoolIsClosed {
					c.Violationf("closed:wrong-error", rep, "InvokeWithTimeout(%v) on a closed pool (job queue kept open) returned %v", to, err)
				}
			}
			time.Sleep(time.Millisecond)
			if ran2.Load() != 0 {
				c.Violationf("closed:job-ran", rep, "a job scheduled on a closed pool (job queue kept open) was run")
			}
			q2.Close()
		}
		close(gate)
		want := int32(1 + acc)
		for ran.Load() < want && time.Now().Before(deadline) {
			time.Sleep(100 * time.Microsecond)
		}
		time.Sleep(300 * time.Microsecond)
		if ran.Load() != want {
			c.Violationf("full:accepted-count-vs-ran", rep, "%d jobs ran, %d were accepted (rejected jobs must never run, accepted ones exactly once)", ran.Load(), want)
		}
		pool.Close()
	}}
}

// two pools on ONE job queue: pool A (job queue kept open on Close) is closed while its stand-by workers wait for
// jobs; pool B, left open, then accepts jobs on the same queue. Every job B accepted runs exactly once, whichever
// worker dequeues it.
func c09SharedQueue(id string, standbyA, nJobs int, closeAFirst bool, seed int64) core.Scenario {
	return core.Scenario{ID: id, Class: "WorkerPool.shared", Run: func(c *core.Ctx) {
		rep := map[string]any{"scenario": id, "standby_of_closed_pool": standbyA, "jobs": nJobs}
		c.Eval(int64(nJobs))
		c.Distinct(id)
		q := fpgo.NewBufferedChannelQueue[func()](4, 64, 8)
		q.SetLoadFromPoolDuration(100 * time.Microsecond)
		mk := func(standby int) *worker.DefaultWorkerPool {
			return worker.NewDefaultWorkerPool(q, nil).SetWorkerSizeMaximum(4).SetWorkerSizeStandBy(standby).SetWorkerBatchSize(1).
				SetSpawnWorkerDuration(100 * time.Microsecond).SetWorkerExpiryDuration(10 * time.Second).
				SetIsJobQueueClosedWhenClose(false).SetPanicHandler(func(interface{}) {})
		}
		a := mk(standbyA)
		var warm atomic.Int32
		for i := 0; i < standbyA*2; i++ {
			a.Schedule(func() { warm.Add(1); time.Sleep(200 * time.Microsecond) })
		}
		deadline := time.Now().Add(20 * time.Second)
		for int(warm.Load()) < standbyA*2 && time.Now().Before(deadline) {
			time.Sleep(100 * time.Microsecond)
		}
		time.Sleep(time.Duration(seed%5) * 300 * time.Microsecond)
		var b *worker.DefaultWorkerPool
		if closeAFirst {
			a.Close()
			b = mk(1)
		} else {
			b = mk(1)
			a.Close()
		}
		starts := make([]atomic.Int32, nJobs)
		var started atomic.Int32
		nAcc := int32(0)
		acc := make([]bool, nJobs)
		for i := 0; i < nJobs; i++ {
			i := i
			if err := b.Schedule(func() { starts[i].Add(1); started.Add(1) }); err == nil {
				acc[i] = true
				nAcc++
			}
		}
		all := make(chan struct{})
		go func() {
			for started.Load() < nAcc {
				time.Sleep(100 * time.Microsecond)
			}
			close(all)
		}()
		d := director.Get()
		v, dump := core.AwaitOrStuck(all, 3*time.Second, 60*time.Second, func() int64 {
			return int64(started.Load()) + d.Count("pool.worker.exit") + d.Count("pool.worker.gotJob") + d.Count("pool.trySpawn.computed")
		})
		if v == "stuck" {
			c.Violationf("accepted-job-never-runs", map[string]any{"scenario": id, "goroutines": core.RepoGoroutineSummary(dump)},
				"two pools on one job queue, the first closed with its job queue kept open: %d of %d jobs accepted by the open pool never started", nAcc-started.Load(), nAcc)
		} else if v != "done" {
			c.Inconclusive("watchdog in " + id)
		} else {
			time.Sleep(500 * time.Microsecond)
			for i := range starts {
				if n := starts[i].Load(); acc[i] && n != 1 {
					c.Violationf("accepted-job-started-"+map[bool]string{true: "twice", false: "never"}[n > 1], rep, "shared job queue: accepted job %d started %d times", i, n)
				}
			}
		}
		b.Close()
		q.Close()
	}}
}

func c09Scenarios(c *core.Ctx, race bool) []core.Scenario {
	var out []core.Scenario
	for i := 0; i < c.Pick(6, 24); i++ {
		out = append(out, c09SharedQueue(fmt.Sprintf("shared-queue-%d-race%v", i, race), 1+i%3, 10+i, i%2 == 0, c.Seed*3+int64(i)))
	}
	var cfgs []c09Cfg
	for max := 1; max <= 4; max++ {
		for _, standby := range []int{1, max} {
			for _, batch := range []int{0, 1, 3} {
				for _, qb := range [][2]int{{1, 0}, {2, 3}, {3, 8}} {
					for _, ex := range []time.Duration{2 * time.Millisecond, 20 * time.Millisecond} {
						jam := time.Millisecond
						if (max+batch)%2 == 0 {
							jam = 50 * time.Millisecond
						}
						cfgs = append(cfgs, c09Cfg{max, standby, batch, qb[0], qb[1], ex, jam})
					}
				}
			}
		}
		// stand-by size above the maximum (the maximum wins), configured maximum-first
		cfgs = append(cfgs, c09Cfg{max, max + 1, 1, 2, 4, 2 * time.Millisecond, time.Millisecond}, c09Cfg{max, max + 3, 0, 3, 8, 20 * time.Millisecond, 50 * time.Millisecond})
		// standby 0 with a batch size and an idle expiry longer than the run
		cfgs = append(cfgs, c09Cfg{max, 0, 1, 2, 4, 10 * time.Second, time.Millisecond}, c09Cfg{max, 0, 2, 1, 8, 10 * time.Second, 50 * time.Millisecond})
	}
	rng := c.Rng("c09")
	ncfg := c.Pick(40, 104)
	if race {
		ncfg = c.Pick(6, 24)
	}
	picked := map[int]bool{}
	for len(picked) < ncfg && len(picked) < len(cfgs) {
		picked[rng.Intn(len(cfgs))] = true
	}
	// always include the smallest pool (max 1, standby 1), where a lost wake-up cannot be masked by other workers
	picked[0] = true
	// and the stand-by 0 pools of maximum 1 and 2 (a worker that leaves is not replaced unless the spawn loop is told)
	for ci, g := range cfgs {
		if g.standby == 0 && g.max <= 2 {
			picked[ci] = true
		}
		if g.standby > g.max && g.max <= 2 {
			picked[ci] = true
		}
	}
	seeds := c.Pick(3, 8)
	for ci := range cfgs {
		if !picked[ci] {
			continue
		}
		g := cfgs[ci]
		for pattern := 0; pattern < 6; pattern++ {
			for _, fault := range []int{(pattern + ci) % 8, (pattern + ci + 3) % 8} {
				for s := 0; s < seeds; s++ {
					n := 20 + rng.Intn(100)
					if race {
						n = 20 + rng.Intn(30)
					}
					out = append(out, c09Scenario(fmt.Sprintf("pool-c%d-p%d-f%d-s%d-race%v", ci, pattern, fault, s, race), g, pattern, fault, n, 0, c.Seed*43+int64(ci*100+pattern*10+fault+s*7)))
				}
			}
		}
		if !race {
			for dir := 1; dir <= 4; dir++ {
				for s := 0; s < c.Pick(1, 5); s++ {
					out = append(out, c09Scenario(fmt.Sprintf("pool-directed%d-c%d-s%d", dir, ci, s), g, 5, []int{3, 0, 4, 1}[dir-1], 30, dir, c.Seed*47+int64(ci*10+dir+s*13)))
				}
			}
		}
	}
	if !race {
		for _, qb := range [][2]int{{1, 0}, {1, 2}, {3, 0}, {2, 5}} {
			out = append(out, c09FullScenario(fmt.Sprintf("full-%d-%d", qb[0], qb[1]), qb[0], qb[1], c.Seed))
		}
	}
	return out
}

func init() {
	core.Register(&core.Check{
		ID: "C09",
		Meta: func(c *core.Ctx) core.Meta {
			return core.Meta{
				Level: "exploration",
				Rule: "pool configurations workerSizeMaximum 1..4 x standby {1,max,max+1,max+3} (and standby 0 with batch >= 1 and a 10 s idle expiry) x batch {0,1,3} x job queue (cap,buf) in {(1,0),(2,3),(3,8)} x expiry {2,20 ms} x jam {1,50 ms} (quick: 24 of them incl. the max-1 pool, thorough: all 104 x 8 seeds) x 6 submission patterns (burst, trickle, 2..8 concurrent submitters, ScheduleWithTimeout, InvokeWithTimeout, burst then silence) x 2 fault placements each (first / last / every worker's current job panics, PRNG panics + slow jobs, slow jobs, jobs that end their goroutine with runtime.Goexit, jobs that fail with run-time errors) plus directed runs that park a dying worker, two expiring workers, the spawn loop after its computation and Schedule before its wake-up; the jobs are the monitor (atomic start counters per unique job, concurrency gauge asserted at every start, unique panic values); the panic handler logs what it gets and is instant, 2 ms or 5 ms slow; two pools sharing one job queue (the first closed with its queue kept open while its stand-by workers wait, the second accepts jobs afterwards); " +
					"after submission the driver waits until every accepted job started or the stuck detector fires (no job start and no worker lifecycle event for 3 s and no library goroutine able to progress); dedicated scenarios hold the only worker busy to check Full / ScheduleTimeout / closed errors exactly. distinct_nontrivial = distinct scenarios + hook-trace signatures",
				Assumptions: []string{"exactly-once only while the pool is left open; configurations restricted to the property's quantifier (max >= 1, queue capacity >= 1, standby >= 1 or the standby-0 variant)",
					"idle workers re-arming their expiry timer are not counted as progress", "workerSizeMaximum is configured before any other setter wakes the spawn loop (the bound is only asserted while the maximum is not being changed)", "the race detector is advisory for worker/pool.go (pre-existing unsynchronised statistics counters), reports are recorded but do not decide"},
			}
		},
		Scenarios: c09Scenarios,
		Batch:     12, RaceToo: true, RaceBatch: 12, Par: 8, Timeout: 400e9,
		RaceRelevant: func(s core.RaceSig) bool {
			// advisory only: the pool's counters (workerCount / workerBusy / lastAliveTime / settings) are read without
			// synchronisation in the baseline; only races outside worker/pool.go would decide
			return !strings.Contains(s.Text, "worker/pool.go") && !strings.Contains(s.Text, "worker.(*DefaultWorkerPool)")
		},
	})
}
