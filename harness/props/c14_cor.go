package props

import (
	"fmt"
	"runtime"
	"strings"
	"sync"
	"sync/atomic"
	"time"

	fpgo "github.com/TeaEntityLab/fpGo/v2"

	"verifharness/internal/core"
	"verifharness/internal/director"
)

// C14 — coroutines pair every YieldFrom with the matching YieldRef, in order, per caller.

type c14Step struct{ x, y int64 }

func c14Scenario(id string, callers int, reqs []int, shape int, startWithVal bool, seed int64) core.Scenario {
	return core.Scenario{ID: id, Class: "Cor.pairing", Run: func(c *core.Ctx) {
		d := director.Get()
		d.Reset(seed)
		d.Yield(int(seed%4), "cor.YieldRef.taken", "cor.YieldFrom.sent", "cor.doCloseSafe.checked")
		rep := map[string]any{"scenario": id, "callers": callers, "requests": fmt.Sprint(reqs), "generator_shape": [...]string{"fixed sequence", "echo of the previous x", "running accumulate"}[shape], "start_with_val": startWithVal}
		total := 0
		for _, n := range reqs {
			total += n
		}
		c.Eval(int64(total))
		c.Distinct(id)
		var wg sync.WaitGroup
		var targetLog []c14Step // goroutine-local to the target until wg.Wait
		var flagsInside [2]bool
		var target *fpgo.CorDef[int64]
		const startVal = int64(-424242)
		var firstX int64
		wg.Add(1)
		// with 6 or more callers, every other scenario holds the target back until all callers have handed over (or block
		// in the hand-over: the request channel has room for 5)
		hold := make(chan struct{})
		holding := callers >= 6 && !startWithVal && seed%2 == 0
		if !holding {
			close(hold)
		}
		target = fpgo.CorNewGenerics[int64](func() {
			defer wg.Done()
			flagsInside = [2]bool{target.IsStarted(), target.IsDone()}
			<-hold
			var prevX, acc int64
			if startWithVal {
				firstX = target.YieldRef(-1) // consumes the StartWithVal value; its y has no recipient by design
			}
			for k := 1; k <= total; k++ {
				var y int64
				switch shape {
				case 0:
					y = 7000000 + int64(k)
				case 1:
					y = prevX*3 + int64(k)*1000003
				default:
					acc += prevX + int64(k)
					y = acc*2 + 1
				}
				x := target.YieldRef(y)
				targetLog = append(targetLog, c14Step{x, y})
				prevX = x
			}
		})
		callerGot := make([][]int64, callers)
		cors := make([]*fpgo.CorDef[int64], callers)
		for ci := 0; ci < callers; ci++ {
			ci := ci
			wg.Add(1)
			cors[ci] = fpgo.CorNewGenerics[int64](func() {
				defer wg.Done()
				if startWithVal {
					// the callers are started BEFORE StartWithVal is called and go ahead as soon as the target
					// reports IsStarted(): the initial value must still be the first thing the target takes
					for !target.IsStarted() {
						runtime.Gosched()
					}
				}
				for i := 1; i <= reqs[ci]; i++ {
					y := cors[ci].YieldFrom(target, int64(ci+1)<<32|int64(i))
					callerGot[ci] = append(callerGot[ci], y)
				}
			})
		}
		if startWithVal {
			for _, co := range cors {
				co.Start()
			}
			runtime.Gosched()
			target.StartWithVal(startVal)
		} else {
			target.Start()
			for _, co := range cors {
				co.Start()
			}
			if holding {
				time.Sleep(time.Duration(300+seed%5*200) * time.Microsecond)
				c.Count("scenarios_with_full_request_channel", 1)
				close(hold)
			}
		}
		joined := make(chan struct{})
		go func() { wg.Wait(); close(joined) }()
		v, dump := core.AwaitOrStuck(joined, 2*time.Second, 60*time.Second, d.Total)
		if v == "stuck" {
			c.Violationf("pairing:stuck", map[string]any{"scenario": id, "goroutines": core.RepoGoroutineSummary(dump)}, "callers=%d requests=%v: the coroutines never finished although the target serves exactly the total number of requests", callers, reqs)
			return
		}
		if v != "done" {
			c.Inconclusive("watchdog in " + id)
			return
		}
		c.DistinctHash(d.Signature())
		if startWithVal && firstX != startVal {
			c.Violationf("StartWithVal:first-YieldRef", rep, "the first YieldRef returned %d, StartWithVal passed %d", firstX, startVal)
		}
		if !flagsInside[0] || flagsInside[1] {
			c.Violationf("flags:inside-effect", rep, "inside the effect IsStarted=%v IsDone=%v, want true/false", flagsInside[0], flagsInside[1])
		}
		// pairing
		pos := map[int64]int{}
		for k, st := range targetLog {
			if _, dup := pos[st.x]; dup {
				c.Violationf("pairing:x-duplicated", rep, "the target received request x=(caller %d, #%d) twice", st.x>>32, st.x&0xffffffff)
				return
			}
			pos[st.x] = k
		}
		for ci := 0; ci < callers; ci++ {
			if len(callerGot[ci]) != reqs[ci] {
				c.Violationf("pairing:caller-count", rep, "caller %d got %d answers for %d requests", ci, len(callerGot[ci]), reqs[ci])
				continue
			}
			last := -1
			for i := 1; i <= reqs[ci]; i++ {
				x := int64(ci+1)<<32 | int64(i)
				k, ok := pos[x]
				if !ok {
					c.Violationf("pairing:x-lost", rep, "request (caller %d, #%d) never reached a YieldRef of the target", ci, i)
					return
				}
				if k < last {
					c.Violationf("pairing:per-caller-order", rep, "caller %d: request #%d was taken by the target before its request #%d", ci, i, i-1)
				}
				last = k
				if got := callerGot[ci][i-1]; got != targetLog[k].y {
					c.Violationf("pairing:misrouted-y", rep, "caller %d request #%d was taken as the target's step %d which yielded %d, but the caller received %d", ci, i, k+1, targetLog[k].y, got)
					return
				}
			}
		}
		if len(targetLog) != total {
			c.Violationf("pairing:target-count", rep, "the target completed %d YieldRefs, want %d", len(targetLog), total)
		}
		// IsDone becomes true after the effect returned
		deadline := time.Now().Add(20 * time.Second)
		for !target.IsDone() && time.Now().Before(deadline) {
			time.Sleep(100 * time.Microsecond)
		}
		if !target.IsDone() || !target.IsStarted() {
			c.Violationf("flags:after-effect", rep, "after the effect returned IsDone=%v IsStarted=%v", target.IsDone(), target.IsStarted())
		}
		if c.WantSample() {
			c.Sample(rep)
		}
	}}
}

// callers that make their first YieldFrom BEFORE the target is started (more of them than the request channel holds):
// Start returns, IsStarted becomes true, every request is served
func c14EarlyCallers(id string, callers int, seed int64) core.Scenario {
	return core.Scenario{ID: id, Class: "Cor.early-callers", Run: func(c *core.Ctx) {
		c.Eval(int64(callers))
		c.Distinct(id)
		var target *fpgo.CorDef[int64]
		var tlog []int64
		tdone := make(chan struct{})
		target = fpgo.CorNewGenerics[int64](func() {
			defer close(tdone)
			for k := 0; k < callers; k++ {
				tlog = append(tlog, target.YieldRef(int64(1000+k)))
			}
		})
		got := make([]int64, callers)
		var wg sync.WaitGroup
		for ci := 0; ci < callers; ci++ {
			ci := ci
			wg.Add(1)
			var co *fpgo.CorDef[int64]
			co = fpgo.CorNewGenerics[int64](func() {
				defer wg.Done()
				got[ci] = co.YieldFrom(target, int64(ci+1))
			})
			co.Start()
		}
		time.Sleep(time.Duration(500+seed%5*300) * time.Microsecond) // the callers queue up (5 fit, the others wait for room)
		started := make(chan struct{})
		go func() { defer close(started); target.Start() }()
		all := make(chan struct{})
		go func() { <-started; wg.Wait(); <-tdone; close(all) }()
		v, dump := core.AwaitOrStuck(all, 2*time.Second, 60*time.Second, director.Get().Total)
		rep := map[string]any{"scenario": id, "callers_before_start": callers}
		if v == "stuck" {
			c.Violationf("early-callers:stuck", map[string]any{"scenario": id, "goroutines": core.RepoGoroutineSummary(dump)}, "%d callers made their first YieldFrom before the target was started; Start() / the requests never complete (IsStarted=%v)", callers, target.IsStarted())
			return
		}
		if v != "done" {
			c.Inconclusive("watchdog in " + id)
			return
		}
		seenX := map[int64]bool{}
		for _, x := range tlog {
			seenX[x] = true
		}
		seenY := map[int64]bool{}
		for _, y := range got {
			seenY[y] = true
		}
		if len(seenX) != callers || len(seenY) != callers || !target.IsStarted() {
			c.Violationf("early-callers:pairing", rep, "%d early callers: the target saw x values %v, the callers received %v", callers, tlog, got)
		}
	}}
}

// volume: a few callers, hundreds of thousands of requests against an echoing target. Every x the target sees is the x of
// the request it is answering (each caller's x values arrive in order, none twice, none missing)
func c14Volume(id string, callers, each int, seed int64) core.Scenario {
	return core.Scenario{ID: id, Class: "Cor.volume", Run: func(c *core.Ctx) {
		c.Eval(int64(callers * each))
		c.Distinct(id)
		total := callers * each
		var target *fpgo.CorDef[int64]
		lastSeen := make([]int64, callers+1)
		var bad string
		tdone := make(chan struct{})
		target = fpgo.CorNewGenerics[int64](func() {
			defer close(tdone)
			prev := int64(0)
			for k := 0; k < total; k++ {
				x := target.YieldRef(prev) // echo: the answer to request k is the x of request k-1
				ci, seq := x>>32, x&0xffffffff
				if ci < 1 || int(ci) > callers || seq != lastSeen[ci]+1 {
					if bad == "" {
						bad = fmt.Sprintf("the target's YieldRef #%d returned x=(caller %d, #%d); the previous request of that caller was #%d", k, ci, seq, lastSeen[ci%int64(callers+1)])
					}
				} else {
					lastSeen[ci] = seq
				}
				prev = x
			}
		})
		target.Start()
		var wg sync.WaitGroup
		for ci := 1; ci <= callers; ci++ {
			ci := ci
			wg.Add(1)
			var co *fpgo.CorDef[int64]
			co = fpgo.CorNewGenerics[int64](func() {
				defer wg.Done()
				for i := 1; i <= each; i++ {
					co.YieldFrom(target, int64(ci)<<32|int64(i))
				}
			})
			co.Start()
		}
		all := make(chan struct{})
		go func() { wg.Wait(); <-tdone; close(all) }()
		v, dump := core.AwaitOrStuck(all, 3*time.Second, 120*time.Second, director.Get().Total)
		if v == "stuck" {
			c.Violationf("pairing:stuck", map[string]any{"scenario": id, "goroutines": core.RepoGoroutineSummary(dump)}, "%d callers x %d requests against an echoing target never finished", callers, each)
			return
		}
		if v != "done" {
			c.Inconclusive("watchdog in " + id)
			return
		}
		if bad != "" {
			c.Violationf("pairing:x-of-another-request", map[string]any{"scenario": id, "callers": callers, "requests_each": each}, "%s", bad)
		}
	}}
}

func c14MiscScenario(id string, seed int64) core.Scenario {
	return core.Scenario{ID: id, Class: "Cor.misc", Run: func(c *core.Ctx) {
		c.Eval(4)
		c.Distinct(id)
		rep := map[string]any{"scenario": id}
		// DoNotation returns the effect's result; YieldFromIO returns the IO's value and runs its effect once
		effects := 0
		h := fpgo.Handler.New()
		defer h.Close()
		var gen *fpgo.CorDef[interface{}]
		gen = fpgo.Cor.New(func() {
			for k := 0; k < 3; k++ {
				gen.YieldRef(100 + k)
			}
		})
		gen.Start() // (NewAndStart would race with the assignment of gen above: a property of this usage pattern, not of the library)
		done := make(chan interface{}, 1)
		go func() {
			done <- fpgo.Cor.DoNotation(func(self *fpgo.CorDef[interface{}]) interface{} {
				a := self.YieldFromIO(fpgo.MonadIO.New(func() interface{} { effects++; return 5 }).ObserveOn(h))
				b := self.YieldFrom(gen, nil)
				cc := self.YieldFrom(gen, nil)
				return []interface{}{a, b, cc, self.IsStarted(), self.IsDone()}
			})
		}()
		select {
		case r := <-done:
			if fmt.Sprint(r) != "[5 100 101 true false]" || effects != 1 {
				c.Violationf("DoNotation/YieldFromIO", rep, "DoNotation returned %v after %d IO effects, want [5 100 101 true false] after 1", r, effects)
			}
		case <-time.After(30 * time.Second):
			gs, dump := core.Dump()
			if len(core.ActiveRepoGoroutines(gs)) == 0 {
				c.Violationf("DoNotation:stuck", map[string]any{"goroutines": core.RepoGoroutineSummary(dump)}, "DoNotation never returned")
			} else {
				c.Inconclusive("watchdog in " + id)
			}
		}
		// an IO whose effect itself asks a generator through the evaluating coroutine (YieldFrom inside YieldFromIO), run
		// inline or on a Handler: YieldFromIO returns the IO's value, the generator's answers go to the YieldFrom calls
		for round := 0; round < 40; round++ {
			useHandler := round%2 == 0
			var gen2 *fpgo.CorDef[interface{}]
			gen2 = fpgo.Cor.New(func() {
				for k := 1; k <= 3; k++ {
					gen2.YieldRef(k)
				}
			})
			gen2.Start()
			done2 := make(chan interface{}, 1)
			go func() {
				done2 <- fpgo.Cor.DoNotation(func(self *fpgo.CorDef[interface{}]) interface{} {
					io := fpgo.MonadIO.New(func() interface{} { return self.YieldFrom(gen2, nil).(int) + 1000 })
					if useHandler {
						io = io.ObserveOn(h)
					}
					a := self.YieldFromIO(io)
					b := self.YieldFrom(gen2, nil)
					cc := self.YieldFrom(gen2, nil)
					return []interface{}{a, b, cc}
				})
			}()
			select {
			case r := <-done2:
				if fmt.Sprint(r) != "[1001 2 3]" {
					c.Violationf("YieldFromIO:effect-using-YieldFrom", rep, "YieldFromIO of an IO whose effect returns YieldFrom(gen)+1000 (effect on a Handler: %v), followed by two YieldFrom(gen): got %v, want [1001 2 3]", useHandler, r)
					round = 1000
				}
			case <-time.After(30 * time.Second):
				gs, dump := core.Dump()
				if len(core.ActiveRepoGoroutines(gs)) == 0 {
					c.Violationf("YieldFromIO:stuck", map[string]any{"goroutines": core.RepoGoroutineSummary(dump)}, "YieldFromIO of an IO whose effect uses YieldFrom never returned (effect on a Handler: %v)", useHandler)
				} else {
					c.Inconclusive("watchdog in " + id)
				}
				round = 1000
			}
		}
		// Start is idempotent also when the second call follows at once (a "start everything" loop): ONE instance of the
		// effect runs, a single caller gets y1..yn in order, StartWithVal's value reaches the first YieldRef
		for round := 0; round < 400; round++ {
			var instances atomic.Int32
			var gen3 *fpgo.CorDef[int64]
			withVal := round%2 == 1
			hold := make(chan struct{})
			var first int64 = -1
			gen3 = fpgo.CorNewGenerics[int64](func() {
				instances.Add(1)
				if withVal {
					first = gen3.YieldRef(-5)
				}
				for k := int64(1); k <= 4; k++ {
					gen3.YieldRef(k)
				}
				<-hold // never returns before the verdict: two instances must not race their close()
			})
			if withVal {
				gen3.StartWithVal(1000)
			} else {
				gen3.Start()
			}
			gen3.Start()
			if round%4 >= 2 {
				gen3.Start()
			}
			got := make(chan []int64, 1)
			var caller *fpgo.CorDef[int64]
			caller = fpgo.CorNewGenerics[int64](func() {
				var ys []int64
				for k := 0; k < 4; k++ {
					ys = append(ys, caller.YieldFrom(gen3, int64(10+k)))
				}
				got <- ys
			})
			caller.Start()
			var ys []int64
			select {
			case ys = <-got:
			case <-time.After(20 * time.Second):
				c.Inconclusive("double-start round did not finish in " + id)
			}
			n := instances.Load()
			close(hold)
			if ys == nil {
				break
			}
			if n != 1 || !eqSeq(ys, []int64{1, 2, 3, 4}) || (withVal && first != 1000) {
				c.Violationf("Start:effect-ran-again", rep, "Start()%s followed at once by Start(): %d instances of the effect ran, the single caller received %v (want [1 2 3 4]), first YieldRef got %d", map[bool]string{true: " after StartWithVal(1000)", false: ""}[withVal], n, ys, first)
				break
			}
		}
		// Start twice / StartWithVal after Start are ignored; a never-started coroutine reports neither flag
		idle := fpgo.CorNewGenerics[int](func() {})
		if idle.IsStarted() || idle.IsDone() {
			c.Violationf("flags:never-started", rep, "a new coroutine reports IsStarted=%v IsDone=%v", idle.IsStarted(), idle.IsDone())
		}
		runs := 0
		var wg sync.WaitGroup
		wg.Add(1)
		once := fpgo.CorNewGenerics[int](func() { runs++; wg.Done() })
		once.Start()
		wg.Wait()
		once.Start()
		once.StartWithVal(3)
		time.Sleep(time.Millisecond)
		if runs != 1 {
			c.Violationf("Start:effect-ran-again", rep, "the effect ran %d times after repeated Start calls", runs)
		}
	}}
}

// c14IOShapes: YieldFromIO returns the IO's value for every way the MonadIO was configured by its owner: plain,
// ObserveOn(h), SubscribeOn(h), both on ONE unbuffered handler (a delivery posted to that handler from its own
// goroutine could never be taken), both on two handlers, and buffered handlers. The effect runs once per YieldFromIO
// and the coroutine goes on with its YieldFrom requests afterwards.
func c14IOShapes(id string) core.Scenario {
	return core.Scenario{ID: id, Class: "Cor.YieldFromIO", Run: func(c *core.Ctx) {
		shapes := []string{"plain", "ObserveOn(h)", "SubscribeOn(h)", "ObserveOn(h).SubscribeOn(h)", "ObserveOn(h1).SubscribeOn(h2)", "SubscribeOn(h).ObserveOn(h)", "ObserveOn(hb).SubscribeOn(hb) buffered", "FlatMap.ObserveOn(h).SubscribeOn(h)"}
		for si, shape := range shapes {
			for rep2 := 0; rep2 < 3; rep2++ {
				c.Eval(1)
				c.Distinct(id + shape)
				h, h2 := fpgo.Handler.New(), fpgo.Handler.New()
				hb := fpgo.Handler.NewByCh(make(chan func(), 2))
				var effects atomic.Int32
				io := fpgo.MonadIO.New(func() interface{} { effects.Add(1); return 40 + si })
				switch si {
				case 1:
					io = io.ObserveOn(h)
				case 2:
					io = io.SubscribeOn(h)
				case 3:
					io = io.ObserveOn(h).SubscribeOn(h)
				case 4:
					io = io.ObserveOn(h).SubscribeOn(h2)
				case 5:
					io = io.SubscribeOn(h).ObserveOn(h)
				case 6:
					io = io.ObserveOn(hb).SubscribeOn(hb)
				case 7:
					io = io.FlatMap(func(v interface{}) *fpgo.MonadIODef[interface{}] { return fpgo.MonadIO.Just(v) }).ObserveOn(h).SubscribeOn(h)
				}
				var gen *fpgo.CorDef[interface{}]
				gen = fpgo.Cor.New(func() {
					for k := 0; k < 2; k++ {
						gen.YieldRef(100 + k)
					}
				})
				gen.Start()
				done := make(chan struct{})
				var got interface{}
				go func() {
					defer close(done)
					got = fpgo.Cor.DoNotation(func(self *fpgo.CorDef[interface{}]) interface{} {
						a := self.YieldFromIO(io)
						b := self.YieldFrom(gen, nil)
						var a2 interface{}
						if rep2 > 0 {
							a2 = self.YieldFromIO(io) // the same IO value evaluated a second time by the same coroutine
						}
						cc := self.YieldFrom(gen, nil)
						return []interface{}{a, b, a2, cc}
					})
				}()
				v, dump := core.AwaitOrStuck(done, 2*time.Second, 60*time.Second, director.Get().Total)
				rep := map[string]any{"scenario": id, "io": shape, "second_evaluation": rep2 > 0}
				wantEff := int32(1)
				want := fmt.Sprintf("[%d 100 <nil> 101]", 40+si)
				if rep2 > 0 {
					wantEff = 2
					want = fmt.Sprintf("[%d 100 %d 101]", 40+si, 40+si)
				}
				switch v {
				case "done":
					if fmt.Sprint(got) != want || effects.Load() != wantEff {
						c.Violationf("YieldFromIO:shape:wrong-value", rep, "DoNotation{YieldFromIO(io); YieldFrom(gen); [YieldFromIO(io)]; YieldFrom(gen)} with io = New(effect).%s returned %v after %d effects, want %s after %d", shape, got, effects.Load(), want, wantEff)
					}
				case "stuck":
					rep["goroutines"] = core.RepoGoroutineSummary(dump)
					c.Violationf("YieldFromIO:shape:stuck", rep, "YieldFromIO(io) with io = New(effect).%s never returns (no library goroutine can make progress)", shape)
				default:
					c.Inconclusive("watchdog in " + id)
				}
				h.Close()
				h2.Close()
				hb.Close()
				if v != "done" {
					return
				}
			}
		}
		if c.WantSample() {
			c.Sample(map[string]any{"scenario": id, "shapes": shapes})
		}
	}}
}

func c14Scenarios(c *core.Ctx, race bool) []core.Scenario {
	var out []core.Scenario
	n := c.Pick(200, 5000)
	if race {
		n = c.Pick(60, 600)
	}
	rng := c.Rng("c14")
	for i := 0; i < n; i++ {
		callers := 1 + rng.Intn(8)
		reqs := make([]int, callers)
		for j := range reqs {
			reqs[j] = 1 + rng.Intn(12)
		}
		out = append(out, c14Scenario(fmt.Sprintf("pair-%d-c%d-race%v", i, callers, race), callers, reqs, i%3, i%5 == 4, c.Seed*23+int64(i)))
	}
	for i, callers := range []int{6, 7, 8, 8, 12, 16} {
		reqs := make([]int, callers)
		for j := range reqs {
			reqs[j] = 1 + (i+j)%4
		}
		out = append(out, c14Scenario(fmt.Sprintf("full-channel-%d-c%d-race%v", i, callers, race), callers, reqs, i%3, false, c.Seed*2+int64(2*i)))
	}
	for i, n := range []int{1, 5, 6, 7, 8, 8, 12} {
		out = append(out, c14EarlyCallers(fmt.Sprintf("early-callers-%d-n%d-race%v", i, n, race), n, c.Seed+int64(i)))
	}
	for i := 0; i < c.Pick(4, 12); i++ {
		if race && i > 0 {
			break
		}
		out = append(out, c14Volume(fmt.Sprintf("volume-%d-race%v", i, race), 2+i%3, c.Pick(150000, 400000), c.Seed+int64(i)))
	}
	// single caller, long (well beyond the channel buffer of 5)
	for _, k := range []int{1, 5, 6, 7, 50} {
		out = append(out, c14Scenario(fmt.Sprintf("single-%d-race%v", k, race), 1, []int{k}, 0, false, c.Seed+int64(k)))
		out = append(out, c14Scenario(fmt.Sprintf("single-swv-%d-race%v", k, race), 1, []int{k}, 1, true, c.Seed+int64(k)))
	}
	out = append(out, c14MiscScenario(fmt.Sprintf("misc-race%v", race), c.Seed))
	out = append(out, c14IOShapes(fmt.Sprintf("io-shapes-race%v", race)))
	return out
}

func init() {
	core.Register(&core.Check{
		ID: "C14",
		Meta: func(c *core.Ctx) core.Meta {
			return core.Meta{
				Level:       "exploration",
				Rule:        "topologies of 1..8 caller coroutines with 1..12 requests each (more than the channel buffer of 5) against one target that serves exactly the total, three generator shapes (fixed sequence, echo of the previous x, running accumulate), with and without StartWithVal, with the target held back until 6..16 callers have filled its request channel of 5 (the others block in the hand-over), PRNG yields at cor.YieldRef.taken / cor.YieldFrom.sent / cor.doCloseSafe.checked; x = (caller, i) unique and y_k unique; goroutine-local logs joined by a WaitGroup the effects signal; oracle: every x exactly once at the target, the caller of the request taken as step k received exactly y_k, per-caller positions increase, counts match; StartWithVal value reaches the first YieldRef, DoNotation / YieldFromIO values and single IO effect, YieldFromIO of an IO whose own effect calls YieldFrom through the evaluating coroutine (inline and on a Handler), YieldFromIO over eight owner-configured IO shapes (plain, ObserveOn, SubscribeOn, both on ONE unbuffered handler, both on two handlers, buffered, after FlatMap; evaluated once and twice by one coroutine: value, effect count, the YieldFrom requests around it, stuck detector), IsStarted/IsDone inside and after the effect; 1..12 callers whose first YieldFrom precedes Start(); volume runs (2..4 callers x 150000 (400000) requests against an echoing target: every x the target sees belongs to the request being answered); Start()/StartWithVal() followed at once by further Start() calls (400 rounds: one instance of the effect, answers in order); stuck detector; repeated under -race (deciding for cor.go). distinct_nontrivial = distinct topologies + hook-trace signatures",
				Assumptions: []string{"only while the target has YieldRefs left to serve (statement); YieldFrom on a finished target is property C15", "the y of the YieldRef that consumes the StartWithVal value has no recipient by design"},
			}
		},
		Scenarios: c14Scenarios,
		Batch:     50, RaceToo: true, RaceBatch: 30, Par: 8, Timeout: 300e9,
		RaceRelevant: func(s core.RaceSig) bool { return strings.Contains(s.Text, "cor.go") },
	})
}
