package props

import (
	"math"
	"fmt"
	"math/rand"
	"runtime"
	"sort"
	"strings"
	"sync"
	"sync/atomic"
	"time"

	fpgo "github.com/TeaEntityLab/fpGo/v2"

	"verifharness/internal/core"
	"verifharness/internal/director"
	"verifharness/internal/hist"
)

// C07 — ChannelQueue / BufferedChannelQueue: bounded, FIFO, exactly-once delivery, nothing stranded.

type c07Cfg struct {
	cap, buf  int
	interval  time.Duration
	viaSetter bool // buffer size configured through SetBufferSizeMaximum after construction
}

func (g c07Cfg) String() string {
	return fmt.Sprintf("cap=%d buf=%d loader=%v", g.cap, g.buf, g.interval)
}

// bound is cap+buf, saturating (buffer sizes up to math.MaxInt stand for "no limit")
func (g c07Cfg) bound() int {
	if g.buf > 1<<50 {
		return 1 << 50
	}
	return g.cap + g.buf
}

// mbuf is the buffer size handed to the sequential model (saturated like bound)
func (g c07Cfg) mbuf() int {
	if g.buf > 1<<50 {
		return 1 << 50
	}
	return g.buf
}

func c07New(g c07Cfg) *fpgo.BufferedChannelQueue[int64] {
	if g.viaSetter {
		q := fpgo.NewBufferedChannelQueue[int64](g.cap, 1, 4)
		q.SetBufferSizeMaximum(g.buf)
		q.SetLoadFromPoolDuration(g.interval)
		q.SetFreeNodeHookPoolIntervalDuration(g.interval)
		return q
	}
	q := fpgo.NewBufferedChannelQueue[int64](g.cap, g.buf, 4)
	q.SetLoadFromPoolDuration(g.interval)
	q.SetFreeNodeHookPoolIntervalDuration(g.interval)
	return q
}

// heldBound: max over time of (#offers returned ok before t) - (#successful removals called before t)
func c07HeldBound(ops []hist.Op) int {
	type ev struct {
		t int64
		d int
	}
	var evs []ev
	for _, o := range ops {
		if o.Kind == "offer" && o.Res == "ok" && o.Return != 0 {
			evs = append(evs, ev{o.Return, +1})
		}
		if o.Kind == "take" && o.Res == "ok" {
			evs = append(evs, ev{o.Call, -1})
		}
	}
	sort.Slice(evs, func(i, j int) bool {
		if evs[i].t != evs[j].t {
			return evs[i].t < evs[j].t
		}
		return evs[i].d < evs[j].d
	})
	cur, max := 0, 0
	for _, e := range evs {
		cur += e.d
		if cur > max {
			max = cur
		}
	}
	return max
}

// consumer kinds: 0 Poll, 1 TakeWithTimeout, 2 channel receive through GetChannel, 3 Take (only while items are guaranteed)
func c07Remove(q *fpgo.BufferedChannelQueue[int64], kind int, timeout time.Duration) (int64, string) {
	switch kind {
	case 0:
		v, err := q.Poll()
		return v, resOf(err)
	case 1:
		v, err := q.TakeWithTimeout(timeout)
		return v, resOf(err)
	default:
		ch := q.GetChannel()
		select {
		case v, ok := <-ch:
			if !ok {
				return 0, "closed"
			}
			return v, "ok"
		case <-time.After(timeout):
			return 0, "timeout"
		}
	}
}

// drain retrieves everything that is still held, using only Poll/TakeWithTimeout and the loader's own
// progress. It returns false (and records a violation) when items are stranded.
func c07Drain(c *core.Ctx, q *fpgo.BufferedChannelQueue[int64], g c07Cfg, rec *hist.Recorder, proc int, pending int, rep map[string]any, mode int) bool {
	d := director.Get()
	passesAtLastSuccess := d.Count("bcq.loader.beforeSleep")
	lastProgress := time.Now()
	began := time.Now()
	loaderProgress := func() int64 {
		return d.Count("bcq.loader.wake") + d.Count("bcq.loader.inhand") + d.Count("bcq.loader.beforeSleep")
	}
	lastTotal := loaderProgress()
	if g.cap == 0 && mode != 1 {
		mode = 1 // an unbuffered channel hands over only to a receiver that is already waiting: drain with TakeWithTimeout
	}
	kind := 0
	for pending > 0 {
		if time.Since(began) > 60*time.Second {
			c.Inconclusive(fmt.Sprintf("drain watchdog (%s, %d pending)", g, pending))
			return false
		}
		i := rec.Begin(proc, "take", 0)
		// drain mode: 0 = Poll only, 1 = TakeWithTimeout only, 2 = alternating, 3 = GetChannel receive only
		rk := kind % 2
		switch mode {
		case 0:
			rk = 0
		case 1:
			rk = 1
		case 3:
			rk = 2
		}
		v, res := c07Remove(q, rk, 2*time.Millisecond)
		rec.End(proc, i, v, res)
		kind++
		if res == "ok" {
			pending--
			passesAtLastSuccess = d.Count("bcq.loader.beforeSleep")
			lastProgress = time.Now()
			continue
		}
		if res != "empty" && res != "timeout" {
			c.Violationf("drain:unexpected-"+res, rep, "%s: drain got %s", g, res)
			return false
		}
		if g.cap == 0 && d.Count("bcq.loader.beforeSleep")-passesAtLastSuccess >= 8 {
			// capacity 0 is outside the nothing-stranded clause: stop draining and fall back to conservation
			if cnt := q.Count(); cnt != pending {
				c.Violationf("conservation:accepted!=delivered+held", rep, "%s: %d accepted values were neither delivered nor are they held (Count()=%d)", g, pending-cnt, cnt)
			}
			return false
		}
		if g.cap >= 1 && d.Count("bcq.loader.beforeSleep")-passesAtLastSuccess >= 4 {
			c.Violationf("stranded:despite-loader-passes", rep, "%s: %d accepted items are still held, the loader completed %d full passes since the last successful removal and every Poll/TakeWithTimeout since reported empty", g, pending, d.Count("bcq.loader.beforeSleep")-passesAtLastSuccess)
			return false
		}
		if t := loaderProgress(); t != lastTotal {
			lastTotal = t
			lastProgress = time.Now()
		}
		if time.Since(lastProgress) > 3*time.Second {
			gs, dump := core.Dump()
			if len(core.ActiveRepoGoroutines(gs)) == 0 {
				key := "stranded:loader-never-woken"
				if g.cap == 0 {
					key = "stranded:cap0" // outside the nothing-stranded clause; reported as conservation only
					return false
				}
				c.Violationf(key, map[string]any{"scenario": rep["scenario"], "goroutines": core.RepoGoroutineSummary(dump)}, "%s: %d accepted items are still held, repeated Poll/TakeWithTimeout report empty and no library goroutine can make progress", g, pending)
				return false
			}
			lastProgress = time.Now()
		}
		runtime.Gosched()
	}
	return true
}

func c07Scenario(id string, g c07Cfg, producers, consumers, perProducer int, short bool, directed int, seed int64) core.Scenario {
	return core.Scenario{ID: id, Class: "BufferedChannelQueue", Run: func(c *core.Ctx) {
		d := director.Get()
		d.Reset(seed)
		rep := map[string]any{"scenario": id, "config": g.String(), "producers": producers, "consumers": consumers, "values_each": perProducer}
		q := c07New(g)
		defer q.Close()
		n := producers + consumers
		rec := hist.NewRecorder(n + 2)
		var wg sync.WaitGroup
		start := make(chan struct{})
		var produced atomic.Int64
		var prodDone atomic.Int32
		var countViol atomic.Int64
		var maxCount atomic.Int64
		if !short {
			d.Yield(2, "bcq.loader.inhand", "bcq.loader.checked", "bcq.Offer.pooled", "bcq.Poll.notified")
		}
		// directed interleavings: park a party at a hook point, let the others run, release
		var gates []*director.Gate
		switch directed {
		case 1:
			gates = append(gates, d.Park("bcq.loader.inhand", 1))
		case 2:
			gates = append(gates, d.Park("bcq.loader.checked", 1))
		case 3:
			gates = append(gates, d.Park("bcq.Poll.notified", 2))
		case 4:
			gates = append(gates, d.Park("bcq.Offer.pooled", 1))
		case 5:
			gates = append(gates, d.Park("bcq.loader.beforeSleep", 1), d.Park("bcq.TakeWithTimeout.checked", 1))
		}
		for _, gt := range gates {
			gt := gt
			go func() {
				if gt.WaitArrived(200 * time.Millisecond) {
					c.Count("directed.parks_reached", 1)
					time.Sleep(time.Duration(500+seed%1500) * time.Microsecond) // the other parties run meanwhile
				}
				gt.Release()
			}()
		}
		for p := 0; p < producers; p++ {
			wg.Add(1)
			go func(p int) {
				defer wg.Done()
				defer prodDone.Add(1)
				rng := rand.New(rand.NewSource(seed*977 + int64(p)))
				<-start
				for k := 1; k <= perProducer; k++ {
					v := hist.Value(p+1, k)
					for try := 0; ; try++ {
						i := rec.Begin(p, "offer", v)
						var err error
						if rng.Intn(2) == 0 {
							err = q.Offer(v)
						} else {
							err = q.Put(v)
						}
						rec.End(p, i, 0, resOf(err))
						if err == nil {
							produced.Add(1)
							break
						}
						if err != fpgo.ErrQueueIsFull {
							return
						}
						if short && try >= 1 {
							break // short histories keep a Full result and move on
						}
						runtime.Gosched()
					}
					if cnt := int64(q.Count()); cnt > maxCount.Load() {
						maxCount.Store(cnt)
						if cnt > int64(g.bound()) {
							countViol.Store(cnt)
						}
					}
					if rng.Intn(3) == 0 {
						runtime.Gosched()
					}
				}
			}(p)
		}
		var consumed atomic.Int64
		for cidx := 0; cidx < consumers; cidx++ {
			wg.Add(1)
			go func(cidx int) {
				defer wg.Done()
				proc := producers + cidx
				rng := rand.New(rand.NewSource(seed*31 + int64(cidx)))
				<-start
				ops := 0
				for {
					if short && ops >= perProducer+2 {
						return
					}
					if !short && int(prodDone.Load()) == producers && consumed.Load() >= produced.Load() {
						return
					}
					kind := (cidx + rng.Intn(3)) % 3
					i := rec.Begin(proc, "take", 0)
					v, res := c07Remove(q, kind, time.Duration(200+rng.Intn(800))*time.Microsecond)
					rec.End(proc, i, v, res)
					ops++
					if res == "ok" {
						consumed.Add(1)
					} else if res != "empty" && res != "timeout" {
						return
					} else if !short && int(prodDone.Load()) == producers {
						// producers stopped: leave the rest to the drain phase (nothing-stranded oracle)
						return
					}
					if rng.Intn(3) == 0 {
						runtime.Gosched()
					}
				}
			}(cidx)
		}
		close(start)
		joined := make(chan struct{})
		go func() { wg.Wait(); close(joined) }()
		v, dump := core.AwaitOrStuck(joined, 3*time.Second, 90*time.Second, d.Total)
		if v == "stuck" {
			c.Violationf("blocked:offer-or-removal-never-returns", map[string]any{"scenario": id, "goroutines": core.RepoGoroutineSummary(dump)}, "%s: a producer or consumer call never returned although Offer/Poll are non-blocking and removals carry timeouts", g)
			return
		}
		if v != "done" {
			c.Inconclusive("watchdog in " + id)
			return
		}
		for _, gt := range gates {
			gt.Release()
		}
		// quiescence: Count must equal accepted - delivered
		pending := int(produced.Load() - consumed.Load())
		time.Sleep(2 * g.interval)
		if cnt := q.Count(); cnt != pending {
			// the loader may hold one item "in hand" only inside its critical section, and Count takes the lock
			c.Violationf("count:not-accepted-minus-delivered", rep, "%s: Count()=%d at quiescence, accepted-delivered=%d", g, cnt, pending)
		}
		drained := c07Drain(c, q, g, rec, n, pending, rep, int(seed%4))
		ops := rec.Ops()
		c.Eval(1)
		c.Count("ops", int64(len(ops)))
		c.Count("values_accepted", produced.Load())
		c.DistinctHash(d.Signature())
		c.Distinct(id)
		for class, msg := range hist.ExactlyOnce(ops, drained, true) {
			c.Violationf("history:"+class, map[string]any{"scenario": id, "config": g.String(), "history": hist.Describe(ops, 60)}, "%s: %s", g, msg)
		}
		if hb := c07HeldBound(ops); hb > g.bound() {
			c.Violationf("bound:more-than-cap+buf-held", rep, "%s: at some instant %d accepted values had not been handed out yet (bound %d)", g, hb, g.bound())
		}
		if cv := countViol.Load(); cv > 0 {
			c.Violationf("bound:count-exceeds-cap+buf", rep, "%s: Count() returned %d", g, cv)
		}
		c.CountMax("max.count_observed", maxCount.Load())
		if short && g.cap >= 1 {
			switch hist.Linearizable(hist.Model(hist.RelaxedBuffered, g.cap, g.mbuf()), ops, 10*time.Second) {
			case "illegal":
				c.Violationf("not-linearizable:RelaxedBuffered", map[string]any{"scenario": id, "config": g.String(), "history": hist.Describe(ops, 80)},
					"%s: the history of %d operations has no linearization w.r.t. the relaxed bounded FIFO model", g, len(ops))
				c.Count("porcupine.illegal", 1)
			case "unknown":
				c.Count("porcupine.unknown", 1)
			default:
				c.Count("porcupine.ok", 1)
			}
		}
		for k, v := range d.Counts() {
			if strings.HasPrefix(k, "bcq.loader") {
				c.Count("hook."+k, v)
			}
		}
		if c.WantSample() && short {
			c.Sample(map[string]any{"scenario": id, "config": g.String(), "history": hist.Describe(ops, 10)})
		}
	}}
}

// back-pressure with a blocking consumer: producers retry on Full until every value is accepted, ONE consumer calls
// the blocking Take() exactly as many times as there are values. Every Take must return: a Take that has notified the
// loader and blocks while accepted values sit in the overflow list, with no delivery for 3 s and 200000 refused Offers meanwhile (logical time; 3000x the loader
// interval) and the loader parked, is a lost wake-up (nothing-stranded clause).
func c07BlockingTake(id string, g c07Cfg, producers, perProducer int, seed int64) core.Scenario {
	return core.Scenario{ID: id, Class: "BufferedChannelQueue", Run: func(c *core.Ctx) {
		d := director.Get()
		d.Reset(seed)
		d.Yield(2, "bcq.loader.inhand", "bcq.loader.checked", "bcq.Offer.pooled", "bcq.Take.checked")
		q := c07New(g)
		total := producers * perProducer
		rec := hist.NewRecorder(producers + 1)
		var produced, consumed, failedOffers atomic.Int64
		var stop atomic.Bool
		var wg sync.WaitGroup
		for p := 0; p < producers; p++ {
			wg.Add(1)
			go func(p int) {
				defer wg.Done()
				for k := 1; k <= perProducer && !stop.Load(); k++ {
					v := hist.Value(p+1, k)
					for !stop.Load() {
						i := rec.Begin(p, "offer", v)
						err := q.Offer(v)
						rec.End(p, i, 0, resOf(err))
						if err == nil {
							d.Note(fmt.Sprintf("producer%d offer ok", p))
							produced.Add(1)
							break
						}
						failedOffers.Add(1)
						runtime.Gosched()
					}
				}
			}(p)
		}
		wg.Add(1)
		go func() {
			defer wg.Done()
			for k := 0; k < total && !stop.Load(); k++ {
				i := rec.Begin(producers, "take", 0)
				v, err := q.Take()
				rec.End(producers, i, v, resOf(err))
				if err != nil {
					return
				}
				d.Note("consumer take returned")
				consumed.Add(1)
			}
		}()
		joined := make(chan struct{})
		go func() { wg.Wait(); close(joined) }()
		last, lastChange, began := int64(-1), time.Now(), time.Now()
		failedAtLastChange := int64(0)
		stranded := false
	wait:
		for {
			select {
			case <-joined:
				break wait
			case <-time.After(20 * time.Millisecond):
			}
			if cur := produced.Load() + consumed.Load(); cur != last {
				last, lastChange = cur, time.Now()
				failedAtLastChange = failedOffers.Load()
			}
			// The verdict is taken on LOGICAL time (wall time alone says nothing on a loaded machine: the process may simply
			// not have run). Stranded = no delivery and no acceptance for 3 s AND EITHER the producers were turned away
			// 200000 times meanwhile (each refusal locks/unlocks the queue and yields the processor, so the loader had that
			// many chances to run) OR two successive goroutine dumps show no library goroutine that could still act.
			if time.Since(lastChange) > 3*time.Second {
				refused := failedOffers.Load() - failedAtLastChange
				if refused < 200000 {
					gs1, _ := core.Dump()
					time.Sleep(300 * time.Millisecond)
					gs2, _ := core.Dump()
					if len(core.ActiveRepoGoroutines(gs1)) > 0 || len(core.ActiveRepoGoroutines(gs2)) > 0 || produced.Load()+consumed.Load() != last {
						continue
					}
				}
				_, dump := core.Dump()
				held := q.Count()
				recent := d.Recent()
				// diagnosis: one extra wake-up of the loader (GetChannel notifies it). If deliveries resume, a wake-up was lost.
				beforeKick := consumed.Load()
				chanLen := len(q.GetChannel())
				time.Sleep(200 * time.Millisecond)
				resumed := consumed.Load() > beforeKick
				if held > 0 && beforeKick < int64(total) {
					c.Violationf("stranded:blocking-take-never-served", map[string]any{"scenario": id, "config": g.String(), "goroutines": core.RepoGoroutineSummary(dump), "last_events_us": recent, "in_channel": chanLen, "resumed_after_extra_wakeup": resumed},
						"%s: a blocking Take() waits although %d accepted values are held (accepted=%d delivered=%d); nothing was delivered or accepted for 3 s during which the producers were refused (ErrQueueIsFull) %d times (in the channel: %d; deliveries resumed after one extra loader wake-up: %v)", g, held, produced.Load(), beforeKick, refused, chanLen, resumed)
					stranded = true
				} else {
					c.Inconclusive("no progress in " + id)
				}
				stop.Store(true)
				q.Close()
				<-joined
				break wait
			}
			if time.Since(began) > 120*time.Second {
				c.Inconclusive("watchdog in " + id)
				stop.Store(true)
				q.Close()
				<-joined
				break wait
			}
		}
		ops := rec.Ops()
		c.Eval(1)
		c.Count("ops", int64(len(ops)))
		c.Count("values_accepted", produced.Load())
		c.Distinct(id)
		if !stranded {
			for class, msg := range hist.ExactlyOnce(ops, consumed.Load() == int64(total), true) {
				c.Violationf("history:"+class, map[string]any{"scenario": id, "config": g.String(), "history": hist.Describe(ops, 60)}, "%s: %s", g, msg)
			}
			if hb := c07HeldBound(ops); hb > g.bound() {
				c.Violationf("bound:more-than-cap+buf-held", map[string]any{"scenario": id}, "%s: at some instant %d accepted values had not been handed out yet (bound %d)", g, hb, g.bound())
			}
		}
		core.Catch(q.Close) // (already closed on the no-progress path)
	}}
}

// plain ChannelQueue: bounded FIFO with non-blocking Offer/Poll and timed Put/Take
func c07ChannelScenario(id string, capacity, procs, opsEach int, seed int64) core.Scenario {
	return core.Scenario{ID: id, Class: "ChannelQueue", Run: func(c *core.Ctx) {
		q := fpgo.NewChannelQueue[int64](capacity)
		rec := hist.NewRecorder(procs + 1)
		var wg sync.WaitGroup
		start := make(chan struct{})
		for p := 0; p < procs; p++ {
			wg.Add(1)
			go func(p int) {
				defer wg.Done()
				rng := rand.New(rand.NewSource(seed*53 + int64(p)))
				<-start
				seq := 0
				for k := 0; k < opsEach; k++ {
					switch rng.Intn(4) {
					case 0:
						seq++
						v := hist.Value(p+1, seq)
						i := rec.Begin(p, "offer", v)
						rec.End(p, i, 0, resOf(q.Offer(v)))
					case 1:
						seq++
						v := hist.Value(p+1, seq)
						i := rec.Begin(p, "offer", v)
						err := q.PutWithTimeout(v, 300*time.Microsecond)
						res := resOf(err)
						rec.End(p, i, 0, res)
						if err == fpgo.ErrQueuePutTimeout {
							// a timed Put may give up although there was room at that instant (Go's select picks at random
							// when the timer and the channel are both ready, e.g. after the goroutine was descheduled): it
							// is recorded as an operation without effect, not as "full"
							rec.Retag(p, i, "noop")
						}
					case 2:
						i := rec.Begin(p, "take", 0)
						v, err := q.Poll()
						rec.End(p, i, v, resOf(err))
					default:
						i := rec.Begin(p, "take", 0)
						v, err := q.TakeWithTimeout(300 * time.Microsecond)
						rec.End(p, i, v, resOf(err))
						if err == fpgo.ErrQueueTakeTimeout {
							rec.Retag(p, i, "noop") // same: a timed Take may time out although an item was there at that instant
						}
					}
					if rng.Intn(3) == 0 {
						runtime.Gosched()
					}
				}
			}(p)
		}
		close(start)
		wg.Wait()
		for {
			i := rec.Begin(procs, "take", 0)
			v, err := q.Poll()
			rec.End(procs, i, v, resOf(err))
			if err != nil {
				break
			}
		}
		ops := rec.Ops()
		c.Eval(1)
		c.Count("ops", int64(len(ops)))
		c.Distinct(id)
		rep := map[string]any{"scenario": id, "capacity": capacity, "history": hist.Describe(ops, 60)}
		for class, msg := range hist.ExactlyOnce(ops, true, true) {
			c.Violationf("ChannelQueue:history:"+class, rep, "ChannelQueue(%d): %s", capacity, msg)
		}
		if hb := c07HeldBound(ops); hb > capacity {
			c.Violationf("ChannelQueue:bound", rep, "ChannelQueue(%d): %d values held at some instant", capacity, hb)
		}
		// a timed Put that gives up is "full" only in the sense of "no room during the whole wait": the
		// bounded model accepts Full iff the queue was full at some instant of the call, which linearizability expresses
		switch hist.Linearizable(hist.Model(hist.BoundedFIFO, capacity, 0), ops, 10*time.Second) {
		case "illegal":
			c.Violationf("ChannelQueue:not-linearizable", rep, "ChannelQueue(%d): the history of %d operations has no linearization", capacity, len(ops))
			c.Count("porcupine.illegal", 1)
		case "unknown":
			c.Count("porcupine.unknown", 1)
		default:
			c.Count("porcupine.ok", 1)
		}
	}}
}

func c07Scenarios(c *core.Ctx, race bool) []core.Scenario {
	var out []core.Scenario
	out = append(out, c07Instantiations(fmt.Sprintf("instantiations-race%v", race)))
	for i, iv := range []time.Duration{20 * time.Microsecond, 50 * time.Microsecond, 20 * time.Microsecond, 100 * time.Microsecond} {
		if race && i > 0 {
			break
		}
		out = append(out, c07IdleThenBurst(fmt.Sprintf("idle-then-burst-%d-race%v", i, race), iv, c.Pick(250, 1500), c.Seed*7+int64(i)))
	}
	for capy := 0; capy <= 2 && !race; capy++ {
		out = append(out, c07NeverBlocks(fmt.Sprintf("never-blocks-cap%d", capy), capy))
	}
	for i := 0; i < 4; i++ {
		if race && i%2 == 1 {
			continue
		}
		out = append(out, c07Reconfigure(fmt.Sprintf("reconfigure-%d-race%v", i, race), c.Pick(60, 600), i >= 2, c.Seed*127+int64(i)))
	}
	var cfgs []c07Cfg
	for _, cp := range []int{0, 1, 2, 3} {
		for _, bf := range []int{0, 1, 2, 5} {
			for _, iv := range []time.Duration{50 * time.Microsecond, time.Millisecond} {
				cfgs = append(cfgs, c07Cfg{cp, bf, iv, false})
			}
		}
	}
	// "no limit" buffer sizes, through the constructor and through the setter
	for i, bf := range []int{math.MaxInt, math.MaxInt32 + 1, 1 << 40, math.MaxInt32, 70000} {
		cfgs = append(cfgs, c07Cfg{1, bf, 50 * time.Microsecond, i%2 == 1})
	}
	rng := c.Rng("c07")
	nShortPer := c.Pick(40, 150)
	nLongPer := c.Pick(3, 6)
	longVals := c.Pick(3000, 15000)
	if race {
		nShortPer = c.Pick(6, 40)
		nLongPer = c.Pick(1, 2)
		longVals = c.Pick(600, 5000)
	}
	for ci, g := range cfgs {
		if !c.Thorough() && ci%2 == 1 && g.cap != 1 {
			continue // quick: 16 of the 32 configurations (+ every capacity-1 one)
		}
		for i := 0; i < nShortPer; i++ {
			p, cn := 1+rng.Intn(3), 1+rng.Intn(3)
			per := 20 / (p + cn)
			if per < 2 {
				per = 2
			}
			out = append(out, c07Scenario(fmt.Sprintf("short-%d-%d-%d-%v-p%dc%d-%d-race%v", g.cap, g.buf, ci, g.interval, p, cn, i, race), g, p, cn, per, true, 0, c.Seed*101+int64(ci*1000+i)))
		}
		for i := 0; i < nLongPer; i++ {
			p, cn := 1+rng.Intn(4), 1+rng.Intn(4)
			out = append(out, c07Scenario(fmt.Sprintf("long-%d-%d-%d-%v-p%dc%d-%d-race%v", g.cap, g.buf, ci, g.interval, p, cn, i, race), g, p, cn, longVals/p, false, 0, c.Seed*103+int64(ci*1000+i)))
		}
		if g.cap >= 1 {
			for i := 0; i < c.Pick(2, 8); i++ {
				out = append(out, c07BlockingTake(fmt.Sprintf("blocking-take-%d-%d-%d-%d-race%v", g.cap, g.buf, ci, i, race), g, 1+(i+ci)%4, c.Pick(400, 3000), c.Seed*113+int64(ci*10+i)))
			}
		}
		if g.buf >= 1 {
			for dir := 1; dir <= 5; dir++ {
				for r := 0; r < c.Pick(1, 10); r++ {
					out = append(out, c07Scenario(fmt.Sprintf("directed%d-%d-%d-%d-r%d-race%v", dir, g.cap, g.buf, ci, r, race), g, 2, 2, 12, false, dir, c.Seed*107+int64(ci*100+dir*10+r)))
				}
			}
		}
	}
	for _, cp := range []int{1, 2, 3, 5} {
		for i := 0; i < c.Pick(40, 1000)/map[bool]int{false: 1, true: 4}[race]; i++ {
			procs := 2 + rng.Intn(3)
			out = append(out, c07ChannelScenario(fmt.Sprintf("chan-%d-%d-race%v", cp, i, race), cp, procs, 20/procs, c.Seed*109+int64(cp*10000+i)))
		}
	}
	return out
}

func init() {
	core.Register(&core.Check{
		ID: "C07",
		Meta: func(c *core.Ctx) core.Meta {
			return core.Meta{
				Level: "exploration",
				Rule: "configurations (channelCapacity, bufferSizeMaximum, loader interval) in {0,1,2,3} x {0,1,2,5} x {50us,1ms} (quick: 20 of 32) plus 'no limit' buffer sizes {MaxInt, MaxInt32+1, 2^40, MaxInt32, 70000} set through the constructor or SetBufferSizeMaximum; per configuration short concurrent histories (1..3 producers, 1..3 consumers using Poll / TakeWithTimeout / GetChannel receive, <= 24 ops) checked by porcupine against the relaxed bounded FIFO model (FIFO strict, Offer ok only below cap+buf, Full legal only when the overflow can be at its maximum, Empty/Timeout always legal) and long runs (thousands of unique values, 1..4 x 1..4 goroutines, PRNG yields at loader/Offer/Poll hook points) checked for exactly-once / no invention / no loss after a drain / per-producer order / held <= cap+buf at every instant / Count() <= cap+buf / Count() = accepted-delivered at quiescence; the overflow bound changed on the LIVE queue (SetBufferSizeMaximum to 0..9, below and above what is buffered) between Offers, Polls and loader passes, sequentially and with a concurrent consumer: everything accepted comes out once in FIFO order, accepted only below capacity + current maximum, Full only at or above the current maximum; Offer / Poll / Count with a loader interval of 4 s, a non-empty overflow buffer and no consumer (capacity 0, 1, 2): no call parks on a lock of the queue; " +
					"the drain uses only Poll/TakeWithTimeout after producers stopped: stranded = items held and >= 4 complete loader passes since the last successful removal, or no library goroutine able to make progress; back-pressure runs (retrying producers against ONE consumer that calls the blocking Take() exactly once per value: a Take left waiting while accepted values are held, with neither a delivery nor an acceptance for 3 s AND either 200000 refused Offers meanwhile or no library goroutine able to act in two successive dumps, is a lost wake-up - the verdict is taken on logical time, never on wall time alone); directed scenarios park the loader (in hand, after closed check, before sleep), Poll after its wake-up and Offer before its wake-up; plain ChannelQueue histories (Offer/Poll/PutWithTimeout/TakeWithTimeout) against BoundedFIFO; hundreds of rounds of {idle for about 100 loader intervals, burst through the overflow list, complete drain}; five other instantiations alive in one process (element types fmt.Stringer, error, any, func, *struct) pushed through the overflow list; all repeated in the -race build. distinct_nontrivial = distinct scenarios + distinct hook-trace signatures",
				Assumptions: []string{"Poll->Empty and TakeWithTimeout->Timeout are always legal for the buffered queue (statement: 'nothing immediately available')",
					"nothing-stranded and linearizability are only claimed for channelCapacity >= 1; for capacity 0 exactly-once, order and conservation are checked",
					"the race detector is deciding for queue.go frames (baseline silent)"},
			}
		},
		Scenarios: c07Scenarios,
		Post:      porcupinePost,
		Batch:     40, RaceToo: true, RaceBatch: 20, Par: 8, Timeout: 400e9,
		RaceRelevant: func(s core.RaceSig) bool { return strings.Contains(s.Text, "queue.go") },
	})
}
