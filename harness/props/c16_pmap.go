package props

import (
	"fmt"
	"math/rand"
	"runtime"
	"sort"
	"strings"
	"sync"
	"sync/atomic"
	"time"

	fpgo "github.com/TeaEntityLab/fpGo/v2"

	"verifharness/internal/core"
	"verifharness/internal/director"
)

// C16 — PMap is Map run in parallel: same results, each element once, bounded parallelism, terminates.
// The mapped function f is the monitor.

func c16Scenario(id string, race bool, n, fixedPool int, hasOpt, random bool, profile int, seed int64) core.Scenario {
	return core.Scenario{ID: id, Class: "PMap", Run: func(c *core.Ctx) {
		rep := map[string]any{"scenario": id, "len": n, "fixed_pool": fixedPool, "option": hasOpt, "random_order": random, "duration_profile": profile}
		c.Eval(1)
		c.Distinct(id)
		// the caller's slice has spare capacity filled with values that are NOT elements (f must never see them)
		backing := make([]int, n+9)
		for i := range backing {
			backing[i] = -7000 - i
		}
		list := backing[:n]
		for i := range list {
			list[i] = 1000 + i // unique elements
		}
		calls := make([]atomic.Int32, n)
		var foreign atomic.Int32
		var gauge, maxGauge atomic.Int32
		rng := rand.New(rand.NewSource(seed))
		work := make([]int, n)
		for i := range work {
			switch profile {
			case 0: // uniform short
				work[i] = 1
			case 1: // decreasing with the index: natural completion order is the reverse of the input
				work[i] = (n - i) * 3
			case 2: // one very slow first element
				if i == 0 {
					work[i] = 200
				}
			case 3: // PRNG
				work[i] = rng.Intn(40)
			default: // sleep based
				work[i] = -1 - rng.Intn(3)
			}
		}
		// plain (unsynchronised) result-side probe for the race build: f's return value is the only channel
		f := func(x int) int {
			g := gauge.Add(1)
			for {
				m := maxGauge.Load()
				if g <= m || maxGauge.CompareAndSwap(m, g) {
					break
				}
			}
			i := x - 1000
			if i < 0 || i >= n {
				foreign.Add(1)
			} else {
				calls[i].Add(1)
				w := work[i]
				if w < 0 {
					time.Sleep(time.Duration(-w) * 50 * time.Microsecond)
				}
				for k := 0; k < w; k++ {
					runtime.Gosched()
				}
			}
			gauge.Add(-1)
			return x*7 + 3
		}
		var opt *fpgo.PMapOption
		if hasOpt {
			opt = &fpgo.PMapOption{FixedPool: fixedPool, RandomOrder: random}
		}
		var res []int
		done := make(chan struct{})
		var pv any
		go func() {
			defer close(done)
			pv, _ = core.Catch(func() { res = fpgo.PMap(f, opt, list...) })
		}()
		v, dump := core.AwaitOrStuck(done, 2*time.Second, 90*time.Second, director.Get().Total)
		if v == "stuck" {
			c.Violationf("PMap:does-not-return", map[string]any{"scenario": id, "goroutines": core.RepoGoroutineSummary(dump)}, "PMap(len=%d, FixedPool=%d, option=%v, RandomOrder=%v) never returned; no goroutine can make progress", n, fixedPool, hasOpt, random)
			return
		}
		if v != "done" {
			c.Inconclusive("watchdog in " + id)
			return
		}
		if pv != nil {
			c.Violationf("PMap:panic:"+core.NormalizePanic(fmt.Sprint(pv)), rep, "PMap panics: %v", pv)
			return
		}
		want := make([]int, n)
		for i, x := range list {
			want[i] = x*7 + 3
		}
		if hasOpt && random {
			a, b := append([]int(nil), res...), append([]int(nil), want...)
			sort.Ints(a)
			sort.Ints(b)
			if !eqSeq(a, b) {
				c.Violationf("PMap:random-order-not-a-permutation", rep, "RandomOrder result %v is not a permutation of Map(f, list)", res)
			}
		} else if !eqSeq(res, want) {
			c.Violationf("PMap:ordered-result-wrong", rep, "ordered result differs from Map(f, list): got %v want %v", res, want)
		}
		for i := range calls {
			if k := calls[i].Load(); k != 1 {
				c.Violationf("PMap:f-applied-not-once", rep, "f was applied %d times to element #%d", k, i)
				break
			}
		}
		if foreign.Load() != 0 {
			c.Violationf("PMap:f-applied-to-non-element", rep, "f was applied %d times to something that is not an element", foreign.Load())
		}
		bound := n
		if hasOpt && fixedPool > 0 && fixedPool < n {
			bound = fixedPool
		}
		c.CountMax("max.parallelism_seen", int64(maxGauge.Load()))
		if int(maxGauge.Load()) > bound {
			c.Violationf("PMap:parallelism-exceeds-bound", rep, "%d applications of f ran at the same time, bound is min(FixedPool, len) = %d", maxGauge.Load(), bound)
		}
		if gauge.Load() != 0 {
			c.Violationf("PMap:returned-before-f-finished", rep, "PMap returned while %d applications of f were still running", gauge.Load())
		}
		if c.WantSample() {
			c.Sample(rep)
		}
	}}
}

// f is quantified over all functions: an f that calls PMap itself (nested use), with enough outer workers to exhaust
// any process-wide budget; termination by the stuck detector, results against the harness' own map.
func c16Nested(id string, outer, outerPool, inner, innerPool int, concurrentCalls int) core.Scenario {
	return core.Scenario{ID: id, Class: "PMap.nested", Run: func(c *core.Ctx) {
		rep := map[string]any{"scenario": id, "outer_len": outer, "outer_fixed_pool": outerPool, "inner_len": inner, "inner_fixed_pool": innerPool, "concurrent_outer_calls": concurrentCalls}
		c.Eval(1)
		c.Distinct(id)
		mkOpt := func(fp int) *fpgo.PMapOption {
			if fp < 0 {
				return nil
			}
			return &fpgo.PMapOption{FixedPool: fp}
		}
		innerList := make([]int, inner)
		for i := range innerList {
			innerList[i] = i + 1
		}
		f := func(x int) int {
			sum := 0
			for _, y := range fpgo.PMap(func(v int) int { runtime.Gosched(); return v * x }, mkOpt(innerPool), innerList...) {
				sum += y
			}
			return sum
		}
		list := make([]int, outer)
		for i := range list {
			list[i] = i + 1
		}
		results := make([][]int, concurrentCalls)
		done := make(chan struct{})
		var pv any
		go func() {
			defer close(done)
			var wg sync.WaitGroup
			for k := 0; k < concurrentCalls; k++ {
				wg.Add(1)
				go func(k int) {
					defer wg.Done()
					p, _ := core.Catch(func() { results[k] = fpgo.PMap(f, mkOpt(outerPool), list...) })
					if p != nil {
						pv = p
					}
				}(k)
			}
			wg.Wait()
		}()
		v, dump := core.AwaitOrStuck(done, 2*time.Second, 120*time.Second, director.Get().Total)
		if v == "stuck" {
			c.Violationf("PMap:nested-does-not-return", map[string]any{"scenario": id, "goroutines": core.RepoGoroutineSummary(dump)[:min(12, len(core.RepoGoroutineSummary(dump)))]},
				"%d concurrent PMap calls over %d elements (FixedPool %d) whose f itself calls PMap over %d elements (FixedPool %d) never returned; no goroutine can make progress", concurrentCalls, outer, outerPool, inner, innerPool)
			return
		}
		if v != "done" {
			c.Inconclusive("watchdog in " + id)
			return
		}
		if pv != nil {
			c.Violationf("PMap:panic:"+core.NormalizePanic(fmt.Sprint(pv)), rep, "nested PMap panics: %v", pv)
			return
		}
		tri := inner * (inner + 1) / 2
		for k := range results {
			if len(results[k]) != outer {
				c.Violationf("PMap:ordered-result-wrong", rep, "nested PMap returned %d results for %d elements", len(results[k]), outer)
				return
			}
			for i, r := range results[k] {
				if r != (i+1)*tri {
					c.Violationf("PMap:ordered-result-wrong", rep, "nested PMap: result #%d is %d, want %d", i, r, (i+1)*tri)
					return
				}
			}
		}
	}}
}

// one *PMapOption value reused across a sequence of calls (lists of different lengths, among them empty ones): every
// call is bounded by min(FixedPool as the caller wrote it, len(list))
func c16OptionReuse(id string, fixedPool int, random bool, lens []int) core.Scenario {
	return core.Scenario{ID: id, Class: "PMap.option-reuse", Run: func(c *core.Ctx) {
		rep := map[string]any{"scenario": id, "fixed_pool": fixedPool, "random_order": random, "list_lengths": fmt.Sprint(lens)}
		c.Eval(int64(len(lens)))
		c.Distinct(id)
		opt := &fpgo.PMapOption{FixedPool: fixedPool, RandomOrder: random}
		for step, n := range lens {
			var gauge, maxGauge atomic.Int32
			calls := make([]atomic.Int32, n)
			f := func(x int) int {
				g := gauge.Add(1)
				for {
					m := maxGauge.Load()
					if g <= m || maxGauge.CompareAndSwap(m, g) {
						break
					}
				}
				calls[x].Add(1)
				for k := 0; k < 20; k++ {
					runtime.Gosched()
				}
				gauge.Add(-1)
				return x + 1
			}
			list := make([]int, n)
			for i := range list {
				list[i] = i
			}
			var res []int
			done := make(chan struct{})
			var pv any
			go func() { defer close(done); pv, _ = core.Catch(func() { res = fpgo.PMap(f, opt, list...) }) }()
			v, dump := core.AwaitOrStuck(done, 2*time.Second, 60*time.Second, director.Get().Total)
			if v == "stuck" {
				c.Violationf("PMap:does-not-return", map[string]any{"scenario": id, "goroutines": core.RepoGoroutineSummary(dump)}, "call #%d of a sequence sharing one option never returned", step)
				return
			}
			if v != "done" {
				c.Inconclusive("watchdog in " + id)
				return
			}
			if pv != nil {
				c.Violationf("PMap:panic:"+core.NormalizePanic(fmt.Sprint(pv)), rep, "call #%d (len %d) of a sequence sharing one option panics: %v", step, n, pv)
				return
			}
			bound := n
			if fixedPool > 0 && fixedPool < n {
				bound = fixedPool
			}
			if int(maxGauge.Load()) > bound {
				c.Violationf("PMap:parallelism-exceeds-bound", rep, "one PMapOption{FixedPool: %d} reused for lists of lengths %v: in call #%d (len %d) %d applications of f ran at the same time, bound is %d", fixedPool, lens, step, n, maxGauge.Load(), bound)
				return
			}
			sorted := append([]int(nil), res...)
			sort.Ints(sorted)
			for i := 0; i < n; i++ {
				if len(sorted) != n || sorted[i] != i+1 || calls[i].Load() != 1 || (!random && res[i] != i+1) {
					c.Violationf("PMap:ordered-result-wrong", rep, "call #%d (len %d) of a sequence sharing one option returned %v", step, n, res)
					return
				}
			}
		}
	}}
}

// result types that are interfaces, with f returning nil for some elements (a nil result is a result like any other)
func c16NilResults(id string, n, fixedPool int, random bool) core.Scenario {
	return core.Scenario{ID: id, Class: "PMap.nil-results", Run: func(c *core.Ctx) {
		rep := map[string]any{"scenario": id, "len": n, "fixed_pool": fixedPool, "random_order": random}
		c.Eval(2)
		c.Distinct(id)
		list := make([]int, n)
		for i := range list {
			list[i] = i
		}
		// result types of size zero (for-each style struct{}, [0]int): nothing to compare but count, length and return
		for _, zs := range []string{"struct{}", "[0]int"} {
			var appliedZ atomic.Int32
			doneZ := make(chan struct{})
			var pvZ any
			var lenZ int
			go func() {
				defer close(doneZ)
				pvZ, _ = core.Catch(func() {
					opt := &fpgo.PMapOption{FixedPool: fixedPool, RandomOrder: random}
					if zs == "struct{}" {
						lenZ = len(fpgo.PMap(func(x int) struct{} { appliedZ.Add(1); return struct{}{} }, opt, list...))
					} else {
						lenZ = len(fpgo.PMap(func(x int) [0]int { appliedZ.Add(1); return [0]int{} }, opt, list...))
					}
				})
			}()
			vz, dumpZ := core.AwaitOrStuck(doneZ, 2*time.Second, 60*time.Second, func() int64 { return int64(appliedZ.Load()) })
			if vz == "stuck" {
				c.Violationf("PMap:does-not-return", map[string]any{"scenario": id, "goroutines": core.RepoGoroutineSummary(dumpZ)}, "PMap with the zero-size result type %s never returned", zs)
				return
			}
			if vz != "done" {
				c.Inconclusive("watchdog in " + id)
				return
			}
			if pvZ != nil {
				c.Violationf("PMap:panic:"+core.NormalizePanic(fmt.Sprint(pvZ)), rep, "PMap(len %d, FixedPool %d, RandomOrder %v) with the zero-size result type %s panics: %v", n, fixedPool, random, zs, pvZ)
				return
			}
			if lenZ != n || int(appliedZ.Load()) != n {
				c.Violationf("PMap:nil-results", rep, "PMap with the zero-size result type %s returned %d results for %d elements, f applied %d times", zs, lenZ, n, appliedZ.Load())
				return
			}
		}
		for _, kind := range []string{"error", "any"} {
			var applied atomic.Int32
			done := make(chan struct{})
			var nils, total int
			var pv any
			go func() {
				defer close(done)
				pv, _ = core.Catch(func() {
					opt := &fpgo.PMapOption{FixedPool: fixedPool, RandomOrder: random}
					if kind == "error" {
						res := fpgo.PMap(func(x int) error {
							applied.Add(1)
							runtime.Gosched()
							if x%3 != 1 {
								return nil
							}
							return fmt.Errorf("e%d", x)
						}, opt, list...)
						total = len(res)
						for _, r := range res {
							if r == nil {
								nils++
							}
						}
					} else {
						res := fpgo.PMap(func(x int) any {
							applied.Add(1)
							runtime.Gosched()
							if x%3 != 1 {
								return nil
							}
							return x
						}, opt, list...)
						total = len(res)
						for _, r := range res {
							if r == nil {
								nils++
							}
						}
					}
				})
			}()
			v, dump := core.AwaitOrStuck(done, 2*time.Second, 60*time.Second, func() int64 { return int64(applied.Load()) })
			if v == "stuck" {
				c.Violationf("PMap:does-not-return", map[string]any{"scenario": id, "goroutines": core.RepoGoroutineSummary(dump)}, "PMap with result type %s (f returns nil for two thirds of the elements) never returned", kind)
				return
			}
			if v != "done" {
				c.Inconclusive("watchdog in " + id)
				return
			}
			if pv != nil {
				c.Violationf("PMap:panic:"+core.NormalizePanic(fmt.Sprint(pv)), rep, "PMap with result type %s panics: %v", kind, pv)
				return
			}
			wantNils := 0
			for _, x := range list {
				if x%3 != 1 {
					wantNils++
				}
			}
			if total != n || nils != wantNils || int(applied.Load()) != n {
				c.Violationf("PMap:nil-results", rep, "PMap(len %d, FixedPool %d, RandomOrder %v) with result type %s where f returns nil for %d elements: %d results (%d nil), f applied %d times", n, fixedPool, random, kind, wantNils, total, nils, applied.Load())
				return
			}
		}
	}}
}

// c16Goexit: one application of f ends its goroutine with runtime.Goexit (what t.FailNow / t.Fatal / t.Skip do inside a
// callback). What happens to that element's slot and to the worker's share is not specified; decided here is only that
// the call still RETURNS once every application has ended, that f is applied at most once per element and that no
// result is invented (every result is f(x) of an element, or the zero value).
func c16Goexit(id string, n, fixedPool int, random bool, bad int) core.Scenario {
	return core.Scenario{ID: id, Class: "PMap.goexit", Run: func(c *core.Ctx) {
		rep := map[string]any{"scenario": id, "len": n, "fixed_pool": fixedPool, "random_order": random, "goexit_at_element": bad}
		c.Eval(1)
		c.Distinct(id)
		list := make([]int, n)
		for i := range list {
			list[i] = i
		}
		calls := make([]atomic.Int32, n)
		var total atomic.Int64
		done := make(chan struct{})
		var res []int
		var pv any
		go func() {
			defer close(done)
			pv, _ = core.Catch(func() {
				res = fpgo.PMap(func(x int) int {
					calls[x].Add(1)
					total.Add(1)
					if x == bad {
						runtime.Goexit()
					}
					return x*10 + 7
				}, &fpgo.PMapOption{FixedPool: fixedPool, RandomOrder: random}, list...)
			})
		}()
		v, dump := core.AwaitOrStuck(done, 2*time.Second, 60*time.Second, func() int64 { return total.Load() })
		if v == "stuck" {
			rep["goroutines"] = core.RepoGoroutineSummary(dump)
			c.Violationf("PMap:does-not-return", rep, "PMap(len %d, FixedPool %d, RandomOrder %v) where the application to element %d ends its goroutine with runtime.Goexit never returned although every started application has ended", n, fixedPool, random, bad)
			return
		}
		if v != "done" {
			c.Inconclusive("watchdog in " + id)
			return
		}
		if pv != nil {
			c.Violationf("PMap:panic:"+core.NormalizePanic(fmt.Sprint(pv)), rep, "PMap with a callback that calls runtime.Goexit panics in the caller: %v", pv)
			return
		}
		for i := range calls {
			if calls[i].Load() > 1 {
				c.Violationf("PMap:f-applied-not-once", rep, "f was applied %d times to element %d", calls[i].Load(), i)
			}
		}
		for _, r := range res {
			if r != 0 && (r%10 != 7 || r/10 < 0 || r/10 >= n || r/10 == bad) {
				c.Violationf("PMap:invented-result", rep, "result %d is neither the zero value nor f(x) of an element whose application returned", r)
			}
		}
	}}
}

func c16Scenarios(c *core.Ctx, race bool) []core.Scenario {
	var out []core.Scenario
	for _, fp := range []int{0, 1, 2, 3, 6, 9} {
		for _, random := range []bool{false, true} {
			for _, bad := range []int{0, 3, 5} {
				out = append(out, c16Goexit(fmt.Sprintf("goexit-fp%d-rnd%v-bad%d-race%v", fp, random, bad, race), 6, fp, random, bad))
			}
		}
	}
	for _, n := range []int{1, 2, 3, 8, 33} {
		for _, fp := range []int{0, 1, 2, 3, n} {
			for _, random := range []bool{false, true} {
				out = append(out, c16NilResults(fmt.Sprintf("nil-results-n%d-fp%d-rnd%v-race%v", n, fp, random, race), n, fp, random))
			}
		}
	}
	for i, cfg := range [][5]int{{300, -1, 3, -1, 1}, {600, 0, 2, 1, 1}, {1100, 1000, 3, 2, 1}, {80, -1, 4, -1, 4}, {40, 8, 5, 2, 3}, {2100, -1, 2, -1, 1}, {5000, 4500, 2, 0, 1}} {
		if race && i%2 == 1 {
			continue
		}
		if i >= 5 && !c.Thorough() {
			continue
		}
		out = append(out, c16Nested(fmt.Sprintf("nested-%d-fp%d-in%d-fp%d-x%d-race%v", cfg[0], cfg[1], cfg[2], cfg[3], cfg[4], race), cfg[0], cfg[1], cfg[2], cfg[3], cfg[4]))
	}
	for _, fp := range []int{1, 2, 3, 7} {
		for _, random := range []bool{false, true} {
			out = append(out, c16OptionReuse(fmt.Sprintf("option-reuse-fp%d-rnd%v-race%v", fp, random, race), fp, random, []int{5, 0, 64, 1, 40, 0, 0, 33, 2, 48}))
			out = append(out, c16OptionReuse(fmt.Sprintf("option-reuse-short-first-fp%d-rnd%v-race%v", fp, random, race), fp, random, []int{1, 30, 2, 30, 0, 30}))
		}
	}
	lens := []int{0, 1, 2, 3, 5, 8, 13, 21, 34, 64}
	if c.Thorough() {
		lens = append(lens, 4, 6, 7, 16, 33, 100, 257)
	}
	i := 0
	for _, n := range lens {
		pools := []int{-1, 0, 1, 2, n - 1, n, n + 1, 1000}
		for _, fp := range pools {
			for _, random := range []bool{false, true} {
				for profile := 0; profile < 5; profile++ {
					reps := c.Pick(1, 20)
					if race {
						if (i+profile)%4 != 0 {
							i++
							continue
						}
						reps = c.Pick(1, 4)
					}
					for r := 0; r < reps; r++ {
						out = append(out, c16Scenario(fmt.Sprintf("pmap-n%d-fp%d-rnd%v-prof%d-r%d-race%v", n, fp, random, profile, r, race), race, n, fp, true, random, profile, c.Seed*13+int64(i*31+r)))
					}
					i++
				}
			}
		}
		out = append(out, c16Scenario(fmt.Sprintf("pmap-n%d-noopt-race%v", n, race), race, n, 0, false, false, 3, c.Seed+int64(n)))
	}
	// long lists (beyond any plausible internal queue bound) with small and large pools
	long := []int{1030, 1100, 2100, 5000}
	if c.Thorough() {
		long = append(long, 1025, 4097, 20000, 70000)
	}
	for _, n := range long {
		for _, fp := range []int{1, 2, 4, 7, 64, n / 2, n, 0} {
			for _, random := range []bool{false, true} {
				if race && (fp+n)%3 != 0 {
					continue
				}
				out = append(out, c16Scenario(fmt.Sprintf("pmap-long-n%d-fp%d-rnd%v-race%v", n, fp, random, race), race, n, fp, true, random, 0, c.Seed+int64(n+fp)))
			}
		}
	}
	return out
}

func init() {
	core.Register(&core.Check{
		ID: "C16",
		Meta: func(c *core.Ctx) core.Meta {
			return core.Meta{
				Level:       "exploration",
				Rule:        "list lengths {0,1,2,3,5,8,13,21,34,64} (+7 more in thorough) and long lists {1030,1100,2100,5000} (thorough up to 70000) with pools {1,2,4,7,64,n/2,n,0} x FixedPool in {-1,0,1,2,len-1,len,len+1,1000} and no option x {ordered, RandomOrder} x 5 duration profiles (uniform, decreasing with the index so that completion order reverses, one very slow first element, PRNG yields, sleeps); f is the monitor: per-element atomic call counters (unique elements), a concurrency gauge whose maximum is compared with min(FixedPool, len), result compared with the harness' own map (permutation for RandomOrder), gauge must be 0 when PMap returns; termination by the stuck detector; interface result types with nil results; zero-size result types (struct{}, [0]int); caller slices with spare capacity holding non-elements; nested use (f itself calls PMap; 300..1100 outer workers (thorough 5000), or several concurrent outer calls); one *PMapOption value reused across sequences of calls with lists of lengths {5,0,64,1,40,0,0,33,2,48} (bound per call from the FixedPool the caller wrote); repeated in the -race build (deciding: result assembly must be race-free). distinct_nontrivial = distinct scenarios; (round 7) one application ending its goroutine with runtime.Goexit (6 pool sizes x both modes x 3 positions): the call returns, at-most-once, no invented result",
				Assumptions: []string{"FixedPool <= 0 or absent means len(list) goroutines", "the stuck verdict needs: no return, no hook progress for 2 s and no library goroutine running/runnable/sleeping in two successive dumps"},
			}
		},
		Scenarios: c16Scenarios,
		Batch:     100, RaceToo: true, RaceBatch: 50, Par: 8, Timeout: 300e9,
		RaceRelevant: func(s core.RaceSig) bool {
			return strings.Contains(s.Text, "pMap") || strings.Contains(s.Text, "PMap")
		},
	})
}

var _ sync.Mutex
