package props

import (
	"fmt"
	"math/rand"
	"runtime"
	"runtime/debug"
	"strings"
	"sync"
	"sync/atomic"
	"time"

	fpgo "github.com/TeaEntityLab/fpGo/v2"

	"verifharness/internal/core"
	"verifharness/internal/hist"
)

// C08 — ConcurrentQueue / ConcurrentStack are linearizable over any wrapped queue / stack.

// a deliberately non-thread-safe queue+stack provided by the harness (the wrapper alone must make it safe)
type c08Slice struct{ items []int64 }

func (s *c08Slice) Put(v int64) error    { return s.Offer(v) }
func (s *c08Slice) Offer(v int64) error  { s.items = append(s.items, v); return nil }
func (s *c08Slice) Take() (int64, error) { return s.Poll() }
func (s *c08Slice) Poll() (int64, error) {
	if len(s.items) == 0 {
		return 0, fpgo.ErrQueueIsEmpty
	}
	v := s.items[0]
	s.items = s.items[1:]
	return v, nil
}
func (s *c08Slice) Push(v int64) error { s.items = append(s.items, v); return nil }
func (s *c08Slice) Pop() (int64, error) {
	if len(s.items) == 0 {
		return 0, fpgo.ErrStackIsEmpty
	}
	v := s.items[len(s.items)-1]
	s.items = s.items[:len(s.items)-1]
	return v, nil
}

// c08Spill: FIFO = the embedded channel (oldest values) followed by the overflow slice; not thread-safe by itself
type c08Spill struct {
	fpgo.ChannelQueue[int64]
	spill []int64
}

func (q *c08Spill) Offer(v int64) error {
	if len(q.spill) == 0 && q.ChannelQueue.Offer(v) == nil {
		return nil
	}
	q.spill = append(q.spill, v)
	return nil
}

func (q *c08Spill) Poll() (int64, error) {
	v, err := q.ChannelQueue.Poll()
	if err == nil {
		if len(q.spill) > 0 {
			q.ChannelQueue.Offer(q.spill[0])
			q.spill = q.spill[1:]
		}
		return v, nil
	}
	if len(q.spill) > 0 {
		v = q.spill[0]
		q.spill = q.spill[1:]
		return v, nil
	}
	return 0, fpgo.ErrQueueIsEmpty
}

func (q *c08Spill) Put(v int64) error    { return q.Offer(v) }
func (q *c08Spill) Take() (int64, error) { return q.Poll() }

type c08Target struct {
	name  string
	model hist.ModelKind
	cap   int
	buf   int
	held  func() int // values held by the wrapped structure (only where the wrapped structure refills itself in the background)
	close func()
	offer func(v int64, alt bool) error
	take  func(alt bool) (int64, error)
}

func c08MakeTarget(kind int) *c08Target {
	switch kind {
	case 0:
		q := fpgo.NewConcurrentQueue[int64](fpgo.NewLinkedListQueue[int64]())
		return &c08Target{name: "ConcurrentQueue(LinkedListQueue)", model: hist.FIFO,
			offer: func(v int64, alt bool) error {
				if alt {
					return q.Put(v)
				}
				return q.Offer(v)
			},
			take: func(alt bool) (int64, error) {
				if alt {
					return q.Take()
				}
				return q.Poll()
			}}
	case 1:
		s := fpgo.NewConcurrentStack[int64](fpgo.NewLinkedListQueue[int64]())
		return &c08Target{name: "ConcurrentStack(LinkedListQueue)", model: hist.LIFO,
			offer: func(v int64, alt bool) error { return s.Push(v) },
			take:  func(alt bool) (int64, error) { return s.Pop() }}
	case 2:
		q := fpgo.NewConcurrentQueue[int64](fpgo.NewChannelQueue[int64](3))
		return &c08Target{name: "ConcurrentQueue(ChannelQueue(3))", model: hist.BoundedFIFO, cap: 3,
			offer: func(v int64, alt bool) error { return q.Offer(v) },
			take:  func(alt bool) (int64, error) { return q.Poll() }}
	case 3:
		q := fpgo.NewConcurrentQueue[int64](&c08Slice{})
		return &c08Target{name: "ConcurrentQueue(harness slice queue)", model: hist.FIFO,
			offer: func(v int64, alt bool) error {
				if alt {
					return q.Put(v)
				}
				return q.Offer(v)
			},
			take: func(alt bool) (int64, error) {
				if alt {
					return q.Take()
				}
				return q.Poll()
			}}
	case 5:
		inner := fpgo.NewBufferedChannelQueue[int64](2, 6, 4)
		inner.SetLoadFromPoolDuration(50 * time.Microsecond)
		q := fpgo.NewConcurrentQueue[int64](inner)
		return &c08Target{name: "ConcurrentQueue(BufferedChannelQueue(2,6))", model: hist.RelaxedBuffered, cap: 2, buf: 6,
			held:  func() int { return inner.Count() },
			close: func() { inner.Close() },
			offer: func(v int64, alt bool) error { return q.Offer(v) },
			take:  func(alt bool) (int64, error) { return q.Poll() }}
	case 6:
		// a user queue that EMBEDS a library queue (so it inherits whatever methods that type has) and adds unsynchronised
		// state of its own: the wrapper must serialise it like any other queue
		q := fpgo.NewConcurrentQueue[int64](&c08Spill{ChannelQueue: fpgo.NewChannelQueue[int64](4)})
		return &c08Target{name: "ConcurrentQueue(user queue embedding ChannelQueue(4) + overflow slice)", model: hist.FIFO,
			offer: func(v int64, alt bool) error {
				if alt {
					return q.Put(v)
				}
				return q.Offer(v)
			},
			take: func(alt bool) (int64, error) {
				if alt {
					return q.Take()
				}
				return q.Poll()
			}}
	default:
		s := fpgo.NewConcurrentStack[int64](&c08Slice{})
		return &c08Target{name: "ConcurrentStack(harness slice stack)", model: hist.LIFO,
			offer: func(v int64, alt bool) error { return s.Push(v) },
			take:  func(alt bool) (int64, error) { return s.Pop() }}
	}
}

func resOf(err error) string {
	switch err {
	case nil:
		return "ok"
	case fpgo.ErrQueueIsEmpty, fpgo.ErrStackIsEmpty:
		return "empty"
	case fpgo.ErrQueueIsFull, fpgo.ErrStackIsFull:
		return "full"
	case fpgo.ErrQueueIsClosed:
		return "closed"
	case fpgo.ErrQueueTakeTimeout:
		return "timeout"
	}
	return "other"
}

func c08Scenario(id string, kind, producers, consumers, opsEach int, long bool, seed int64) core.Scenario {
	return core.Scenario{ID: id, Class: "ConcurrentQueue/Stack", Run: func(c *core.Ctx) {
		tg := c08MakeTarget(kind)
		n := producers + consumers
		rec := hist.NewRecorder(n + 1)
		var wg sync.WaitGroup
		start := make(chan struct{})
		var pmu sync.Mutex
		panics := map[string]string{}
		guard := func(proc int, fn func()) {
			defer func() {
				if r := recover(); r != nil {
					pmu.Lock()
					panics[core.NormalizePanic(fmt.Sprint(r))+"@"+core.TopRepoFrame(3)] = fmt.Sprintf("proc %d: %v", proc, r)
					pmu.Unlock()
				}
			}()
			fn()
		}
		for p := 0; p < n; p++ {
			wg.Add(1)
			go func(p int) {
				defer wg.Done()
				rng := rand.New(rand.NewSource(seed*131 + int64(p)))
				<-start
				seq := 0
				for k := 0; k < opsEach; k++ {
					isProd := p < producers
					// mixed roles in short histories: a producer occasionally removes and vice versa
					if !long && rng.Intn(5) == 0 {
						isProd = !isProd
					}
					alt := rng.Intn(2) == 0
					guard(p, func() {
						if isProd {
							seq++
							v := hist.Value(p+1, seq)
							i := rec.Begin(p, "offer", v)
							err := tg.offer(v, alt)
							rec.End(p, i, 0, resOf(err))
						} else {
							i := rec.Begin(p, "take", 0)
							v, err := tg.take(alt)
							rec.End(p, i, v, resOf(err))
						}
					})
					if rng.Intn(4) == 0 {
						runtime.Gosched()
					}
				}
			}(p)
		}
		close(start)
		wg.Wait()
		// drain (single goroutine)
		drained := true
		strandedFor := time.Duration(0)
		guard(n, func() {
			for k := 0; k < producers*opsEach+n*opsEach+8; k++ {
				i := rec.Begin(n, "take", 0)
				v, err := tg.take(false)
				rec.End(n, i, v, resOf(err))
				if err != nil {
					// a structure that refills its front in the background may be empty for a moment; but with nothing else
					// running, values it still holds must become removable
					if tg.held != nil && tg.held() > 0 && strandedFor < time.Second {
						time.Sleep(200 * time.Microsecond)
						strandedFor += 200 * time.Microsecond
						k--
						continue
					}
					return
				}
				strandedFor = 0
			}
			drained = false
		})
		if tg.held != nil && tg.held() > 0 && strandedFor >= time.Second {
			c.Violationf("removal-reports-empty-although-values-are-held", map[string]any{"scenario": id, "target": tg.name},
				"%s: with no other operation in progress every removal reported empty for 1 s (20000 loader intervals) although the wrapped queue holds %d accepted values", tg.name, tg.held())
			drained = false
		}
		if tg.close != nil {
			defer tg.close()
		}
		ops := rec.Ops()
		c.Eval(1)
		c.Count("ops", int64(len(ops)))
		c.CountMax("max.goroutines", int64(n))
		c.Distinct(id)
		rep := map[string]any{"scenario": id, "target": tg.name}
		for k, v := range panics {
			c.Violationf("panic:"+k, rep, "%s: a call panicked: %s", tg.name, v)
		}
		for class, msg := range hist.ExactlyOnce(ops, drained && len(panics) == 0, tg.model != hist.LIFO) {
			r2 := map[string]any{"scenario": id, "target": tg.name, "history": hist.Describe(ops, 60)}
			c.Violationf("history:"+class, r2, "%s: %s", tg.name, msg)
		}
		if !long {
			switch hist.Linearizable(hist.Model(tg.model, tg.cap, tg.buf), ops, 10*time.Second) {
			case "illegal":
				c.Violationf("not-linearizable:"+[...]string{"FIFO", "LIFO", "BoundedFIFO", "RelaxedBuffered"}[tg.model], map[string]any{"scenario": id, "target": tg.name, "history": hist.Describe(ops, 80)},
					"%s: the recorded history of %d operations has no linearization", tg.name, len(ops))
				c.Count("porcupine.illegal", 1)
			case "unknown":
				c.Count("porcupine.unknown", 1) // undecided history: neither held nor violated
			default:
				c.Count("porcupine.ok", 1)
			}
		}
		if c.WantSample() && !long {
			c.Sample(map[string]any{"scenario": id, "target": tg.name, "history": hist.Describe(ops, 12)})
		}
	}}
}

// c08Burst: phased backlogs far above any plausible internal bound (node free lists, pools): rounds of
// {all producers offer, join, all consumers remove until empty, join, quiescent probes: removal on the empty
// structure must report empty, one value goes through alone}. Everything is recorded in one history.
func c08Burst(id string, kind, workers, backlog, rounds int, seed int64) core.Scenario {
	return core.Scenario{ID: id, Class: "ConcurrentQueue/Stack", Run: func(c *core.Ctx) {
		old := debug.SetGCPercent(-1) // keep recycled nodes in whatever pool the structure uses
		defer debug.SetGCPercent(old)
		tg := c08MakeTarget(kind)
		rec := hist.NewRecorder(workers + 1)
		var pmu sync.Mutex
		panics := map[string]string{}
		guard := func(proc int, fn func()) {
			defer func() {
				if r := recover(); r != nil {
					pmu.Lock()
					panics[core.NormalizePanic(fmt.Sprint(r))+"@"+core.TopRepoFrame(3)] = fmt.Sprintf("proc %d: %v", proc, r)
					pmu.Unlock()
				}
			}()
			fn()
		}
		seqs := make([]int, workers+1)
		rep := map[string]any{"scenario": id, "target": tg.name, "backlog": backlog, "rounds": rounds}
		for r := 0; r < rounds && len(panics) == 0; r++ {
			var wg sync.WaitGroup
			for p := 0; p < workers; p++ {
				wg.Add(1)
				go func(p int) {
					defer wg.Done()
					for k := 0; k < backlog/workers; k++ {
						guard(p, func() {
							seqs[p]++
							v := hist.Value(p+1, seqs[p])
							i := rec.Begin(p, "offer", v)
							err := tg.offer(v, k%2 == 0)
							rec.End(p, i, 0, resOf(err))
						})
					}
				}(p)
			}
			wg.Wait()
			for p := 0; p < workers; p++ {
				wg.Add(1)
				go func(p int) {
					defer wg.Done()
					for k := 0; k < backlog+4; k++ {
						empty := false
						guard(p, func() {
							i := rec.Begin(p, "take", 0)
							v, err := tg.take(k%2 == 0)
							rec.End(p, i, v, resOf(err))
							empty = err != nil
						})
						if empty {
							return
						}
					}
				}(p)
			}
			wg.Wait()
			// quiescent probes
			guard(workers, func() {
				i := rec.Begin(workers, "take", 0)
				v, err := tg.take(false)
				rec.End(workers, i, v, resOf(err))
				if err == nil {
					c.Violationf("burst:removal-on-drained-structure-returns-a-value", rep, "%s: round %d: after the backlog of %d was removed completely a removal returned %d instead of reporting empty", tg.name, r, backlog, v)
				}
				seqs[workers]++
				v1 := hist.Value(workers+1, seqs[workers])
				i = rec.Begin(workers, "offer", v1)
				err = tg.offer(v1, false)
				rec.End(workers, i, 0, resOf(err))
				i = rec.Begin(workers, "take", 0)
				v, err = tg.take(false)
				rec.End(workers, i, v, resOf(err))
				if err != nil || v != v1 {
					c.Violationf("burst:single-value-through-quiescent-structure", rep, "%s: round %d: one value offered to the drained structure came back as (%d, %v)", tg.name, r, v, err)
				}
			})
		}
		ops := rec.Ops()
		c.Eval(1)
		c.Count("ops", int64(len(ops)))
		c.CountMax("max.backlog", int64(backlog))
		c.Distinct(id)
		for k, v := range panics {
			c.Violationf("panic:"+k, rep, "%s: a call panicked: %s", tg.name, v)
		}
		for class, msg := range hist.ExactlyOnce(ops, len(panics) == 0, tg.model != hist.LIFO) {
			c.Violationf("history:"+class, rep, "%s: %s", tg.name, msg)
		}
	}}
}

// one LinkedListQueue used through BOTH wrappers, in phases that do not overlap: a ConcurrentQueue phase (Offer/Poll,
// something is left inside), then a ConcurrentStack phase (Push/Pop), then a drain through Pop; and the other way round.
func c08Phased(id string, workers, each int, queueFirst bool, seed int64) core.Scenario {
	return core.Scenario{ID: id, Class: "ConcurrentQueue/Stack", Run: func(c *core.Ctx) {
		inner := fpgo.NewLinkedListQueue[int64]()
		q := fpgo.NewConcurrentQueue[int64](inner)
		st := fpgo.NewConcurrentStack[int64](inner)
		rec := hist.NewRecorder(workers + 1)
		var pmu sync.Mutex
		panics := map[string]string{}
		guard := func(proc int, fn func()) {
			defer func() {
				if r := recover(); r != nil {
					pmu.Lock()
					panics[core.NormalizePanic(fmt.Sprint(r))+"@"+core.TopRepoFrame(3)] = fmt.Sprintf("proc %d: %v", proc, r)
					pmu.Unlock()
				}
			}()
			fn()
		}
		seqs := make([]int, workers+1)
		phase := func(useQueue bool, rounds int) {
			var wg sync.WaitGroup
			for p := 0; p < workers; p++ {
				wg.Add(1)
				go func(p int) {
					defer wg.Done()
					rng := rand.New(rand.NewSource(seed*977 + int64(p) + int64(rounds)))
					for k := 0; k < rounds; k++ {
						guard(p, func() {
							if rng.Intn(5) < 3 { // more insertions than removals: something is left for the next phase
								seqs[p]++
								v := hist.Value(p+1, seqs[p])
								i := rec.Begin(p, "offer", v)
								var err error
								if useQueue {
									err = q.Offer(v)
								} else {
									err = st.Push(v)
								}
								rec.End(p, i, 0, resOf(err))
							} else {
								i := rec.Begin(p, "take", 0)
								var v int64
								var err error
								if useQueue {
									v, err = q.Poll()
								} else {
									v, err = st.Pop()
								}
								rec.End(p, i, v, resOf(err))
							}
						})
					}
				}(p)
			}
			wg.Wait()
		}
		for r := 0; r < 3; r++ {
			phase(queueFirst, each+r)
			phase(!queueFirst, each+r)
		}
		drained := false
		guard(workers, func() {
			for k := 0; k < workers*each*8+16; k++ {
				i := rec.Begin(workers, "take", 0)
				var v int64
				var err error
				if k%2 == 0 {
					v, err = st.Pop()
				} else {
					v, err = q.Poll()
				}
				rec.End(workers, i, v, resOf(err))
				if err != nil {
					drained = true
					return
				}
			}
		})
		ops := rec.Ops()
		c.Eval(1)
		c.Count("ops", int64(len(ops)))
		c.Distinct(id)
		rep := map[string]any{"scenario": id, "target": "one LinkedListQueue behind a ConcurrentQueue and a ConcurrentStack, phases do not overlap", "queue_phase_first": queueFirst}
		for k, v := range panics {
			c.Violationf("panic:"+k, rep, "queue phase / stack phase over one LinkedListQueue: a call panicked: %s", v)
		}
		if n := inner.Count(); len(panics) == 0 && drained && n != 0 {
			c.Violationf("phased:count-after-drain", rep, "after draining, the wrapped LinkedListQueue reports Count()=%d", n)
		}
		for class, msg := range hist.ExactlyOnce(ops, drained && len(panics) == 0, false) {
			c.Violationf("history:"+class, map[string]any{"scenario": id, "history": hist.Describe(ops, 60)}, "queue phase / stack phase over one LinkedListQueue: %s", msg)
		}
	}}
}

// a wrapped structure that fails now and then (a user queue with a bug, a ChannelQueue closed by its owner: its Offer
// panics): the failing call panics in ITS caller, every other call goes on behaving as if executed one at a time
type c08Faulty struct {
	c08Slice
	calls, failAt int
}

func (q *c08Faulty) Offer(v int64) error {
	q.calls++
	if q.calls == q.failAt {
		panic("injected fault in the wrapped queue")
	}
	return q.c08Slice.Offer(v)
}
func (q *c08Faulty) Put(v int64) error { return q.Offer(v) }
func (q *c08Faulty) Push(v int64) error {
	q.calls++
	if q.calls == q.failAt {
		panic("injected fault in the wrapped stack")
	}
	return q.c08Slice.Push(v)
}

func c08FaultyWrapped(id string, kind int, seed int64) core.Scenario {
	return core.Scenario{ID: id, Class: "ConcurrentQueue/Stack.faulty", Run: func(c *core.Ctx) {
		c.Eval(1)
		c.Distinct(id)
		var offer func(v int64) error
		var take func() (int64, error)
		name := ""
		switch kind {
		case 0:
			q := fpgo.NewConcurrentQueue[int64](&c08Faulty{failAt: 5 + int(seed%20)})
			offer, take, name = q.Offer, q.Poll, "ConcurrentQueue(user queue whose Offer panics once)"
		case 1:
			s := fpgo.NewConcurrentStack[int64](&c08Faulty{failAt: 5 + int(seed%20)})
			offer, take, name = s.Push, s.Pop, "ConcurrentStack(user stack whose Push panics once)"
		default:
			ch := fpgo.NewChannelQueue[int64](64)
			q := fpgo.NewConcurrentQueue[int64](ch)
			n := 0
			var mu sync.Mutex
			offer = func(v int64) error {
				mu.Lock()
				n++
				if n == 10 {
					close(ch) // the owner closes the wrapped channel queue: later Offers panic inside the wrapped structure
				}
				mu.Unlock()
				return q.Offer(v)
			}
			take, name = q.Poll, "ConcurrentQueue(ChannelQueue closed by its owner after 10 Offers)"
		}
		const workers, each = 4, 40
		var accepted, removed sync.Map
		var panicked atomic.Int32
		var wg sync.WaitGroup
		for w := 0; w < workers; w++ {
			wg.Add(1)
			go func(w int) {
				defer wg.Done()
				for k := 1; k <= each; k++ {
					v := hist.Value(w+1, k)
					if pv, _ := core.Catch(func() {
						if offer(v) == nil {
							accepted.Store(v, true)
						}
					}); pv != nil {
						panicked.Add(1)
					}
					if k%3 == 0 {
						core.Catch(func() {
							if x, err := take(); err == nil {
								removed.Store(x, true)
							}
						})
					}
				}
			}(w)
		}
		done := make(chan struct{})
		go func() {
			wg.Wait()
			core.Catch(func() {
				for k := 0; k < workers*each+4; k++ {
					x, err := take()
					if err != nil {
						break
					}
					removed.Store(x, true)
				}
			})
			close(done)
		}()
		v, dump := core.AwaitOrStuck(done, 2*time.Second, 60*time.Second, func() int64 { return 0 })
		if v == "stuck" {
			c.Violationf("faulty-wrapped:wrapper-unusable-after-a-panic", map[string]any{"scenario": id, "target": name, "goroutines": core.RepoGoroutineSummary(dump)},
				"%s: after %d calls panicked inside the wrapped structure (in their own callers), the other callers never return: the wrapper is blocked for good", name, panicked.Load())
			return
		}
		if v != "done" {
			c.Inconclusive("watchdog in " + id)
			return
		}
		if kind < 2 {
			lost := 0
			accepted.Range(func(k, _ any) bool {
				if _, ok := removed.Load(k); !ok {
					lost++
				}
				return true
			})
			if lost > 0 {
				c.Violationf("faulty-wrapped:lost", map[string]any{"scenario": id, "target": name}, "%s: %d accepted values were never returned by the drain", name, lost)
			}
		}
	}}
}

func c08Scenarios(c *core.Ctx, race bool) []core.Scenario {
	var out []core.Scenario
	for i := 0; i < c.Pick(9, 45); i++ {
		if race && i%3 == 2 {
			// (the owner's close() of the wrapped channel concurrent with sends is itself a report of the race detector:
			// this variant only runs in the normal build)
			continue
		}
		out = append(out, c08FaultyWrapped(fmt.Sprintf("faulty-%d-race%v", i, race), i%3, c.Seed+int64(i)))
	}
	out = append(out, c08Instantiations(fmt.Sprintf("instantiations-race%v", race)))
	for i := 0; i < c.Pick(40, 400); i++ {
		out = append(out, c08Phased(fmt.Sprintf("phased-%d-race%v", i, race), 1+i%4, 2+i%7, i%2 == 0, c.Seed*5+int64(i)))
	}
	for i, bl := range []int{1100, 2100, 3000, 4200, 12000} {
		if race && i > 1 {
			break
		}
		for _, kind := range []int{0, 1, 3} {
			for _, w := range []int{1, 4} {
				out = append(out, c08Burst(fmt.Sprintf("burst-k%d-w%d-n%d-race%v", kind, w, bl, race), kind, w, bl, c.Pick(4, 8), c.Seed+int64(i)))
			}
		}
	}
	sizes := []int{1, 2, 4, 8, 16}
	nShort := c.Pick(3000, 100000)
	nLong := c.Pick(20, 200)
	if race {
		nShort = c.Pick(500, 5000)
		nLong = c.Pick(6, 40)
	}
	rng := c.Rng("c08")
	for i := 0; i < nShort; i++ {
		// porcupine's search is exponential in the number of mutually concurrent operations: short histories
		// use 1..4 + 1..4 processes and <= 24 operations; 8 and 16 goroutines are exercised by the long runs
		p, cn := 1+rng.Intn(4), 1+rng.Intn(4)
		opsEach := 24 / (p + cn)
		if opsEach < 2 {
			opsEach = 2
		}
		if opsEach > 6 {
			opsEach = 6
		}
		kind := i % 7
		out = append(out, c08Scenario(fmt.Sprintf("short-%d-k%d-p%d-c%d-race%v", i, kind, p, cn, race), kind, p, cn, opsEach, false, c.Seed*7+int64(i)))
	}
	for i := 0; i < nLong; i++ {
		p, cn := sizes[1+rng.Intn(4)], sizes[1+rng.Intn(4)]
		kind := i % 7
		opsEach := c.Pick(3000, 20000) / (p + cn) * 2
		out = append(out, c08Scenario(fmt.Sprintf("long-%d-k%d-p%d-c%d-race%v", i, kind, p, cn, race), kind, p, cn, opsEach, true, c.Seed*11+int64(i)))
	}
	return out
}

// porcupinePost: histories on which the checker timed out are reported as undecided; the run as a
// whole is inconclusive only if they are more than 2 % of the checked histories.
func porcupinePost(c *core.Ctx) {
	ok, ill, unk := c.Counter("porcupine.ok"), c.Counter("porcupine.illegal"), c.Counter("porcupine.unknown")
	if tot := ok + ill + unk; tot > 0 && unk*50 > tot {
		c.Inconclusive(fmt.Sprintf("porcupine timed out on %d of %d histories", unk, tot))
	}
}

func init() {
	core.Register(&core.Check{
		ID: "C08",
		Meta: func(c *core.Ctx) core.Meta {
			return core.Meta{
				Level: "exploration",
				Rule:  "concurrent histories recorded at the client boundary (call before / return after, one monotonic clock, unique values = producer<<32|seq) against ConcurrentQueue and ConcurrentStack wrapping LinkedListQueue, ChannelQueue(3) (Offer/Poll), BufferedChannelQueue(2,6) (Offer/Poll, relaxed model; a drain that sees empty while the wrapped queue still holds values for 1 s is a violation) a harness-provided non-thread-safe slice queue/stack and a user queue that embeds ChannelQueue(4) and adds an unsynchronised overflow slice; one LinkedListQueue behind BOTH wrappers in non-overlapping queue / stack phases; wrapped structures that panic once (injected fault in a user queue / stack, a ChannelQueue closed by its owner): the other callers must go on; six other instantiations alive in one process (interface element types any / error / fmt.Stringer, *struct, func); 1..16 producers x 1..16 consumers, PRNG yields; short histories (<= 40 ops, mixed roles) are checked for linearizability with porcupine against FIFO / LIFO / BoundedFIFO models after a single-threaded drain; long runs by the exactly-once / no-invention / per-producer-order checker; phased bursts (backlogs 1100..12000 built by 1 or 4 producers, removed completely by 1 or 4 consumers, then quiescent probes, 4-8 rounds, GC paused so that recycled nodes stay pooled); every call under recover; the same workload repeated in the -race build (deciding). distinct_nontrivial = distinct scenarios (workload seeds)",
				Assumptions: []string{"a race report inside the wrapped structure or the wrapper refutes the property (the baseline wrapper is expected to serialise every access)",
					"ChannelQueue is wrapped through Offer/Poll only (its blocking Put/Take under the wrapper's lock are documented as blocking)"},
			}
		},
		Scenarios: c08Scenarios,
		Post:      porcupinePost,
		Batch:     200, RaceToo: true, RaceBatch: 60, Par: 8, Timeout: 300e9,
		RaceRelevant: func(s core.RaceSig) bool {
			return strings.Contains(s.Text, "LinkedListQueue") || strings.Contains(s.Text, "ConcurrentQueue") || strings.Contains(s.Text, "ConcurrentStack") || strings.Contains(s.Text, "c08Slice") || strings.Contains(s.Text, "c08Spill")
		},
	})
}
