package props

import (
	"fmt"
	"sync"
	"time"

	fpgo "github.com/TeaEntityLab/fpGo/v2"

	"verifharness/internal/core"
)

// C07 / C08 for interface element types, several instantiations alive in one process (error, fmt.Stringer, any):
// every accepted value comes out exactly once, in order, through the overflow list as well.

func c07InstOne[T any](c *core.Ctx, tname string, mk func(i int) T, id func(T) int) {
	rep := map[string]any{"element_type": tname}
	pv, where := core.Catch(func() {
		q := fpgo.NewBufferedChannelQueue[T](1, 16, 4)
		q.SetLoadFromPoolDuration(50 * time.Microsecond)
		defer q.Close()
		for round := 0; round < 3; round++ {
			n := 0
			for i := 1; i <= 12; i++ {
				if err := q.Offer(mk(round*100 + i)); err != nil {
					c.Violationf("instantiation["+tname+"]:offer", rep, "BufferedChannelQueue[%s](1,16): Offer #%d returned %v", tname, i, err)
					return
				}
				n++
			}
			for want := 1; want <= n; want++ {
				v, err := q.TakeWithTimeout(5 * time.Second)
				if err != nil || id(v) != round*100+want {
					c.Violationf("instantiation["+tname+"]:order", rep, "BufferedChannelQueue[%s](1,16): removal #%d returned (%v, %v), want element %d", tname, want, v, err, round*100+want)
					return
				}
			}
			if q.Count() != 0 {
				c.Violationf("instantiation["+tname+"]:count", rep, "BufferedChannelQueue[%s]: Count()=%d after a complete drain", tname, q.Count())
			}
		}
	})
	if pv != nil {
		c.Violationf("instantiation["+tname+"]:panic:"+core.NormalizePanic(fmt.Sprint(pv)), rep, "BufferedChannelQueue[%s] (other instantiations alive in this process) panics: %v at %s", tname, pv, where)
	}
}

func c07Instantiations(id string) core.Scenario {
	return core.Scenario{ID: id, Class: "BufferedChannelQueue.instantiations", Run: func(c *core.Ctx) {
		c.Eval(5)
		c.Distinct(id)
		c07InstOne[fmt.Stringer](c, "fmt.Stringer", func(i int) fmt.Stringer { return c06Named{i} }, func(v fmt.Stringer) int { return v.(c06Named).n })
		c07InstOne[error](c, "error", func(i int) error { return c06Named{i} }, func(v error) int { return v.(c06Named).n })
		c07InstOne[any](c, "any", func(i int) any { return i }, func(v any) int { return v.(int) })
		c07InstOne[func() int](c, "func", func(i int) func() int { return func() int { return i } }, func(v func() int) int { return v() })
		c07InstOne[*c06Named](c, "*struct", func(i int) *c06Named { return &c06Named{i} }, func(v *c06Named) int { return v.n })
	}}
}

func c08InstOne[T any](c *core.Ctx, tname string, stack bool, mk func(i int) T, id func(T) int) {
	what := map[bool]string{true: "ConcurrentStack", false: "ConcurrentQueue"}[stack]
	rep := map[string]any{"element_type": tname, "wrapper": what}
	var mu sync.Mutex
	var panics []string
	inner := fpgo.NewLinkedListQueue[T]()
	cq := fpgo.NewConcurrentQueue[T](inner)
	cs := fpgo.NewConcurrentStack[T](inner)
	put := func(v T) {
		if stack {
			cs.Push(v)
		} else {
			cq.Offer(v)
		}
	}
	get := func() (T, error) {
		if stack {
			return cs.Pop()
		}
		return cq.Poll()
	}
	const workers, each = 4, 300
	var wg sync.WaitGroup
	for w := 0; w < workers; w++ {
		wg.Add(1)
		go func(w int) {
			defer wg.Done()
			if pv, where := core.Catch(func() {
				for k := 0; k < each; k++ {
					put(mk(w*100000 + k + 1))
				}
			}); pv != nil {
				mu.Lock()
				panics = append(panics, fmt.Sprintf("%v at %s", pv, where))
				mu.Unlock()
			}
		}(w)
	}
	wg.Wait()
	seen := map[int]int{}
	if pv, where := core.Catch(func() {
		for k := 0; k < workers*each+5; k++ {
			v, err := get()
			if err != nil {
				break
			}
			seen[id(v)]++
		}
	}); pv != nil {
		panics = append(panics, fmt.Sprintf("%v at %s", pv, where))
	}
	if len(panics) > 0 {
		c.Violationf("instantiation["+tname+"]:panic:"+core.NormalizePanic(panics[0]), rep, "%s[%s] (other instantiations alive in this process): a call panicked: %s", what, tname, panics[0])
		return
	}
	lost, dup := 0, 0
	for w := 0; w < workers; w++ {
		for k := 0; k < each; k++ {
			switch n := seen[w*100000+k+1]; {
			case n == 0:
				lost++
			case n > 1:
				dup++
			}
		}
	}
	if lost+dup > 0 {
		c.Violationf("instantiation["+tname+"]:exactly-once", rep, "%s[%s]: %d of %d values lost, %d duplicated", what, tname, lost, workers*each, dup)
	}
}

func c08Instantiations(id string) core.Scenario {
	return core.Scenario{ID: id, Class: "ConcurrentQueue/Stack.instantiations", Run: func(c *core.Ctx) {
		c.Eval(6)
		c.Distinct(id)
		c08InstOne[any](c, "any", false, func(i int) any { return i }, func(v any) int { return v.(int) })
		c08InstOne[error](c, "error", false, func(i int) error { return c06Named{i} }, func(v error) int { return v.(c06Named).n })
		c08InstOne[fmt.Stringer](c, "fmt.Stringer", true, func(i int) fmt.Stringer { return c06Named{i} }, func(v fmt.Stringer) int { return v.(c06Named).n })
		c08InstOne[error](c, "error", true, func(i int) error { return c06Named{i} }, func(v error) int { return v.(c06Named).n })
		c08InstOne[*c06Named](c, "*struct", false, func(i int) *c06Named { return &c06Named{i} }, func(v *c06Named) int { return v.n })
		c08InstOne[func() int](c, "func", true, func(i int) func() int { return func() int { return i } }, func(v func() int) int { return v() })
	}}
}
