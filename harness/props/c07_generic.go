package props

import (
	"fmt"
	"math/rand"
	"runtime"
	"strings"
	"sync"
	"sync/atomic"
	"time"

	fpgo "github.com/TeaEntityLab/fpGo/v2"

	"verifharness/internal/core"
)

// C07 / C08 for interface element types, several instantiations alive in one process (error, fmt.Stringer, any):
// every accepted value comes out exactly once, in order, through the overflow list as well.

func c07InstOne[T any](c *core.Ctx, tname string, mk func(i int) T, id func(T) int) {
	rep := map[string]any{"element_type": tname}
	pv, where := core.Catch(func() {
		q := fpgo.NewBufferedChannelQueue[T](1, 16, 4)
		q.SetLoadFromPoolDuration(50 * time.Microsecond)
		defer q.Close()
		for round := 0; round < 3; round++ {
			n := 0
			for i := 1; i <= 12; i++ {
				if err := q.Offer(mk(round*100 + i)); err != nil {
					c.Violationf("instantiation["+tname+"]:offer", rep, "BufferedChannelQueue[%s](1,16): Offer #%d returned %v", tname, i, err)
					return
				}
				n++
			}
			for want := 1; want <= n; want++ {
				v, err := q.TakeWithTimeout(5 * time.Second)
				if err != nil || id(v) != round*100+want {
					c.Violationf("instantiation["+tname+"]:order", rep, "BufferedChannelQueue[%s](1,16): removal #%d returned (%v, %v), want element %d", tname, want, v, err, round*100+want)
					return
				}
			}
			if q.Count() != 0 {
				c.Violationf("instantiation["+tname+"]:count", rep, "BufferedChannelQueue[%s]: Count()=%d after a complete drain", tname, q.Count())
			}
		}
	})
	if pv != nil {
		c.Violationf("instantiation["+tname+"]:panic:"+core.NormalizePanic(fmt.Sprint(pv)), rep, "BufferedChannelQueue[%s] (other instantiations alive in this process) panics: %v at %s", tname, pv, where)
	}
}

func c07Instantiations(id string) core.Scenario {
	return core.Scenario{ID: id, Class: "BufferedChannelQueue.instantiations", Run: func(c *core.Ctx) {
		c.Eval(5)
		c.Distinct(id)
		c07InstOne[fmt.Stringer](c, "fmt.Stringer", func(i int) fmt.Stringer { return c06Named{i} }, func(v fmt.Stringer) int { return v.(c06Named).n })
		c07InstOne[error](c, "error", func(i int) error { return c06Named{i} }, func(v error) int { return v.(c06Named).n })
		c07InstOne[any](c, "any", func(i int) any { return i }, func(v any) int { return v.(int) })
		c07InstOne[func() int](c, "func", func(i int) func() int { return func() int { return i } }, func(v func() int) int { return v() })
		c07InstOne[*c06Named](c, "*struct", func(i int) *c06Named { return &c06Named{i} }, func(v *c06Named) int { return v.n })
	}}
}

func c08InstOne[T any](c *core.Ctx, tname string, stack bool, mk func(i int) T, id func(T) int) {
	what := map[bool]string{true: "ConcurrentStack", false: "ConcurrentQueue"}[stack]
	rep := map[string]any{"element_type": tname, "wrapper": what}
	var mu sync.Mutex
	var panics []string
	inner := fpgo.NewLinkedListQueue[T]()
	cq := fpgo.NewConcurrentQueue[T](inner)
	cs := fpgo.NewConcurrentStack[T](inner)
	put := func(v T) {
		if stack {
			cs.Push(v)
		} else {
			cq.Offer(v)
		}
	}
	get := func() (T, error) {
		if stack {
			return cs.Pop()
		}
		return cq.Poll()
	}
	const workers, each = 4, 300
	var wg sync.WaitGroup
	for w := 0; w < workers; w++ {
		wg.Add(1)
		go func(w int) {
			defer wg.Done()
			if pv, where := core.Catch(func() {
				for k := 0; k < each; k++ {
					put(mk(w*100000 + k + 1))
				}
			}); pv != nil {
				mu.Lock()
				panics = append(panics, fmt.Sprintf("%v at %s", pv, where))
				mu.Unlock()
			}
		}(w)
	}
	wg.Wait()
	seen := map[int]int{}
	if pv, where := core.Catch(func() {
		for k := 0; k < workers*each+5; k++ {
			v, err := get()
			if err != nil {
				break
			}
			seen[id(v)]++
		}
	}); pv != nil {
		panics = append(panics, fmt.Sprintf("%v at %s", pv, where))
	}
	if len(panics) > 0 {
		c.Violationf("instantiation["+tname+"]:panic:"+core.NormalizePanic(panics[0]), rep, "%s[%s] (other instantiations alive in this process): a call panicked: %s", what, tname, panics[0])
		return
	}
	lost, dup := 0, 0
	for w := 0; w < workers; w++ {
		for k := 0; k < each; k++ {
			switch n := seen[w*100000+k+1]; {
			case n == 0:
				lost++
			case n > 1:
				dup++
			}
		}
	}
	if lost+dup > 0 {
		c.Violationf("instantiation["+tname+"]:exactly-once", rep, "%s[%s]: %d of %d values lost, %d duplicated", what, tname, lost, workers*each, dup)
	}
}

func c08Instantiations(id string) core.Scenario {
	return core.Scenario{ID: id, Class: "ConcurrentQueue/Stack.instantiations", Run: func(c *core.Ctx) {
		c.Eval(6)
		c.Distinct(id)
		c08InstOne[any](c, "any", false, func(i int) any { return i }, func(v any) int { return v.(int) })
		c08InstOne[error](c, "error", false, func(i int) error { return c06Named{i} }, func(v error) int { return v.(c06Named).n })
		c08InstOne[fmt.Stringer](c, "fmt.Stringer", true, func(i int) fmt.Stringer { return c06Named{i} }, func(v fmt.Stringer) int { return v.(c06Named).n })
		c08InstOne[error](c, "error", true, func(i int) error { return c06Named{i} }, func(v error) int { return v.(c06Named).n })
		c08InstOne[*c06Named](c, "*struct", false, func(i int) *c06Named { return &c06Named{i} }, func(v *c06Named) int { return v.n })
		c08InstOne[func() int](c, "func", true, func(i int) func() int { return func() int { return i } }, func(v func() int) int { return v() })
	}}
}

// quiet periods: the queue is left alone for about a hundred loader intervals (anything that goes to sleep, retires or
// is torn down when idle does so now), then a burst goes through the overflow list and must come out again
func c07IdleThenBurst(id string, interval time.Duration, rounds int, seed int64) core.Scenario {
	return core.Scenario{ID: id, Class: "BufferedChannelQueue.idle", Run: func(c *core.Ctx) {
		c.Eval(int64(rounds))
		c.Distinct(id)
		q := fpgo.NewBufferedChannelQueue[int64](2, 16, 4)
		q.SetLoadFromPoolDuration(interval)
		q.SetFreeNodeHookPoolIntervalDuration(interval)
		defer func() { core.Catch(q.Close) }()
		next, want := int64(1), int64(1)
		for r := 0; r < rounds; r++ {
			// idle for 95..125 loader intervals (jitter from the round number and the seed)
			idle := interval * time.Duration(95+(int64(r)*7+seed)%31)
			for t0 := time.Now(); time.Since(t0) < idle; {
				runtime.Gosched()
			}
			burst := 3 + r%6
			for i := 0; i < burst; i++ {
				if err := q.Offer(next); err != nil {
					c.Violationf("idle:offer-refused", map[string]any{"scenario": id, "round": r}, "round %d: Offer returned %v on a queue of capacity 2+16 holding %d values", r, err, q.Count())
					return
				}
				next++
			}
			empties := 0
			for want < next {
				v, err := q.Poll()
				if err == nil {
					if v != want {
						c.Violationf("idle:order", map[string]any{"scenario": id, "round": r}, "round %d: Poll returned %d, want %d", r, v, want)
						return
					}
					want++
					empties = 0
					continue
				}
				empties++
				time.Sleep(interval)
				if empties >= 20000 {
					// 20000 polls, each of which wakes the loader and then waits a loader interval
					if quiet, dump := core.QuietNow(); quiet {
						c.Violationf("stranded:after-idle-period", map[string]any{"scenario": id, "round": r, "goroutines": core.RepoGoroutineSummary(dump)},
							"after an idle period of %v (loader interval %v) a burst of %d values was accepted; %d of them are still held (Count()=%d) but 20000 Polls in a row reported empty and no library goroutine can act", idle, interval, burst, next-want, q.Count())
					} else {
						c.Inconclusive("values not delivered after 20000 polls but the loader is still active in " + id)
					}
					return
				}
			}
		}
	}}
}

// c07Reconfigure: the overflow bound is changed on the LIVE queue (SetBufferSizeMaximum shrinking below / growing above
// the number of values currently buffered) between Offers, Polls and loader passes. Values accepted before a shrink stay
// accepted: everything accepted comes out exactly once in FIFO order, Count() = accepted - delivered at quiescence,
// an Offer is accepted only while fewer than capacity + (current maximum) values are held and refused (Full) only
// when at least (current maximum) values are held.
func c07Reconfigure(id string, rounds int, concurrent bool, seed int64) core.Scenario {
	return core.Scenario{ID: id, Class: "BufferedChannelQueue.reconfigure", Run: func(c *core.Ctx) {
		rng := rand.New(rand.NewSource(seed))
		for r := 0; r < rounds; r++ {
			c.Eval(1)
			capy, buf := 1+rng.Intn(3), 2+rng.Intn(7)
			interval := []time.Duration{20 * time.Microsecond, 100 * time.Microsecond}[rng.Intn(2)]
			q := fpgo.NewBufferedChannelQueue[int64](capy, buf, 4)
			q.SetLoadFromPoolDuration(interval)
			q.SetFreeNodeHookPoolIntervalDuration(interval)
			c.Distinct(fmt.Sprintf("%s cap%d buf%d", id, capy, buf))
			rep := map[string]any{"scenario": id, "round": r, "capacity": capy, "buffer_at_construction": buf}
			var trace []string
			var accepted []int64
			var delivered atomic.Int64
			gotCh := make(chan int64, 4096)
			stop := make(chan struct{})
			consumerDone := make(chan struct{})
			if concurrent {
				go func() {
					defer close(consumerDone)
					for {
						v, err := q.Poll()
						if err == nil {
							gotCh <- v
							delivered.Add(1)
							continue
						}
						select {
						case <-stop:
							return
						default:
							time.Sleep(interval)
						}
					}
				}()
			} else {
				close(consumerDone)
			}
			next := int64(1)
			cur := buf
			bad := false
			steps := 30 + rng.Intn(40)
			for s := 0; s < steps && !bad; s++ {
				switch k := rng.Intn(10); {
				case k < 6: // Offer
					held := int64(len(accepted)) - delivered.Load()
					err := q.Offer(next)
					heldAfter := int64(len(accepted)) - delivered.Load()
					trace = append(trace, fmt.Sprintf("Offer(%d)=%v", next, err))
					if err == nil {
						accepted = append(accepted, next)
						// (with a concurrent consumer 'held' may have dropped meanwhile: use the smaller reading)
						// and the consumer may have removed one value it has not counted yet)
						slack := int64(0)
						if concurrent {
							slack = 1
						}
						if h := min64(held, heldAfter) - slack; h >= int64(capy+cur) {
							rep["trace"] = trace
							c.Violationf("reconfigure:accepted-beyond-bound", rep, "Offer accepted a value while %d values were held: capacity %d + current bufferSizeMaximum %d", h, capy, cur)
							bad = true
						}
					} else if err == fpgo.ErrQueueIsFull {
						if h := max64(held, heldAfter); h < int64(cur) { // (the readings over-estimate what is really held)
							rep["trace"] = trace
							c.Violationf("reconfigure:full-below-maximum", rep, "Offer returned ErrQueueIsFull while only %d values were held and the current bufferSizeMaximum is %d", h, cur)
							bad = true
						}
					} else {
						rep["trace"] = trace
						c.Violationf("reconfigure:wrong-error", rep, "Offer returned %v", err)
						bad = true
					}
					next++
				case k < 8: // reconfigure: shrink below what is buffered, to 0, or grow
					cur = rng.Intn(10)
					q.SetBufferSizeMaximum(cur)
					trace = append(trace, fmt.Sprintf("SetBufferSizeMaximum(%d)", cur))
				case k < 9 && !concurrent:
					v, err := q.Poll()
					trace = append(trace, fmt.Sprintf("Poll=%d,%v", v, err))
					if err == nil {
						gotCh <- v
						delivered.Add(1)
					}
				default: // let the loader run some passes
					time.Sleep(interval * time.Duration(1+rng.Intn(5)))
					trace = append(trace, "pause")
				}
			}
			// quiescence: drain
			total := int64(len(accepted))
			t0 := time.Now()
			stranded := false
			for delivered.Load() < total && !bad {
				if !concurrent {
					if v, err := q.Poll(); err == nil {
						gotCh <- v
						delivered.Add(1)
						t0 = time.Now()
						continue
					}
				}
				time.Sleep(interval)
				if time.Since(t0) > 3*time.Second {
					if quiet, _ := core.QuietNow(); quiet || !concurrent {
						stranded = true
						break
					}
					if time.Since(t0) > 40*time.Second {
						c.Inconclusive("drain watchdog in " + id)
						bad = true
					}
				}
			}
			cnt := q.Count()
			close(stop)
			<-consumerDone
			close(gotCh)
			var got []int64
			for v := range gotCh {
				got = append(got, v)
			}
			if len(trace) > 80 {
				trace = trace[len(trace)-80:]
			}
			rep["trace"] = trace
			if !bad {
				if stranded {
					c.Violationf("reconfigure:lost-or-stranded", rep, "%d values were accepted, only %d could be retrieved (Count()=%d) after the producer stopped: accepted %v, retrieved %v", total, len(got), cnt, tail64(accepted, 24), tail64(got, 24))
				} else {
					for i := range got {
						if i >= len(accepted) || got[i] != accepted[i] {
							c.Violationf("reconfigure:order-or-invented", rep, "retrieved %v, accepted %v (single producer: FIFO)", tail64(got, 24), tail64(accepted, 24))
							break
						}
					}
					if cnt != 0 {
						c.Violationf("reconfigure:count", rep, "Count()=%d after every accepted value was retrieved", cnt)
					}
				}
			}
			core.Catch(q.Close)
			if bad || stranded {
				return
			}
		}
	}}
}

func min64(a, b int64) int64 {
	if a < b {
		return a
	}
	return b
}
func max64(a, b int64) int64 {
	if a > b {
		return a
	}
	return b
}
func tail64(v []int64, n int) []int64 {
	if len(v) > n {
		return v[len(v)-n:]
	}
	return v
}

// c07NeverBlocks: Offer / Poll / Count do not wait for the loader: with a loader interval of several seconds, a
// non-empty overflow buffer and no consumer, every call returns at once. A call that has not returned after 1.5 s is a
// violation only if a goroutine dump shows it parked on a lock inside the queue (a starved but runnable goroutine is
// inconclusive).
func c07NeverBlocks(id string, capy int) core.Scenario {
	return core.Scenario{ID: id, Class: "BufferedChannelQueue.nonblocking", Run: func(c *core.Ctx) {
		c.Distinct(id)
		q := fpgo.NewBufferedChannelQueue[int64](capy, 6, 4)
		q.SetLoadFromPoolDuration(4 * time.Second)
		defer func() { go core.Catch(q.Close) }()
		for i := 0; i < capy+2; i++ {
			q.Offer(int64(i + 1)) // the last two land in the overflow buffer and wake the loader
		}
		time.Sleep(5 * time.Millisecond)
		ops := []struct {
			name string
			run  func()
		}{
			{"Offer", func() { q.Offer(100) }},
			{"Count", func() { q.Count() }},
			{"Poll", func() { q.Poll() }},
			{"Offer", func() { q.Offer(101) }},
			{"Poll", func() { q.Poll() }},
			{"Count", func() { q.Count() }},
		}
		for k, op := range ops {
			c.Eval(1)
			done := make(chan struct{})
			go func() { defer close(done); op.run() }()
			select {
			case <-done:
				continue
			case <-time.After(1500 * time.Millisecond):
			}
			gs, _ := core.Dump()
			parked := ""
			for _, g := range gs {
				if strings.Contains(g.Text, "BufferedChannelQueue") && strings.Contains(g.Text, ")."+op.name+"(") &&
					(strings.Contains(g.State, "semacquire") || strings.Contains(g.State, "sync.Mutex") || strings.Contains(g.State, "sync.RWMutex")) {
					parked = g.State
				}
			}
			if parked != "" {
				c.Violationf("nonblocking:"+op.name+"-waits-for-the-loader", map[string]any{"scenario": id, "capacity": capy, "call": k, "goroutine_state": parked},
					"capacity %d, buffer 6 holding 2 values, loader interval 4 s, no consumer: %s (call #%d) has been parked on a lock of the queue for 1.5 s (goroutine state %q): the non-blocking operations wait for the loader", capy, op.name, k, parked)
			} else {
				c.Inconclusive(fmt.Sprintf("%s did not return within 1.5 s but is not parked on a lock (%s)", op.name, id))
			}
			<-done
			return
		}
	}}
}
