package props

import (
	"fmt"
	"runtime"
	"sync"
	"time"

	fpgo "github.com/TeaEntityLab/fpGo/v2"

	"verifharness/internal/core"
)

// C07 / C08 for interface element types, several instantiations alive in one process (error, fmt.Stringer, any):
// every accepted value comes out exactly once, in order, through the overflow list as well.

func c07InstOne[T any](c *core.Ctx, tname string, mk func(i int) T, id func(T) int) {
	rep := map[string]any{"element_type": tname}
	pv, where := core.Catch(func() {
		q := fpgo.NewBufferedChannelQueue[T](1, 16, 4)
		q.SetLoadFromPoolDuration(50 * time.Microsecond)
		defer q.Close()
		for round := 0; round < 3; round++ {
			n := 0
			for i := 1; i <= 12; i++ {
				if err := q.Offer(mk(round*100 + i)); err != nil {
					c.Violationf("instantiation["+tname+"]:offer", rep, "BufferedChannelQueue[%s](1,16): Offer #%d returned %v", tname, i, err)
					return
				}
				n++
			}
			for want := 1; want <= n; want++ {
				v, err := q.TakeWithTimeout(5 * time.Second)
				if err != nil || id(v) != round*100+want {
					c.Violationf("instantiation["+tname+"]:order", rep, "BufferedChannelQueue[%s](1,16): removal #%d returned (%v, %v), want element %d", tname, want, v, err, round*100+want)
					return
				}
			}
			if q.Count() != 0 {
				c.Violationf("instantiation["+tname+"]:count", rep, "BufferedChannelQueue[%s]: Count()=%d after a complete drain", tname, q.Count())
			}
		}
	})
	if pv != nil {
		c.Violationf("instantiation["+tname+"]:panic:"+core.NormalizePanic(fmt.Sprint(pv)), rep, "BufferedChannelQueue[%s] (other instantiations alive in this process) panics: %v at %s", tname, pv, where)
	}
}

func c07Instantiations(id string) core.Scenario {
	return core.Scenario{ID: id, Class: "BufferedChannelQueue.instantiations", Run: func(c *core.Ctx) {
		c.Eval(5)
		c.Distinct(id)
		c07InstOne[fmt.Stringer](c, "fmt.Stringer", func(i int) fmt.Stringer { return c06Named{i} }, func(v fmt.Stringer) int { return v.(c06Named).n })
		c07InstOne[error](c, "error", func(i int) error { return c06Named{i} }, func(v error) int { return v.(c06Named).n })
		c07InstOne[any](c, "any", func(i int) any { return i }, func(v any) int { return v.(int) })
		c07InstOne[func() int](c, "func", func(i int) func() int { return func() int { return i } }, func(v func() int) int { return v() })
		c07InstOne[*c06Named](c, "*struct", func(i int) *c06Named { return &c06Named{i} }, func(v *c06Named) int { return v.n })
	}}
}

func c08InstOne[T any](c *core.Ctx, tname string, stack bool, mk func(i int) T, id func(T) int) {
	what := map[bool]string{true: "ConcurrentStack", false: "ConcurrentQueue"}[stack]
	rep := map[string]any{"element_type": tname, "wrapper": what}
	var mu sync.Mutex
	var panics []string
	inner := fpgo.NewLinkedListQueue[T]()
	cq := fpgo.NewConcurrentQueue[T](inner)
	cs := fpgo.NewConcurrentStack[T](inner)
	put := func(v T) {
		if stack {
			cs.Push(v)
		} else {
			cq.Offer(v)
		}
	}
	get := func() (T, error) {
		if stack {
			return cs.Pop()
		}
		return cq.Poll()
	}
	const workers, each = 4, 300
	var wg sync.WaitGroup
	for w := 0; w < workers; w++ {
		wg.Add(1)
		go func(w int) {
			defer wg.Done()
			if pv, where := core.Catch(func() {
				for k := 0; k < each; k++ {
					put(mk(w*100000 + k + 1))
				}
			}); pv != nil {
				mu.Lock()
				panics = append(panics, fmt.Sprintf("%v at %s", pv, where))
				mu.Unlock()
			}
		}(w)
	}
	wg.Wait()
	seen := map[int]int{}
	if pv, where := core.Catch(func() {
		for k := 0; k < workers*each+5; k++ {
			v, err := get()
			if err != nil {
				break
			}
			seen[id(v)]++
		}
	}); pv != nil {
		panics = append(panics, fmt.Sprintf("%v at %s", pv, where))
	}
	if len(panics) > 0 {
		c.Violationf("instantiation["+tname+"]:panic:"+core.NormalizePanic(panics[0]), rep, "%s[%s] (other instantiations alive in this process): a call panicked: %s", what, tname, panics[0])
		return
	}
	lost, dup := 0, 0
	for w := 0; w < workers; w++ {
		for k := 0; k < each; k++ {
			switch n := seen[w*100000+k+1]; {
			case n == 0:
				lost++
			case n > 1:
				dup++
			}
		}
	}
	if lost+dup > 0 {
		c.Violationf("instantiation["+tname+"]:exactly-once", rep, "%s[%s]: %d of %d values lost, %d duplicated", what, tname, lost, workers*each, dup)
	}
}

func c08Instantiations(id string) core.Scenario {
	return core.Scenario{ID: id, Class: "ConcurrentQueue/Stack.instantiations", Run: func(c *core.Ctx) {
		c.Eval(6)
		c.Distinct(id)
		c08InstOne[any](c, "any", false, func(i int) any { return i }, func(v any) int { return v.(int) })
		c08InstOne[error](c, "error", false, func(i int) error { return c06Named{i} }, func(v error) int { return v.(c06Named).n })
		c08InstOne[fmt.Stringer](c, "fmt.Stringer", true, func(i int) fmt.Stringer { return c06Named{i} }, func(v fmt.Stringer) int { return v.(c06Named).n })
		c08InstOne[error](c, "error", true, func(i int) error { return c06Named{i} }, func(v error) int { return v.(c06Named).n })
		c08InstOne[*c06Named](c, "*struct", false, func(i int) *c06Named { return &c06Named{i} }, func(v *c06Named) int { return v.n })
		c08InstOne[func() int](c, "func", true, func(i int) func() int { return func() int { return i } }, func(v func() int) int { return v() })
	}}
}

// quiet periods: the queue is left alone for about a hundred loader intervals (anything that goes to sleep, retires or
// is torn down when idle does so now), then a burst goes through the overflow list and must come out again
func c07IdleThenBurst(id string, interval time.Duration, rounds int, seed int64) core.Scenario {
	return core.Scenario{ID: id, Class: "BufferedChannelQueue.idle", Run: func(c *core.Ctx) {
		c.Eval(int64(rounds))
		c.Distinct(id)
		q := fpgo.NewBufferedChannelQueue[int64](2, 16, 4)
		q.SetLoadFromPoolDuration(interval)
		q.SetFreeNodeHookPoolIntervalDuration(interval)
		defer func() { core.Catch(q.Close) }()
		next, want := int64(1), int64(1)
		for r := 0; r < rounds; r++ {
			// idle for 95..125 loader intervals (jitter from the round number and the seed)
			idle := interval * time.Duration(95+(int64(r)*7+seed)%31)
			for t0 := time.Now(); time.Since(t0) < idle; {
				runtime.Gosched()
			}
			burst := 3 + r%6
			for i := 0; i < burst; i++ {
				if err := q.Offer(next); err != nil {
					c.Violationf("idle:offer-refused", map[string]any{"scenario": id, "round": r}, "round %d: Offer returned %v on a queue of capacity 2+16 holding %d values", r, err, q.Count())
					return
				}
				next++
			}
			empties := 0
			for want < next {
				v, err := q.Poll()
				if err == nil {
					if v != want {
						c.Violationf("idle:order", map[string]any{"scenario": id, "round": r}, "round %d: Poll returned %d, want %d", r, v, want)
						return
					}
					want++
					empties = 0
					continue
				}
				empties++
				time.Sleep(interval)
				if empties >= 20000 {
					// 20000 polls, each of which wakes the loader and then waits a loader interval
					if quiet, dump := core.QuietNow(); quiet {
						c.Violationf("stranded:after-idle-period", map[string]any{"scenario": id, "round": r, "goroutines": core.RepoGoroutineSummary(dump)},
							"after an idle period of %v (loader interval %v) a burst of %d values was accepted; %d of them are still held (Count()=%d) but 20000 Polls in a row reported empty and no library goroutine can act", idle, interval, burst, next-want, q.Count())
					} else {
						c.Inconclusive("values not delivered after 20000 polls but the loader is still active in " + id)
					}
					return
				}
			}
		}
	}}
}
