package props

import (
	"errors"
	"fmt"
	"reflect"
	"regexp"
	"runtime"
	"sort"
	"strings"
	"sync"
	"sync/atomic"
	"time"

	fpgo "github.com/TeaEntityLab/fpGo/v2"

	"verifharness/internal/core"
)

// C20 — combinators compose in the documented order; first-match pattern matching.

type c20Env struct{ c *core.Ctx }

func (e *c20Env) run(area, what string, nontrivial bool, fn func() string) {
	e.c.Eval(1)
	if nontrivial {
		e.c.DistinctAdd(1)
	}
	var msg string
	pv, where := core.Catch(func() { msg = fn() })
	if pv != nil {
		e.c.Violationf(area+":panic:"+core.NormalizePanic(fmt.Sprint(pv)), map[string]any{"case": what}, "%s: %s panics: %v at %s", area, what, pv, where)
	} else if msg != "" {
		e.c.Violationf(area, map[string]any{"case": what}, "%s: %s: %s", area, what, msg)
	}
}

// ---- Compose / Pipe

func c20Fn(i int) func(...int) []int {
	if i < 2 {
		return func(xs ...int) []int { return append(append([]int(nil), xs...), i) } // the output is the application trace
	}
	return func(xs ...int) []int { // non-commuting arithmetic
		s := 0
		for _, x := range xs {
			s = s*3 + x
		}
		return []int{s*5 + i}
	}
}

func c20Compose(e *c20Env) {
	probes := [][]int{nil, {7}, {7, 8}}
	var lists [][]int
	for l := 1; l <= 6; l++ {
		cur := make([]int, l)
		var rec func(p int)
		rec = func(p int) {
			if p == l {
				lists = append(lists, append([]int(nil), cur...))
				return
			}
			for f := 0; f < 4; f++ {
				cur[p] = f
				rec(p + 1)
			}
		}
		rec(0)
	}
	parallelFor(len(lists), func(w, li int) {
		fl := lists[li]
		fs := make([]func(...int) []int, len(fl))
		rev := make([]func(...int) []int, len(fl))
		for i, f := range fl {
			fs[i] = c20Fn(f)
			rev[len(fl)-1-i] = fs[i]
		}
		e.run("Compose/Pipe", fmt.Sprint("functions ", fl), len(fl) > 1, func() string {
			for _, p := range probes {
				// expected folds
				wc := append([]int(nil), p...)
				for i := len(fs) - 1; i >= 0; i-- {
					wc = fs[i](wc...)
				}
				wp := append([]int(nil), p...)
				for i := 0; i < len(fs); i++ {
					wp = fs[i](wp...)
				}
				gc := fpgo.Compose(fs...)(p...)
				gp := fpgo.Pipe(fs...)(p...)
				if !eqSeq(gc, wc) {
					return fmt.Sprintf("Compose(fs)(%v)=%v, f1(f2(...fn(x)))=%v", p, gc, wc)
				}
				if !eqSeq(gp, wp) {
					return fmt.Sprintf("Pipe(fs)(%v)=%v, fn(...f1(x))=%v", p, gp, wp)
				}
				if r := fpgo.Pipe(rev...)(p...); !eqSeq(r, gc) {
					return fmt.Sprintf("Compose(fs) != Pipe(reverse fs) on %v: %v vs %v", p, gc, r)
				}
				if r := fpgo.Compose(rev...)(p...); !eqSeq(r, gp) {
					return fmt.Sprintf("Pipe(fs) != Compose(reverse fs) on %v: %v vs %v", p, gp, r)
				}
				// regrouping at every split point
				for k := 1; k < len(fs); k++ {
					l, r := fpgo.Compose(fs[:k]...), fpgo.Compose(fs[k:]...)
					if g := fpgo.Compose(l, r)(p...); !eqSeq(g, wc) {
						return fmt.Sprintf("Compose(Compose(fs[:%d]), Compose(fs[%d:])) = %v, want %v", k, k, g, wc)
					}
					lp, rp := fpgo.Pipe(fs[:k]...), fpgo.Pipe(fs[k:]...)
					if g := fpgo.Pipe(lp, rp)(p...); !eqSeq(g, wp) {
						return fmt.Sprintf("Pipe(Pipe(fs[:%d]), Pipe(fs[%d:])) = %v, want %v", k, k, g, wp)
					}
				}
			}
			return ""
		})
	})
	// interface{} entry points on a sample
	for _, fl := range lists[:340] {
		fl := fl
		e.run("ComposeInterface/PipeInterface", fmt.Sprint("functions ", fl), len(fl) > 1, func() string {
			fs := make([]func(...interface{}) []interface{}, len(fl))
			for i, f := range fl {
				tag := f
				fs[i] = func(xs ...interface{}) []interface{} { return append(append([]interface{}(nil), xs...), tag) }
			}
			wc := []interface{}{"x"}
			for i := len(fl) - 1; i >= 0; i-- {
				wc = append(wc, fl[i])
			}
			wp := []interface{}{"x"}
			for i := 0; i < len(fl); i++ {
				wp = append(wp, fl[i])
			}
			if g := fpgo.ComposeInterface(fs...)("x"); fmt.Sprint(g) != fmt.Sprint(wc) {
				return fmt.Sprintf("ComposeInterface trace %v want %v", g, wc)
			}
			if g := fpgo.PipeInterface(fs...)("x"); fmt.Sprint(g) != fmt.Sprint(wp) {
				return fmt.Sprintf("PipeInterface trace %v want %v", g, wp)
			}
			return ""
		})
	}
}

// ---- adapters

func c20Adapters(e *c20Env) {
	type rec = []any
	args := []int{11, 12, 13, 14, 15, 16, 17}
	chk := func(name string, got any, want any) string {
		if fmt.Sprint(got) != fmt.Sprint(want) {
			return fmt.Sprintf("%s passed %v, want %v", name, got, want)
		}
		return ""
	}
	e.run("adapters", "CurryParam1..6 / CurryParam1ForSlice1", true, func() string {
		var seen rec
		r1 := fpgo.CurryParam1(func(a string, xs ...int) rec { seen = rec{a, xs}; return seen }, "A")(args...)
		if m := chk("CurryParam1", r1, rec{"A", args}); m != "" {
			return m
		}
		r2 := fpgo.CurryParam2(func(a string, b bool, xs ...int) rec { return rec{a, b, xs} }, "A", true)(args[:2]...)
		if m := chk("CurryParam2", r2, rec{"A", true, args[:2]}); m != "" {
			return m
		}
		r3 := fpgo.CurryParam3(func(a string, b bool, c3 float64, xs ...int) rec { return rec{a, b, c3, xs} }, "A", true, 2.5)()
		if m := chk("CurryParam3", r3, rec{"A", true, 2.5, []int(nil)}); m != "" {
			return m
		}
		r4 := fpgo.CurryParam4(func(a string, b bool, c3 float64, d int8, xs ...int) rec { return rec{a, b, c3, d, xs} }, "A", true, 2.5, int8(4))(args[0])
		if m := chk("CurryParam4", r4, rec{"A", true, 2.5, int8(4), args[:1]}); m != "" {
			return m
		}
		r5 := fpgo.CurryParam5(func(a string, b bool, c3 float64, d int8, f uint, xs ...int) rec { return rec{a, b, c3, d, f, xs} }, "A", true, 2.5, int8(4), uint(5))(args...)
		if m := chk("CurryParam5", r5, rec{"A", true, 2.5, int8(4), uint(5), args}); m != "" {
			return m
		}
		r6 := fpgo.CurryParam6(func(a string, b bool, c3 float64, d int8, f uint, g rune, xs ...int) rec {
			return rec{a, b, c3, d, f, g, xs}
		}, "A", true, 2.5, int8(4), uint(5), 'z')(args[:3]...)
		if m := chk("CurryParam6", r6, rec{"A", true, 2.5, int8(4), uint(5), 'z', args[:3]}); m != "" {
			return m
		}
		rs := fpgo.CurryParam1ForSlice1(func(a string, xs []int) rec { return rec{a, xs} }, "S")(args[:4]...)
		return chk("CurryParam1ForSlice1", rs, rec{"S", args[:4]})
	})
	e.run("adapters", "MakeVariadicParam1..6", true, func() string {
		p1 := fpgo.MakeVariadicParam1(func(a int) []int { return []int{a} })(args...)
		p2 := fpgo.MakeVariadicParam2(func(a, b int) []int { return []int{a, b} })(args...)
		p3 := fpgo.MakeVariadicParam3(func(a, b, c3 int) []int { return []int{a, b, c3} })(args...)
		p4 := fpgo.MakeVariadicParam4(func(a, b, c3, d int) []int { return []int{a, b, c3, d} })(args...)
		p5 := fpgo.MakeVariadicParam5(func(a, b, c3, d, f int) []int { return []int{a, b, c3, d, f} })(args...)
		p6 := fpgo.MakeVariadicParam6(func(a, b, c3, d, f, g int) []int { return []int{a, b, c3, d, f, g} })(args...)
		for i, p := range [][]int{p1, p2, p3, p4, p5, p6} {
			if !eqSeq(p, args[:i+1]) {
				return fmt.Sprintf("MakeVariadicParam%d passed %v, want %v", i+1, p, args[:i+1])
			}
		}
		return ""
	})
	e.run("adapters", "MakeVariadicReturn1..6 / MakeNumericReturn*", true, func() string {
		var got [][]int
		r1 := fpgo.MakeVariadicReturn1(func(xs ...int) int { got = append(got, xs); return 1 })(args...)
		r2 := fpgo.MakeVariadicReturn2(func(xs ...int) (int, int) { got = append(got, xs); return 1, 2 })(args...)
		r3 := fpgo.MakeVariadicReturn3(func(xs ...int) (int, int, int) { got = append(got, xs); return 1, 2, 3 })(args...)
		r4 := fpgo.MakeVariadicReturn4(func(xs ...int) (int, int, int, int) { got = append(got, xs); return 1, 2, 3, 4 })(args...)
		r5 := fpgo.MakeVariadicReturn5(func(xs ...int) (int, int, int, int, int) { got = append(got, xs); return 1, 2, 3, 4, 5 })(args...)
		r6 := fpgo.MakeVariadicReturn6(func(xs ...int) (int, int, int, int, int, int) { got = append(got, xs); return 1, 2, 3, 4, 5, 6 })(args...)
		for i, r := range [][]int{r1, r2, r3, r4, r5, r6} {
			if !eqSeq(r, []int{1, 2, 3, 4, 5, 6}[:i+1]) {
				return fmt.Sprintf("MakeVariadicReturn%d returned %v", i+1, r)
			}
			if !eqSeq(got[i], args) {
				return fmt.Sprintf("MakeVariadicReturn%d passed %v", i+1, got[i])
			}
		}
		for _, b := range []bool{true, false} {
			want := 0
			if b {
				want = 1
			}
			var s1, s2 []int
			var s3 int
			n1 := fpgo.MakeNumericReturnForVariadicParamReturnBool1[int, int](func(xs ...int) bool { s1 = xs; return b })(args...)
			n2 := fpgo.MakeNumericReturnForSliceParamReturnBool1[int, float64](func(xs []int) bool { s2 = xs; return b })(args...)
			n3 := fpgo.MakeNumericReturnForParam1ReturnBool1[int, int8](func(x int) bool { s3 = x; return b })(args...)
			if len(n1) != 1 || n1[0] != want || len(n2) != 1 || n2[0] != float64(want) || len(n3) != 1 || n3[0] != int8(want) {
				return fmt.Sprintf("MakeNumericReturn* for %v returned %v %v %v", b, n1, n2, n3)
			}
			if !eqSeq(s1, args) || !eqSeq(s2, args) || s3 != args[0] {
				return "MakeNumericReturn* passed other arguments"
			}
		}
		return ""
	})
}

// ---- Trampoline

func c20Trampoline(e *c20Env) {
	for n := 1; n <= 12; n++ {
		for mode := 0; mode < 3; mode++ {
			n, mode := n, mode
			e.run("Trampoline", fmt.Sprintf("done/error at step %d mode %d", n, mode), true, func() string {
				steps := 0
				boom := errors.New("boom")
				res, err := fpgo.Trampoline(func(xs ...int) ([]int, bool, error) {
					steps++
					next := append(append([]int(nil), xs...), steps)
					if steps == n {
						switch mode {
						case 0:
							return next, true, nil
						case 1:
							return next, false, boom
						default:
							return next, true, boom // error wins
						}
					}
					return next, false, nil
				}, 100)
				if steps != n {
					return fmt.Sprintf("step function ran %d times, want %d", steps, n)
				}
				if mode == 0 {
					want := []int{100}
					for i := 1; i <= n; i++ {
						want = append(want, i)
					}
					if err != nil || !eqSeq(res, want) {
						return fmt.Sprintf("returned (%v, %v), want (%v, nil)", res, err, want)
					}
				} else if err != boom || res != nil {
					return fmt.Sprintf("returned (%v, %v), want (nil, boom)", res, err)
				}
				return ""
			})
		}
	}
}

// ---- CurryDef (sequential)

func c20CurrySeq(e *c20Env) {
	for ncalls := 1; ncalls <= 6; ncalls++ {
		for markAt := 0; markAt <= ncalls; markAt++ {
			ncalls, markAt := ncalls, markAt
			e.run("CurryDef", fmt.Sprintf("%d sequential calls, MarkDone after call %d", ncalls, markAt), true, func() string {
				var seen [][]int
				var cur *fpgo.CurryDef[int, int]
				cur = fpgo.CurryNewGenerics(func(c *fpgo.CurryDef[int, int], args ...int) int {
					if c != cur {
						panic("fn received another CurryDef")
					}
					seen = append(seen, append([]int(nil), args...))
					return len(args)*1000 + len(seen)
				})
				var all []int
				next := 1
				var frozen int
				for k := 1; k <= ncalls; k++ {
					chunk := make([]int, k%3) // chunks of 1, 2, 0, 1, 2, 0 arguments
					for i := range chunk {
						chunk[i] = next
						next++
					}
					before := len(seen)
					if r := cur.Call(chunk...); r != cur {
						return "Call did not return the CurryDef"
					}
					if markAt > 0 && k > markAt {
						if len(seen) != before {
							return fmt.Sprintf("fn invoked by call %d after MarkDone", k)
						}
						if cur.Result() != frozen || !cur.IsDone() {
							return fmt.Sprintf("Result changed after MarkDone: %d vs %d", cur.Result(), frozen)
						}
						continue
					}
					all = append(all, chunk...)
					if len(seen) != before+1 {
						return fmt.Sprintf("call %d invoked fn %d times", k, len(seen)-before)
					}
					if !eqSeq(seen[len(seen)-1], all) {
						return fmt.Sprintf("call %d: fn saw %v, arguments so far %v", k, seen[len(seen)-1], all)
					}
					if cur.Result() != len(all)*1000+len(seen) {
						return fmt.Sprintf("Result()=%d after call %d", cur.Result(), k)
					}
					if k == markAt {
						cur.MarkDone()
						frozen = cur.Result()
					}
				}
				return ""
			})
		}
	}
	e.run("CurryDef", "CurryNew (interface{})", true, func() string {
		var seen [][]interface{}
		c := fpgo.CurryNew(func(c *fpgo.CurryDef[interface{}, interface{}], args ...interface{}) interface{} {
			seen = append(seen, append([]interface{}(nil), args...))
			return len(args)
		})
		c.Call("a").Call(1, 2).Call()
		if len(seen) != 3 || fmt.Sprint(seen[2]) != "[a 1 2]" || c.Result() != 3 {
			return fmt.Sprintf("saw %v result %v", seen, c.Result())
		}
		return ""
	})
}

// ---- patterns

type c20NamedStr string
type c20NamedInt int
type c20NamedBytes []byte
type c20StringerABC struct{}

func (c20StringerABC) String() string { return "abc" }

type c20S struct{ A int }
type c20T struct{ B string }

type c20SumModel struct {
	products [][]reflect.Kind
	hasNil   bool
}

type c20Pat struct {
	kind  string // Kind, Sum, Equal, Regex, Otherwise
	k     reflect.Kind
	sum   c20SumModel
	sumCT fpgo.CompType
	eq    any
	re    string
}

func c20IsNil(v any) bool { return c01Absent(v) }

func c20KindOf(v any) reflect.Kind {
	// pinned: product types see nil values, incl. typed nil pointers, as kind Invalid (they match NilType only)
	if c20IsNil(v) {
		return reflect.Invalid
	}
	return reflect.TypeOf(v).Kind()
}

func (s c20SumModel) matchesValues(vals []any) bool {
	for _, p := range s.products {
		if len(p) != len(vals) {
			continue
		}
		ok := true
		for i, v := range vals {
			if c20KindOf(v) != p[i] {
				ok = false
			}
		}
		if ok {
			return true
		}
	}
	if s.hasNil && len(vals) == 1 && c20IsNil(vals[0]) {
		return true
	}
	return false
}

// model of the value MatchFor matches and applies: a non-nil pointer to a struct is replaced by its pointee
func c20Deref(v any) any {
	if v == nil {
		return nil
	}
	rv := reflect.ValueOf(v)
	if rv.Kind() == reflect.Ptr && !rv.IsNil() && rv.Elem().Kind() == reflect.Struct {
		return rv.Elem().Interface()
	}
	return v
}

// accepts is the harness' own acceptance model; objs is non-nil when the (dereferenced) value is a CompData
func (p c20Pat) accepts(v any, objs []any, isComp bool) bool {
	switch p.kind {
	case "Kind":
		return !c20IsNil(v) && reflect.TypeOf(v).Kind() == p.k
	case "Equal":
		return p.eq == v
	case "Regex":
		// strings of every string-kinded type (also named ones), nothing else (not []byte, not Stringers)
		if c20IsNil(v) || reflect.TypeOf(v).Kind() != reflect.String {
			return false
		}
		m, err := regexp.MatchString(p.re, reflect.ValueOf(v).String())
		return err == nil && m
	case "Sum":
		if isComp {
			return p.sum.matchesValues(objs)
		}
		return p.sum.matchesValues([]any{v})
	}
	return true
}

type c20Probe struct {
	desc   string
	v      any
	objs   []any // objects if the dereferenced value is a CompData
	isComp bool
}

type c20Hit struct {
	idx int
	arg any
}

func c20Patterns(e *c20Env) {
	sumA := c20SumModel{products: [][]reflect.Kind{{reflect.Int}, {reflect.String, reflect.Int}}, hasNil: true}
	ctA := fpgo.DefSum(fpgo.DefProduct(reflect.Int), fpgo.DefProduct(reflect.String, reflect.Int), fpgo.NilType)
	sumB := c20SumModel{products: [][]reflect.Kind{{reflect.Struct}, {reflect.Ptr}, {reflect.Slice, reflect.Map}}}
	ctB := fpgo.DefSum(fpgo.DefProduct(reflect.Struct), fpgo.DefProduct(reflect.Ptr), fpgo.DefProduct(reflect.Slice, reflect.Map))
	sumE := c20SumModel{products: [][]reflect.Kind{{reflect.Map}, {reflect.Func}, {reflect.Int, reflect.Map}, {reflect.Chan, reflect.Slice}}}
	ctE := fpgo.DefSum(fpgo.DefProduct(reflect.Map), fpgo.DefProduct(reflect.Func), fpgo.DefProduct(reflect.Int, reflect.Map), fpgo.DefProduct(reflect.Chan, reflect.Slice))
	sumC := c20SumModel{hasNil: true}
	var ctC fpgo.CompType = fpgo.NilType
	params := [][]c20Pat{
		{{kind: "Kind", k: reflect.Int}, {kind: "Sum", sum: sumA, sumCT: ctA}, {kind: "Equal", eq: 5}, {kind: "Regex", re: "^a.c$"}, {kind: "Otherwise"}},
		{{kind: "Kind", k: reflect.Struct}, {kind: "Sum", sum: sumB, sumCT: ctB}, {kind: "Equal", eq: "abc"}, {kind: "Regex", re: "[0-9]+"}, {kind: "Otherwise"}},
		{{kind: "Kind", k: reflect.Ptr}, {kind: "Sum", sum: sumC, sumCT: ctC}, {kind: "Equal", eq: c20S{1}}, {kind: "Regex", re: "^$"}, {kind: "Otherwise"}},
		// nil-able kinds other than pointers (a typed nil map / func / chan / slice is a VALUE of its kind), and a regex
		// without metacharacters against texts that are not valid UTF-8 (the regexp package decodes an invalid byte as U+FFFD)
		{{kind: "Kind", k: reflect.Map}, {kind: "Sum", sum: sumE, sumCT: ctE}, {kind: "Equal", eq: "caf\xe9"}, {kind: "Regex", re: "\ufffd"}, {kind: "Otherwise"}},
		{{kind: "Kind", k: reflect.Func}, {kind: "Sum", sum: sumE, sumCT: ctE}, {kind: "Equal", eq: 0}, {kind: "Regex", re: "\xff"}, {kind: "Otherwise"}},
		{{kind: "Kind", k: reflect.Chan}, {kind: "Sum", sum: sumC, sumCT: ctC}, {kind: "Equal", eq: "\xff"}, {kind: "Regex", re: "caf\u00e9"}, {kind: "Otherwise"}},
	}
	i7 := 7
	var nilInt *int
	var nilS *c20S
	mkComp := func(ct fpgo.CompType, vals ...any) (*fpgo.CompData, []any) {
		return fpgo.NewCompData(ct, vals...), vals
	}
	var probes []c20Probe
	add := func(desc string, v any) { probes = append(probes, c20Probe{desc: desc, v: v}) }
	add("0", 0)
	add("5", 5)
	add("-1", -1)
	add("int8(5)", int8(5))
	add("5.0", 5.0)
	add("true", true)
	add(`"abc"`, "abc")
	add(`"a1c"`, "a1c")
	add(`"x"`, "x")
	add(`""`, "")
	add(`"123"`, "123")
	add("nil", nil)
	add("(*int)(nil)", nilInt)
	add("(*S)(nil)", nilS)
	add("&int", &i7)
	add("S{1}", c20S{1})
	add("S{2}", c20S{2})
	add("&S{1}", &c20S{1})
	add("&S{2}", &c20S{2})
	add("T{}", c20T{})
	add("&T{x}", &c20T{"x"})
	add("[]int{1}", []int{1})
	add("[]int(nil)", []int(nil))
	add("map", map[string]int{"a": 1})
	add("[2]int", [2]int{1, 2})
	add("named string abc", c20NamedStr("abc"))
	add("named string 123", c20NamedStr("123"))
	add("named int 5", c20NamedInt(5))
	add(`[]byte("abc")`, []byte("abc"))
	add(`[]byte("123")`, []byte("123"))
	add("named []byte", c20NamedBytes("a1c"))
	add("Stringer printing abc", c20StringerABC{})
	add("map(nil)", map[string]int(nil))
	add("func(nil)", (func())(nil))
	add("func", func() {})
	add("chan(nil)", (chan int)(nil))
	add("chan", make(chan int))
	add(`"caf\xe9" (invalid UTF-8)`, "caf\xe9")
	add(`"\xff"`, "\xff")
	add(`"a\xffb"`, "a\xffb")
	add(`"\ufffd"`, "\ufffd")
	add(`"café"`, "caf\u00e9")
	add("struct{}{}", struct{}{})
	add("error", errors.New("e"))
	addComp := func(desc string, ct fpgo.CompType, vals ...any) {
		cd, objs := mkComp(ct, vals...)
		if cd == nil {
			return
		}
		probes = append(probes, c20Probe{desc: "*CompData " + desc, v: cd, objs: objs, isComp: true})
		probes = append(probes, c20Probe{desc: "CompData " + desc, v: *cd, objs: objs, isComp: true})
	}
	addComp("A(5)", ctA, 5)
	addComp("A(\"s\",1)", ctA, "s", 1)
	addComp("A(nil)", ctA, nil)
	addComp("B(S{1})", ctB, c20S{1})
	addComp("B(&S{1})", ctB, &c20S{1})
	addComp("B([]int,map)", ctB, []int{1}, map[int]int{})
	addComp("C(nil ptr)", ctC, nilInt)
	addComp("E(nil map)", ctE, map[string]int(nil))
	addComp("E(1, nil map)", ctE, 1, map[string]int(nil))
	addComp("E(nil chan, nil slice)", ctE, (chan int)(nil), []int(nil))
	addComp("E(nil func)", ctE, (func())(nil))

	// every permutation of every subset of the five kinds
	var orders [][]int
	var rec func(prefix []int, used int)
	rec = func(prefix []int, used int) {
		orders = append(orders, append([]int(nil), prefix...))
		for k := 0; k < 5; k++ {
			if used&(1<<k) == 0 {
				rec(append(prefix, k), used|1<<k)
			}
		}
	}
	rec(nil, 0)
	e.c.Note("pattern_lists", fmt.Sprintf("%d permutations of subsets of the five pattern kinds x %d parameterisations x %d probe values", len(orders), len(params), len(probes)))
	type job struct{ pi, oi int }
	var jobs []job
	for pi := range params {
		for oi := range orders {
			jobs = append(jobs, job{pi, oi})
		}
	}
	parallelFor(len(jobs), func(w, ji int) {
		j := jobs[ji]
		ps := params[j.pi]
		order := orders[j.oi]
		// build the real pattern list; effect i returns (i, argument)
		var pats []fpgo.Pattern
		var names []string
		for pos, k := range order {
			pos := pos
			eff := func(x interface{}) interface{} { return c20Hit{pos, x} }
			p := ps[k]
			names = append(names, p.kind)
			switch p.kind {
			case "Kind":
				pats = append(pats, fpgo.InCaseOfKind(p.k, eff))
			case "Sum":
				pats = append(pats, fpgo.InCaseOfSumType(p.sumCT, eff))
			case "Equal":
				pats = append(pats, fpgo.InCaseOfEqual(p.eq, eff))
			case "Regex":
				pats = append(pats, fpgo.InCaseOfRegex(p.re, eff))
			default:
				pats = append(pats, fpgo.Otherwise(eff))
			}
		}
		pm := fpgo.DefPattern(pats...)
		for pri, pr := range probes {
			pr := pr
			e.c.Eval(1)
			e.c.DistinctAdd(1)
			dv := c20Deref(pr.v)
			want := -1
			for pos, k := range order {
				if ps[k].accepts(dv, pr.objs, pr.isComp) {
					want = pos
					break
				}
			}
			var got any
			var pv any
			var where string
			if (ji+pri)%2 == 0 {
				pv, where = core.Catch(func() { got = pm.MatchFor(pr.v) })
			} else {
				pv, where = core.Catch(func() { got = fpgo.Either(pr.v, pats...) })
			}
			desc := fmt.Sprintf("patterns %v (parameterisation %d) probe %s", names, j.pi, pr.desc)
			rep := map[string]any{"patterns": names, "parameterisation": j.pi, "probe": pr.desc}
			switch {
			case pv != nil && want >= 0:
				e.c.Violationf("MatchFor:panic-although-accepted:"+ps[order[want]].kind, rep, "%s: panics (%v at %s) although pattern #%d (%s) accepts the value", desc, pv, where, want, ps[order[want]].kind)
			case pv == nil && want < 0:
				e.c.Violationf("MatchFor:no-panic-although-nothing-accepts", rep, "%s: returned %v although no pattern accepts the value", desc, got)
			case pv == nil:
				h, ok := got.(c20Hit)
				if !ok {
					e.c.Violationf("MatchFor:foreign-result", rep, "%s: returned %v which is not an effect's result", desc, got)
				} else if h.idx != want {
					e.c.Violationf("MatchFor:not-first-match", rep, "%s: applied pattern #%d, the first accepting pattern is #%d", desc, h.idx, want)
				} else if !valueEqual(h.arg, dv) {
					e.c.Violationf("MatchFor:wrong-argument", rep, "%s: the effect received %#v, want %#v", desc, h.arg, dv)
				}
			}
		}
	})
	// effects are the caller's code: a panic raised BY the effect of the first accepting pattern (or by a nested match
	// inside it that accepts nothing) reaches the caller; no later pattern is consulted or applied
	type effPanic struct{ tag string }
	for _, nested := range []bool{false, true} {
		for pos := 0; pos < 3; pos++ {
			nested, pos := nested, pos
			e.run("MatchFor(effect panics)", fmt.Sprintf("accepting pattern at #%d, nested=%v", pos, nested), true, func() string {
				var applied []string
				boom := func(x interface{}) interface{} {
					applied = append(applied, "first-accepting")
					if nested {
						return fpgo.Either(x, fpgo.InCaseOfKind(reflect.Bool, func(interface{}) interface{} { return "inner" })) // accepts nothing: panics
					}
					panic(effPanic{"from the effect"})
				}
				never := func(x interface{}) interface{} { applied = append(applied, "rejecting"); return "rejecting" }
				later := func(tag string) func(interface{}) interface{} {
					return func(x interface{}) interface{} { applied = append(applied, tag); return tag }
				}
				var pats []fpgo.Pattern
				for i := 0; i < pos; i++ {
					pats = append(pats, fpgo.InCaseOfKind(reflect.String, never))
				}
				pats = append(pats, fpgo.InCaseOfKind(reflect.Int, boom), fpgo.InCaseOfEqual(5, later("equal")), fpgo.InCaseOfKind(reflect.Int, later("kind-again")), fpgo.Otherwise(later("otherwise")))
				var got interface{}
				pv, _ := core.Catch(func() {
					if pos%2 == 0 {
						got = fpgo.DefPattern(pats...).MatchFor(5)
					} else {
						got = fpgo.Either(5, pats...)
					}
				})
				if pv == nil {
					return fmt.Sprintf("the effect of the first accepting pattern panicked, but the match returned %v (effects applied: %v)", got, applied)
				}
				if _, mine := pv.(effPanic); !nested && !mine {
					return fmt.Sprintf("the caller received the panic %v instead of the effect's own panic value", pv)
				}
				if len(applied) != 1 {
					return fmt.Sprintf("effects applied: %v, want only the first accepting pattern's", applied)
				}
				return ""
			})
		}
	}
	// several Equal patterns holding the SAME value (and equal values of different types): list order decides
	e.run("InCaseOfEqual(duplicates)", "first of several equal-valued patterns", true, func() string {
		tag := func(t string) func(interface{}) interface{} { return func(interface{}) interface{} { return t } }
		pats := []fpgo.Pattern{fpgo.InCaseOfEqual(7, tag("never")), fpgo.InCaseOfEqual(5, tag("first")), fpgo.InCaseOfKind(reflect.String, tag("kind")), fpgo.InCaseOfEqual(5, tag("second")),
			fpgo.InCaseOfEqual(int64(5), tag("int64")), fpgo.InCaseOfEqual(5, tag("third")), fpgo.Otherwise(tag("otherwise"))}
		for probe, want := range map[interface{}]string{5: "first", int64(5): "int64", 7: "never", 6: "otherwise", "x": "kind"} {
			if got := fpgo.Either(probe, pats...); got != want {
				return fmt.Sprintf("Either(%#v) over [Equal 7, Equal 5 (first), Kind String, Equal 5 (second), Equal int64(5), Equal 5 (third), Otherwise] chose %v, want %v", probe, got, want)
			}
			if got := fpgo.DefPattern(pats...).MatchFor(probe); got != want {
				return fmt.Sprintf("MatchFor(%#v) chose %v, want %v", probe, got, want)
			}
		}
		return ""
	})
	// Equal patterns test Go equality (==): an Equal pattern holding pointer p accepts p itself, not another pointer
	// with an equal pointee (probes that survive MatchFor's dereferencing of pointers to structs: *int, *string, **T,
	// structs/arrays with pointer fields)
	{
		a1, a2 := 7, 7
		s1, s2 := "x", "x"
		p1, p2 := &a1, &a2
		type holder struct{ P *int }
		type eqCase struct {
			name         string
			held         any
			same, twin   any
			twinIsPtrStr bool
		}
		for _, ec := range []eqCase{
			{"*int", &a1, &a1, &a2, false}, {"*string", &s1, &s1, &s2, false}, {"**int", &p1, &p1, &p2, false},
			{"struct with a pointer field", holder{&a1}, holder{&a1}, holder{&a2}, false}, {"[1]*int", [1]*int{&a1}, [1]*int{&a1}, [1]*int{&a2}, false},
		} {
			ec := ec
			e.run("InCaseOfEqual(identity)", ec.name, true, func() string {
				pats := []fpgo.Pattern{fpgo.InCaseOfEqual(ec.held, func(interface{}) interface{} { return "equal" }), fpgo.Otherwise(func(interface{}) interface{} { return "otherwise" })}
				if got := fpgo.Either(ec.same, pats...); got != "equal" {
					return fmt.Sprintf("probe == held value (%s): chose %v, want the Equal pattern", ec.name, got)
				}
				if got := fpgo.DefPattern(pats...).MatchFor(ec.twin); got != "otherwise" {
					return fmt.Sprintf("probe is a DIFFERENT %s with equal contents (held != probe under ==): chose %v, want Otherwise", ec.name, got)
				}
				pv, _ := core.Catch(func() { fpgo.Either(ec.twin, pats[0]) })
				if pv == nil {
					return fmt.Sprintf("Either(different %s with equal contents, only an Equal pattern) did not panic although nothing accepts", ec.name)
				}
				return ""
			})
		}
	}
	// NewCompData returns a value iff its arguments match the declared type; sum types may be nested in every grouping
	pI, pSI, pB, pF := fpgo.DefProduct(reflect.Int), fpgo.DefProduct(reflect.String, reflect.Int), fpgo.DefProduct(reflect.Bool), fpgo.DefProduct(reflect.Float64)
	sumD := c20SumModel{products: [][]reflect.Kind{{reflect.Int}, {reflect.String, reflect.Int}, {reflect.Bool}, {reflect.Float64}}, hasNil: true}
	type namedCT struct {
		name string
		ct   fpgo.CompType
		m    c20SumModel
	}
	cts := []namedCT{{"A", ctA, sumA}, {"B", ctB, sumB}, {"Nil", ctC, sumC},
		{"D flat", fpgo.DefSum(pI, pSI, pB, pF, fpgo.NilType), sumD},
		{"D nested first", fpgo.DefSum(fpgo.DefSum(pI, pSI), pB, pF, fpgo.NilType), sumD},
		{"D nested middle", fpgo.DefSum(pI, fpgo.DefSum(pSI, pB), pF, fpgo.NilType), sumD},
		{"D nested last", fpgo.DefSum(pI, pSI, pB, fpgo.DefSum(pF, fpgo.NilType)), sumD},
		{"D nested three first", fpgo.DefSum(fpgo.DefSum(pI, pSI, pB), pF, fpgo.NilType), sumD},
		{"D two levels", fpgo.DefSum(fpgo.DefSum(fpgo.DefSum(pI, pSI), pB), pF, fpgo.NilType), sumD},
		{"D two nested", fpgo.DefSum(fpgo.DefSum(pI, pSI), fpgo.DefSum(pB, pF), fpgo.NilType), sumD},
		{"E nil-able kinds", ctE, sumE},
		{"D singletons", fpgo.DefSum(fpgo.DefSum(pI), fpgo.DefSum(pSI), pB, fpgo.DefSum(pF), fpgo.DefSum(fpgo.NilType)), sumD},
	}
	tuples := [][]any{{}, {5}, {"s"}, {"s", 1}, {1, "s"}, {nil}, {nilInt}, {c20S{1}}, {&c20S{1}}, {[]int{1}, map[int]int{}}, {[]int{1}}, {5, 5}, {5.0}, {nil, nil}, {true}, {false}, {1.5}, {true, 1}, {uint(1)}, {map[string]int(nil)}, {1, map[string]int(nil)}, {(func())(nil)}, {(chan int)(nil), []int(nil)}, {map[string]int{}}, {1, map[int]int{}}}
	// the nested groupings also as InCaseOfSumType patterns: the first accepting pattern is the sum, whatever its grouping
	for _, ct := range cts[3:] {
		for _, t := range tuples {
			if len(t) != 1 {
				continue
			}
			ct, t := ct, t
			e.run("InCaseOfSumType(nested sum)", fmt.Sprintf("type %s value %v", ct.name, t[0]), true, func() string {
				var got any
				pv, _ := core.Catch(func() {
					got = fpgo.Either(t[0], fpgo.InCaseOfSumType(ct.ct, func(x interface{}) interface{} { return "sum" }), fpgo.Otherwise(func(x interface{}) interface{} { return "otherwise" }))
				})
				want := "otherwise"
				if ct.m.matchesValues([]any{c20Deref(t[0])}) {
					want = "sum"
				}
				if pv != nil || got != want {
					return fmt.Sprintf("Either chose %v (panic %v), want %q", got, pv, want)
				}
				return ""
			})
		}
	}
	for _, t := range tuples {
		for _, ct := range cts {
			t, ct := t, ct
			e.run("NewCompData", fmt.Sprintf("type %s values %v", ct.name, t), true, func() string {
				got := fpgo.NewCompData(ct.ct, t...)
				want := ct.m.matchesValues(t)
				if (got != nil) != want {
					return fmt.Sprintf("returned %v, declared type accepts=%v", got, want)
				}
				if got != nil && !fpgo.MatchCompType(ct.ct, *got) {
					return "MatchCompType rejects the value NewCompData built"
				}
				return ""
			})
		}
	}
	e.c.Sample(map[string]any{"patterns": "[Sum Kind Otherwise]", "probe": "S{1}", "expect": "first accepting pattern's effect applied to the value"})
	e.c.Sample(map[string]any{"patterns": "[Regex Equal]", "probe": "(*int)(nil)", "expect": "panic: nothing accepts"})
}

// ---- concurrent CurryDef (isolated scenarios; also in the -race build)

func c20CurryScenario(id string, goroutines, callsEach int, markDone bool, seed int64) core.Scenario {
	return core.Scenario{ID: id, Class: "CurryDef.concurrent", Run: func(c *core.Ctx) {
		type rec struct{ args []int }
		var seen []rec // appended inside fn: serialised by the CurryDef's own mutex (plain on purpose)
		var invocations int
		var cur *fpgo.CurryDef[int, int]
		cur = fpgo.CurryNewGenerics(func(cd *fpgo.CurryDef[int, int], args ...int) int {
			invocations++
			seen = append(seen, rec{append([]int(nil), args...)})
			if len(args)%3 == 0 {
				runtime.Gosched()
			}
			return len(args)
		})
		var wg sync.WaitGroup
		start := make(chan struct{})
		var callsBegunAfterDone atomic.Int64
		var doneReturned atomic.Bool
		total := goroutines * callsEach
		for g := 0; g < goroutines; g++ {
			wg.Add(1)
			go func(g int) {
				defer wg.Done()
				<-start
				for k := 0; k < callsEach; k++ {
					// unique chunk: 1..2 arguments encoding (goroutine, call, position)
					chunk := []int{g*10000 + k*10 + 1}
					if (g+k)%2 == 0 {
						chunk = append(chunk, g*10000+k*10+2)
					}
					after := doneReturned.Load()
					cur.Call(chunk...)
					if after {
						callsBegunAfterDone.Add(1)
					}
					if (g+k)%4 == 0 {
						runtime.Gosched()
					}
				}
			}(g)
		}
		if markDone {
			wg.Add(1)
			go func() {
				defer wg.Done()
				<-start
				for i := 0; i < int(seed%7)+1; i++ {
					runtime.Gosched()
				}
				cur.MarkDone()
				doneReturned.Store(true)
			}()
		}
		close(start)
		wg.Wait()
		c.Eval(int64(total))
		c.Distinct(id)
		c.Count("curry.calls", int64(total))
		c.Count("curry.invocations", int64(invocations))
		if !markDone && invocations != total {
			c.Violationf("CurryDef:invocations", map[string]any{"scenario": id}, "%d concurrent Calls invoked fn %d times", total, invocations)
		}
		if markDone && int64(invocations) > int64(total)-callsBegunAfterDone.Load() {
			c.Violationf("CurryDef:call-after-MarkDone", map[string]any{"scenario": id}, "fn invoked %d times although only %d Calls began before MarkDone returned", invocations, int64(total)-callsBegunAfterDone.Load())
		}
		// chain: each recorded list extends the previous one by exactly one whole chunk; every chunk at most once
		sort.SliceStable(seen, func(i, j int) bool { return len(seen[i].args) < len(seen[j].args) })
		prev := []int{}
		usedChunks := map[int]bool{}
		for i, r := range seen {
			if len(r.args) < len(prev) || !eqSeq(r.args[:len(prev)], prev) {
				c.Violationf("CurryDef:chain", map[string]any{"scenario": id}, "recorded argument list #%d %v does not extend the previous one %v", i, r.args, prev)
				return
			}
			ext := r.args[len(prev):]
			if len(ext) == 0 || len(ext) > 2 || ext[0]%10 != 1 || (len(ext) == 2 && ext[1] != ext[0]+1) {
				c.Violationf("CurryDef:chain", map[string]any{"scenario": id}, "list #%d extends the previous one by %v which is not one whole chunk", i, ext)
				return
			}
			wantLen := 1
			g, k := ext[0]/10000, (ext[0]%10000)/10
			if (g+k)%2 == 0 {
				wantLen = 2
			}
			if len(ext) != wantLen || usedChunks[ext[0]] {
				c.Violationf("CurryDef:chain", map[string]any{"scenario": id}, "chunk %v split or duplicated", ext)
				return
			}
			usedChunks[ext[0]] = true
			prev = r.args
		}
		if cur.Result() != len(prev) && len(seen) > 0 {
			// Result is the value of some invocation; with the final list it must be its length
			found := false
			for _, r := range seen {
				if cur.Result() == len(r.args) {
					found = true
				}
			}
			if !found {
				c.Violationf("CurryDef:result", map[string]any{"scenario": id}, "Result()=%d is not the value of any invocation", cur.Result())
			}
		}
		if c.WantSample() {
			c.Sample(map[string]any{"scenario": id, "goroutines": goroutines, "calls_each": callsEach, "mark_done": markDone, "invocations": invocations})
		}
	}}
}

// the usual currying idiom: the function itself calls MarkDone once it has enough arguments, while other Calls are
// already queued on the CurryDef's mutex. MarkDone then happens inside the serialised section, so there is a clear
// cut: no invocation may follow the one that marked the CurryDef done, and Result stays that invocation's value.
func c20CurryMarkDoneInside(id string, goroutines, doneAt int, seed int64) core.Scenario {
	return core.Scenario{ID: id, Class: "CurryDef.concurrent", Run: func(c *core.Ctx) {
		var invocations, afterDone int
		var doneValue int
		marked := false
		var cur *fpgo.CurryDef[int, int]
		cur = fpgo.CurryNewGenerics(func(cd *fpgo.CurryDef[int, int], args ...int) int {
			invocations++
			if marked {
				afterDone++
			}
			if invocations == doneAt {
				// let the other callers reach the mutex before the CurryDef is marked done
				for i := 0; i < 20+int(seed%20); i++ {
					runtime.Gosched()
				}
				cd.MarkDone()
				marked = true
				doneValue = 1000 + len(args)
				return doneValue
			}
			return len(args)
		})
		var wg sync.WaitGroup
		start := make(chan struct{})
		for g := 0; g < goroutines; g++ {
			wg.Add(1)
			go func(g int) {
				defer wg.Done()
				<-start
				for k := 0; k < 4; k++ {
					cur.Call(g*100 + k)
				}
			}(g)
		}
		close(start)
		wg.Wait()
		c.Eval(int64(goroutines * 4))
		c.Distinct(id)
		rep := map[string]any{"scenario": id, "goroutines": goroutines, "mark_done_at_invocation": doneAt}
		if afterDone > 0 || invocations != doneAt {
			c.Violationf("CurryDef:invoked-after-MarkDone", rep, "the function called MarkDone() in its invocation #%d, but it was invoked %d times in total (%d after MarkDone)", doneAt, invocations, afterDone)
		}
		if cur.Result() != doneValue {
			c.Violationf("CurryDef:result-not-frozen", rep, "Result()=%d, the invocation that marked the CurryDef done returned %d", cur.Result(), doneValue)
		}
	}}
}

// an incremental fold: the function consults its own CurryDef (Result / IsDone) while it is being invoked by Call,
// sequentially and with concurrent callers. Every Call returns, Result ends as the fold over all invocations.
func c20CurryResultInside(id string, goroutines, callsEach int, generic bool) core.Scenario {
	return core.Scenario{ID: id, Class: "CurryDef.concurrent", Run: func(c *core.Ctx) {
		c.Eval(int64(goroutines * callsEach))
		c.Distinct(id)
		rep := map[string]any{"scenario": id, "goroutines": goroutines, "calls_each": callsEach, "generic_api": generic}
		var call func(v int)
		var result func() int
		invocations := 0
		if generic {
			cur := fpgo.CurryNewGenerics(func(cd *fpgo.CurryDef[int, int], args ...int) int {
				invocations++
				if cd.IsDone() {
					return -1
				}
				return cd.Result() + len(args)
			})
			call = func(v int) { cur.Call(v) }
			result = cur.Result
		} else {
			cur := fpgo.CurryNew(func(cd *fpgo.CurryDef[interface{}, interface{}], args ...interface{}) interface{} {
				invocations++
				prev, _ := cd.Result().(int)
				return prev + len(args)
			})
			call = func(v int) { cur.Call(v) }
			result = func() int { r, _ := cur.Result().(int); return r }
		}
		done := make(chan struct{})
		go func() {
			defer close(done)
			var wg sync.WaitGroup
			for g := 0; g < goroutines; g++ {
				wg.Add(1)
				go func(g int) {
					defer wg.Done()
					for k := 0; k < callsEach; k++ {
						call(g*100 + k)
					}
				}(g)
			}
			wg.Wait()
		}()
		v, dump := core.AwaitOrStuck(done, 2*time.Second, 60*time.Second, func() int64 { return 0 })
		if v == "stuck" {
			c.Violationf("CurryDef:Call-never-returns", map[string]any{"scenario": id, "goroutines": core.RepoGoroutineSummary(dump)}, "a curried function that reads its own CurryDef's Result()/IsDone() while being invoked: Call never returns (%d goroutines x %d calls)", goroutines, callsEach)
			return
		}
		if v != "done" {
			c.Inconclusive("watchdog in " + id)
			return
		}
		n := goroutines * callsEach
		if invocations != n || result() != n*(n+1)/2 {
			c.Violationf("CurryDef:fold-over-own-result", rep, "%d Calls of one argument each, fn returns Result()+len(args): fn ran %d times, Result()=%d, want %d and %d", n, invocations, result(), n, n*(n+1)/2)
		}
	}}
}

func init() {
	core.Register(&core.Check{
		ID: "C20",
		Meta: func(c *core.Ctx) core.Meta {
			return core.Meta{
				Level: "exploration",
				Rule: "Compose/Pipe: all 5460 function lists of length 1..6 over 4 distinguishable non-commuting functions x 3 argument tuples, output compared with the fold, Compose(fs)=Pipe(reverse fs), every regrouping; adapters with recording functions; Trampoline with scripted done/error at step 1..12; CurryDef sequentially (1..6 calls x MarkDone position) and concurrently (2..8 goroutines, unique chunks, chain oracle; repeated in the -race build); " +
					"patterns: every permutation of every subset of the five pattern kinds (326 lists) x 6 parameterisations x ~40 probe values of every kind through MatchFor/Either against the harness' own acceptance model (first accepting pattern's effect, applied to the value, panic iff none); effects that panic (directly or through a nested match that accepts nothing) at every position: the panic reaches the caller and no later pattern is applied; Equal patterns holding pointers / structs with pointer fields (identity, not deep equality); several Equal patterns with the same value (list order decides); probes of named string / int / []byte types, []byte and Stringer values against Regex patterns; NewCompData and InCaseOfSumType against the declared type, for flat sums and for 7 nested groupings of the same five alternatives (nested first / middle / last, two levels, two nested, singletons); CurryDef whose function reads its own Result()/IsDone() while invoked (1..16 goroutines, termination by the stuck detector). distinct_nontrivial = enumerated cases (distinct by construction) + distinct concurrent scenarios",
				Assumptions: []string{"MatchFor replaces a non-nil pointer-to-struct probe by its pointee before matching and applying (pinned, DESIGN.md C20)",
					"nil values incl. typed nil pointers never match a Kind pattern; a CompData value is matched through its objects only",
					"Equal patterns hold comparable values", "Calls concurrent with MarkDone may or may not be counted; Calls begun after MarkDone returned must not invoke fn"},
				Exhaustive: true,
			}
		},
		Run: func(c *core.Ctx) {
			e := &c20Env{c: c}
			c20Compose(e)
			c20Adapters(e)
			c20Trampoline(e)
			c20CurrySeq(e)
			c20Patterns(e)
			c.Sample(map[string]any{"functions": "[f0 f2 f1 f3]", "probes": "[] [7] [7 8]", "expect": "Compose = f0(f2(f1(f3(x)))), Pipe = f3(f1(f2(f0(x))))"})
		},
		Scenarios: func(c *core.Ctx, race bool) []core.Scenario {
			n := c.Pick(200, 10000)
			if race {
				n = c.Pick(60, 1500)
			}
			var out []core.Scenario
			for i := 0; i < 12; i++ {
				out = append(out, c20CurryResultInside(fmt.Sprintf("curry-result-inside-%d-race%v", i, race), []int{1, 1, 2, 4, 8, 16}[i%6], 1+i%5, i%2 == 0))
			}
			for i := 0; i < n; i++ {
				g := 2 + i%7
				calls := 1 + (i/7)%12
				md := i%3 == 2
				out = append(out, c20CurryScenario(fmt.Sprintf("curry-g%d-c%d-md%v-%d-race%v", g, calls, md, i, race), g, calls, md, c.Seed+int64(i)))
				if i%2 == 0 {
					out = append(out, c20CurryMarkDoneInside(fmt.Sprintf("curry-markdone-inside-g%d-%d-race%v", g, i, race), g, 1+i%5, c.Seed+int64(i)))
				}
			}
			return out
		},
		Batch: 100, RaceToo: true, RaceBatch: 100, Par: 8,
		RaceRelevant: func(s core.RaceSig) bool {
			return strings.Contains(s.Sig, "CurryDef") || strings.Contains(s.Text, "c20CurryScenario")
		},
	})
}
