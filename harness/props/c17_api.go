package props

import (
	"bytes"
	"context"
	"encoding/json"
	"errors"
	"fmt"
	"io"
	"math"
	"mime"
	"mime/multipart"
	"net"
	"net/http"
	"net/http/httptest"
	"net/url"
	"os"
	"path/filepath"
	"reflect"
	"sort"
	"strings"
	"sync"
	"sync/atomic"
	"syscall"
	"time"

	fpgo "github.com/TeaEntityLab/fpGo/v2"
	"github.com/TeaEntityLab/fpGo/v2/network"

	"verifharness/internal/core"
)

// C17 — SimpleAPI sends exactly the request it was defined with, lazily, and decodes it.
// Oracle: a stub RoundTripper installed as the client's transport before SimpleHTTP wraps it captures
// every outgoing request; the expected request is computed by the harness.

type c17Captured struct {
	method  string
	url     string
	header  http.Header
	hdrPtr  uintptr
	body    []byte
	hasBody bool
}

type c17Stub struct {
	mu    sync.Mutex
	reqs  []c17Captured
	fault string // "", "transport", "nonjson", "readfail", "status500"
}

type c17FailReader struct{}

func (c17FailReader) Read([]byte) (int, error) { return 0, errors.New("stub: body read failed") }
func (c17FailReader) Close() error             { return nil }

var errC17Transport = errors.New("stub: transport failed")

// connection-level failures of the kinds a real transport reports (plain and wrapped)
var c17TransportErrs = map[string]error{
	"eof":            io.EOF,
	"unexpected-eof": io.ErrUnexpectedEOF,
	"reset":          syscall.ECONNRESET,
	"epipe":          syscall.EPIPE,
	"refused":        syscall.ECONNREFUSED,
	"op-reset":       &net.OpError{Op: "read", Net: "tcp", Err: os.NewSyscallError("read", syscall.ECONNRESET)},
	"wrapped-eof":    fmt.Errorf("stub: server closed idle connection: %w", io.EOF),
	"deadline":       context.DeadlineExceeded,
}

func (s *c17Stub) RoundTrip(r *http.Request) (*http.Response, error) {
	c := c17Captured{method: r.Method, url: r.URL.String(), header: r.Header.Clone(), hdrPtr: reflect.ValueOf(r.Header).Pointer()}
	var bodyErr error
	if r.Body != nil {
		var b []byte
		b, bodyErr = io.ReadAll(r.Body)
		c.body = b
		c.hasBody = true
	}
	// a transport is allowed to touch the header map it was given: this must never reach DefaultHeader
	r.Header.Set("X-Stub-Touched", "1")
	s.mu.Lock()
	s.reqs = append(s.reqs, c)
	fault := s.fault
	nth := len(s.reqs)
	s.mu.Unlock()
	if bodyErr != nil {
		// like a real transport: the request body could not be read completely, the round trip fails with that error
		return nil, bodyErr
	}
	if fault == "transport" {
		return nil, errC17Transport
	}
	if strings.HasPrefix(fault, "transport-once:") {
		// only the FIRST round trip since the last take() fails: a silent second attempt would succeed
		if nth == 1 {
			return nil, c17TransportErrs[strings.TrimPrefix(fault, "transport-once:")]
		}
	}
	resp := &http.Response{StatusCode: 200, Status: "200 OK", Proto: "HTTP/1.1", ProtoMajor: 1, ProtoMinor: 1, Header: http.Header{"Content-Type": {"application/json"}}, Request: r}
	switch fault {
	case "nonjson":
		resp.Body = io.NopCloser(strings.NewReader("<html>not json</html>"))
	case "readfail":
		resp.Body = c17FailReader{}
	default:
		resp.Body = io.NopCloser(strings.NewReader(`{"V":42,"S":"ok"}`))
	}
	return resp, nil
}

func (s *c17Stub) take() []c17Captured {
	s.mu.Lock()
	defer s.mu.Unlock()
	r := s.reqs
	s.reqs = nil
	return r
}

type c17ErrStringer struct{}

func (c17ErrStringer) Error() string  { return "as-error" }
func (c17ErrStringer) String() string { return "as-stringer" }

type c17ValStringer struct{}

func (c17ValStringer) String() string { return "val" }

type c17ErrReader struct{ err error }

func (r c17ErrReader) Read([]byte) (int, error) { return 0, r.err }

type c17Target struct {
	V int
	S string
}

type c17Body struct {
	Name string         `json:"name"`
	N    int            `json:"n"`
	Tags []string       `json:"tags,omitempty"`
	M    map[string]int `json:"m,omitempty"`
}

type c17Case struct {
	cons     int
	template string
	params   network.PathParam
	bodyKind int
	hdrKind  int
	fault    string
}

var c17ConsNames = []string{"APIMakeGet", "APIMakeDelete", "APIMakePostJSONBody", "APIMakePutJSONBody", "APIMakePatchJSONBody",
	"APIMakePostMultipartBody", "APIMakePutMultipartBody", "APIMakePatchMultipartBody",
	"APIMakeDoNewRequest(OPTIONS)", "APIMakeDoNewRequestWithBodySerializer(PUT,text/x-custom)", "APIMakeDoNewRequestWithMultipartSerializer(PATCH)"}

var c17ConsMethod = []string{"GET", "DELETE", "POST", "PUT", "PATCH", "POST", "PUT", "PATCH", "OPTIONS", "PUT", "PATCH"}

func c17ExpectedURL(base, template string, params network.PathParam) string {
	u := template
	keys := make([]string, 0, len(params))
	for k := range params {
		keys = append(keys, k)
	}
	sort.Strings(keys)
	for _, k := range keys {
		u = strings.ReplaceAll(u, "{"+k+"}", fmt.Sprint(params[k]))
	}
	return base + "/" + u
}

func (cs c17Case) String() string {
	return fmt.Sprintf("%s template=%q params=%v body#%d headers#%d fault=%q", c17ConsNames[cs.cons], cs.template, cs.params, cs.bodyKind, cs.hdrKind, cs.fault)
}

type c17Env struct {
	c       *core.Ctx
	tmpFile string
}

func (e *c17Env) viol(key string, cs c17Case, format string, args ...any) {
	e.c.Violationf(key, map[string]any{"case": cs.String()}, "%s: %s", cs, fmt.Sprintf(format, args...))
}

func (e *c17Env) runCase(cs c17Case, realServer *httptest.Server) {
	e.c.Eval(1)
	e.c.DistinctAdd(1)
	stub := &c17Stub{}
	switch cs.fault {
	case "transport", "nonjson", "readfail":
		stub.fault = cs.fault
	}
	if strings.HasPrefix(cs.fault, "transport-once:") {
		stub.fault = cs.fault
	}
	client := &http.Client{Transport: stub}
	base := "http://example.test/api"
	if realServer != nil {
		client = &http.Client{}
		base = realServer.URL + "/api"
	}
	sh := network.NewSimpleHTTPWithClientAndInterceptors(client)
	api := network.NewSimpleAPIWithSimpleHTTP(base, sh)
	var defHdr http.Header
	switch cs.hdrKind {
	case 1:
		defHdr = http.Header{"X-Token": {"abc"}, "Accept": {"application/json", "text/plain"}}
	case 2:
		defHdr = http.Header{"Content-Type": {"text/default"}, "X-A": {"1"}}
	}
	api.DefaultHeader = defHdr
	defSnapshot := defHdr.Clone()
	serErr := errors.New("stub: serializer failed")
	desErr := errors.New("stub: deserializer failed")
	var serCalls int
	switch cs.fault {
	case "serializer":
		api.RequestSerializerForJSON = func(body interface{}) (io.Reader, error) { serCalls++; return nil, serErr }
		api.RequestSerializerForMultipart = func(body *network.MultipartForm) (io.Reader, string, error) { serCalls++; return nil, "", serErr }
	case "deserializer-target":
		api.ResponseDeserializer = func(b []byte, target interface{}) (interface{}, error) { return target, desErr }
	case "deserializer-nil":
		api.ResponseDeserializer = func(b []byte, target interface{}) (interface{}, error) { return nil, desErr }
	}
	streamErr := errors.New("stub: the serializer's reader failed half way")
	customSer := func(body interface{}) (io.Reader, error) {
		if cs.fault == "serializer" {
			return nil, serErr
		}
		if cs.fault == "serializer-stream" {
			return io.MultiReader(strings.NewReader("partial:"), c17ErrReader{streamErr}), nil
		}
		return strings.NewReader(fmt.Sprintf("custom:%v", body)), nil
	}
	customMulti := func(body *network.MultipartForm) (io.Reader, string, error) {
		if cs.fault == "serializer" {
			return nil, "", serErr
		}
		if cs.fault == "serializer-stream" {
			return io.MultiReader(strings.NewReader("--partial"), c17ErrReader{streamErr}), "multipart/form-data; boundary=partial", nil
		}
		return network.GeneralMultipartSerializer(body)
	}
	// bodies
	var jsonBody *c17Body
	var form *network.MultipartForm
	switch cs.bodyKind {
	case 1:
		jsonBody = &c17Body{Name: "n1", N: 1}
		form = &network.MultipartForm{Value: map[string][]string{"f": {"v1"}}}
	case 2:
		jsonBody = &c17Body{Name: "ü \"q\"", N: -7, Tags: []string{"a", "b"}, M: map[string]int{"k": 2}}
		form = &network.MultipartForm{Value: map[string][]string{"f": {"v1", "v2"}, "g": {""}}, File: map[string][]string{"up": {e.tmpFile}}}
	case 3:
		jsonBody = &c17Body{}
		form = &network.MultipartForm{}
	}
	target := &c17Target{}
	var io1 *fpgo.MonadIODef[*network.APIResponse[c17Target]]
	isJSON, isMulti := false, false
	declaredCT := ""
	pv, where := core.Catch(func() {
		switch cs.cons {
		case 0:
			io1 = network.APIMakeGet[c17Target](api, cs.template)(cs.params, target)
		case 1:
			io1 = network.APIMakeDelete[c17Target](api, cs.template)(cs.params, target)
		case 2:
			isJSON, declaredCT = true, "application/json"
			io1 = network.APIMakePostJSONBody[*c17Body, c17Target](api, cs.template)(cs.params, jsonBody, target)
		case 3:
			isJSON, declaredCT = true, "application/json"
			io1 = network.APIMakePutJSONBody[*c17Body, c17Target](api, cs.template)(cs.params, jsonBody, target)
		case 4:
			isJSON, declaredCT = true, "application/json"
			io1 = network.APIMakePatchJSONBody[*c17Body, c17Target](api, cs.template)(cs.params, jsonBody, target)
		case 5:
			isMulti = true
			io1 = network.APIMakePostMultipartBody[c17Target](api, cs.template)(cs.params, form, target)
		case 6:
			isMulti = true
			io1 = network.APIMakePutMultipartBody[c17Target](api, cs.template)(cs.params, form, target)
		case 7:
			isMulti = true
			io1 = network.APIMakePatchMultipartBody[c17Target](api, cs.template)(cs.params, form, target)
		case 8:
			io1 = network.APIMakeDoNewRequest[c17Target](api, "OPTIONS", cs.template)(cs.params, target)
		case 9:
			isJSON, declaredCT = true, "text/x-custom"
			io1 = network.APIMakeDoNewRequestWithBodySerializer[*c17Body, c17Target](api, "PUT", cs.template, "text/x-custom", customSer)(cs.params, jsonBody, target)
		default:
			isMulti = true
			io1 = network.APIMakeDoNewRequestWithMultipartSerializer[c17Target](api, "PATCH", cs.template, customMulti)(cs.params, form, target)
		}
	})
	if pv != nil {
		e.viol("construct:panic", cs, "constructing the API call panics: %v at %s", pv, where)
		return
	}
	if realServer == nil {
		if n := len(stub.take()); n != 0 || serCalls != 0 {
			e.viol("lazy:request-before-eval", cs, "%d requests / %d serializer calls happened before the MonadIO was evaluated", n, serCalls)
		}
	}
	hasBody := (isJSON && jsonBody != nil) || (isMulti && form != nil)
	expectedRaw := c17ExpectedURL(base, cs.template, cs.params)
	expURL, expURLErr := url.Parse(expectedRaw)
	for evalN := 1; evalN <= 2; evalN++ {
		*target = c17Target{}
		var resp *network.APIResponse[c17Target]
		pv, where := core.Catch(func() { resp = io1.Eval() })
		if pv != nil {
			e.viol("eval:panic:"+cs.fault, cs, "Eval panics instead of returning Err: %v at %s", pv, where)
			return
		}
		if resp == nil {
			e.viol("eval:nil-response", cs, "Eval returned nil")
			return
		}
		if realServer != nil {
			if expURLErr != nil {
				if resp.Err == nil {
					e.viol("url:unparsable-accepted", cs, "URL %q does not parse but Err is nil", expectedRaw)
				}
				continue
			}
			if cs.fault == "" && (resp.Err != nil || target.V != 42) {
				e.viol("real-transport", cs, "loopback server round trip: err=%v target=%+v", resp.Err, *target)
			}
			continue
		}
		reqs := stub.take()
		// faults that prevent the request from being issued
		if cs.fault == "serializer" && hasBody {
			if resp.Err == nil || !errors.Is(resp.Err, serErr) {
				e.viol("fault:serializer-error-not-surfaced", cs, "serializer failed but Err=%v", resp.Err)
			}
			if len(reqs) != 0 {
				e.viol("fault:request-after-serializer-error", cs, "%d requests were sent although the serializer failed", len(reqs))
			}
			continue
		}
		if expURLErr != nil {
			if resp.Err == nil {
				e.viol("url:unparsable-accepted", cs, "URL %q does not parse but Err is nil", expectedRaw)
			}
			continue
		}
		if cs.fault == "serializer-stream" && hasBody && (cs.cons == 9 || cs.cons == 10) {
			// the custom serializer's reader fails while the body is being consumed: the evaluation yields Err
			if resp.Err == nil || !errors.Is(resp.Err, streamErr) {
				e.viol("fault:serializer-stream-error-not-surfaced", cs, "the reader returned by the custom serializer failed half way (after 8 bytes) but Err=%v", resp.Err)
			}
			continue
		}
		if len(reqs) != 1 {
			e.viol("count:requests-per-eval", cs, "Eval #%d issued %d requests, want exactly 1", evalN, len(reqs))
			continue
		}
		rq := reqs[0]
		if rq.method != c17ConsMethod[cs.cons] {
			e.viol("method:"+c17ConsNames[cs.cons], cs, "request method %s, the constructor names %s", rq.method, c17ConsMethod[cs.cons])
		}
		if rq.url != expURL.String() {
			e.viol("url:wrong", cs, "request URL %q, want %q", rq.url, expURL.String())
		}
		// headers: copy of DefaultHeader + declared Content-Type, nothing else
		wantHdr := defSnapshot.Clone()
		if wantHdr == nil {
			wantHdr = http.Header{}
		}
		ct := declaredCT
		if isMulti && hasBody {
			// the serializer's content type: multipart/form-data; boundary=...
			for _, v := range rq.header.Values("Content-Type") {
				if strings.HasPrefix(v, "multipart/form-data") {
					ct = v
				}
			}
			if ct == "" {
				e.viol("header:content-type-missing", cs, "multipart request without the serializer's Content-Type: %v", rq.header)
			}
		}
		if ct != "" && (isMulti || isJSON) {
			wantHdr.Add("Content-Type", ct)
		}
		if !reflect.DeepEqual(map[string][]string(rq.header), map[string][]string(wantHdr)) {
			if isJSON && !c17HasValue(rq.header, "Content-Type", declaredCT) {
				e.viol("header:content-type-missing", cs, "request headers %v lack the declared Content-Type %q", rq.header, declaredCT)
			} else {
				e.viol("header:wrong", cs, "request headers %v, want %v (copy of DefaultHeader + declared Content-Type)", rq.header, wantHdr)
			}
		}
		if defHdr != nil {
			if rq.hdrPtr == reflect.ValueOf(defHdr).Pointer() {
				e.viol("header:shared-map", cs, "the request carries the DefaultHeader map itself")
			}
			if !reflect.DeepEqual(map[string][]string(api.DefaultHeader), map[string][]string(defSnapshot)) {
				e.viol("header:default-mutated", cs, "DefaultHeader changed to %v", api.DefaultHeader)
			}
		}
		// body
		switch {
		case !hasBody:
			if len(rq.body) != 0 {
				e.viol("body:unexpected", cs, "request without body argument carries %q", rq.body)
			}
		case isJSON && cs.cons == 9:
			if string(rq.body) != fmt.Sprintf("custom:%v", jsonBody) {
				e.viol("body:wrong", cs, "body %q, want the custom serializer's output", rq.body)
			}
		case isJSON:
			var got, want any
			wb, _ := json.Marshal(jsonBody)
			if json.Unmarshal(rq.body, &got) != nil || json.Unmarshal(wb, &want) != nil || !reflect.DeepEqual(got, want) {
				e.viol("body:wrong", cs, "body %q, want JSON of %+v", rq.body, *jsonBody)
			}
		case isMulti:
			if m := c17CheckMultipart(ct, rq.body, form); m != "" {
				e.viol("body:wrong", cs, "multipart body: %s", m)
			}
		}
		// response
		switch cs.fault {
		case "":
			if resp.Err != nil {
				e.viol("response:unexpected-error", cs, "Err=%v", resp.Err)
			} else if resp.TargetObject != target || target.V != 42 || target.S != "ok" {
				e.viol("response:not-decoded-into-target", cs, "TargetObject=%p target=%p content=%+v", resp.TargetObject, target, *target)
			}
		default:
			if strings.HasPrefix(cs.fault, "transport-once:") {
				want := c17TransportErrs[strings.TrimPrefix(cs.fault, "transport-once:")]
				if resp.Err == nil || !errors.Is(resp.Err, want) {
					e.viol("fault:transport-error-not-surfaced", cs, "the transport failed the (only) round trip with %v but Err=%v", want, resp.Err)
				}
			}
		case "transport":
			if resp.Err == nil || !errors.Is(resp.Err, errC17Transport) {
				e.viol("fault:transport-error-not-surfaced", cs, "transport failed but Err=%v", resp.Err)
			}
		case "nonjson", "readfail", "deserializer-target", "deserializer-nil":
			if resp.Err == nil {
				e.viol("fault:decode-error-not-surfaced:"+cs.fault, cs, "decoding failed but Err is nil")
			}
		}
	}
}

// body types other than pointers: slices and maps, nil / empty / filled. "No body" means a nil POINTER only; a nil
// slice or map is a value like any other and goes through the serializer (JSON: null).
func (e *c17Env) collectionBodies() {
	run := func(what string, want string, wantCalls int, mk func(api *network.SimpleAPIDef, ser func(interface{}) (io.Reader, error)) *fpgo.MonadIODef[*network.APIResponse[c17Target]]) {
		e.c.Eval(1)
		e.c.DistinctAdd(1)
		stub := &c17Stub{}
		api := network.NewSimpleAPIWithSimpleHTTP("http://example.test/api", network.NewSimpleHTTPWithClientAndInterceptors(&http.Client{Transport: stub}))
		calls := 0
		var seen []string
		ser := func(body interface{}) (io.Reader, error) {
			calls++
			seen = append(seen, fmt.Sprintf("%#v", body))
			b, err := json.Marshal(body)
			return bytes.NewReader(b), err
		}
		pv, where := core.Catch(func() {
			io1 := mk(api, ser)
			for evalN := 1; evalN <= 2; evalN++ {
				resp := io1.Eval()
				reqs := stub.take()
				if resp == nil || len(reqs) != 1 {
					e.c.Violationf("collection-body:requests", map[string]any{"case": what}, "%s: Eval #%d issued %d requests", what, evalN, len(reqs))
					return
				}
				if string(reqs[0].body) != want {
					e.c.Violationf("collection-body:wrong", map[string]any{"case": what}, "%s: the request body is %q, the serializer's output for that value is %q (Eval #%d)", what, reqs[0].body, want, evalN)
					return
				}
			}
			if wantCalls >= 0 && calls != 2*wantCalls {
				e.c.Violationf("collection-body:serializer-calls", map[string]any{"case": what}, "%s: the custom serializer was called %d times in 2 evaluations (saw %v), want %d", what, calls, seen, 2*wantCalls)
			}
		})
		if pv != nil {
			e.c.Violationf("collection-body:panic", map[string]any{"case": what}, "%s panics: %v at %s", what, pv, where)
		}
	}
	var nilInts []int
	var nilMap map[string]int
	var nilStrs []string
	type tc struct {
		name string
		v    interface{}
	}
	for _, t := range []tc{{"nil []int", nilInts}, {"empty []int", []int{}}, {"[]int{1,2}", []int{1, 2}}, {"nil map[string]int", nilMap}, {"empty map", map[string]int{}}, {"map{a:1}", map[string]int{"a": 1}}, {"nil []string", nilStrs}} {
		t := t
		wb, _ := json.Marshal(t.v)
		want := string(wb)
		target := &c17Target{}
		switch v := t.v.(type) {
		case []int:
			run("APIMakePostJSONBody[[]int] with "+t.name, want, -1, func(api *network.SimpleAPIDef, _ func(interface{}) (io.Reader, error)) *fpgo.MonadIODef[*network.APIResponse[c17Target]] {
				return network.APIMakePostJSONBody[[]int, c17Target](api, "c")(nil, v, target)
			})
			run("APIMakePutJSONBody[[]int] with "+t.name, want, -1, func(api *network.SimpleAPIDef, _ func(interface{}) (io.Reader, error)) *fpgo.MonadIODef[*network.APIResponse[c17Target]] {
				return network.APIMakePutJSONBody[[]int, c17Target](api, "c")(nil, v, target)
			})
			run("APIMakeDoNewRequestWithBodySerializer[[]int] with "+t.name, want, 1, func(api *network.SimpleAPIDef, ser func(interface{}) (io.Reader, error)) *fpgo.MonadIODef[*network.APIResponse[c17Target]] {
				return network.APIMakeDoNewRequestWithBodySerializer[[]int, c17Target](api, "POST", "c", "application/json", ser)(nil, v, target)
			})
		case map[string]int:
			run("APIMakePatchJSONBody[map[string]int] with "+t.name, want, -1, func(api *network.SimpleAPIDef, _ func(interface{}) (io.Reader, error)) *fpgo.MonadIODef[*network.APIResponse[c17Target]] {
				return network.APIMakePatchJSONBody[map[string]int, c17Target](api, "c")(nil, v, target)
			})
			run("APIMakeDoNewRequestWithBodySerializer[map[string]int] with "+t.name, want, 1, func(api *network.SimpleAPIDef, ser func(interface{}) (io.Reader, error)) *fpgo.MonadIODef[*network.APIResponse[c17Target]] {
				return network.APIMakeDoNewRequestWithBodySerializer[map[string]int, c17Target](api, "PUT", "c", "application/json", ser)(nil, v, target)
			})
		case []string:
			run("APIMakePostJSONBody[[]string] with "+t.name, want, -1, func(api *network.SimpleAPIDef, _ func(interface{}) (io.Reader, error)) *fpgo.MonadIODef[*network.APIResponse[c17Target]] {
				return network.APIMakePostJSONBody[[]string, c17Target](api, "c")(nil, v, target)
			})
		}
	}
	// values (not pointers) of struct, string and int type as body
	run("APIMakePostJSONBody[c17Body] with a zero struct value", `{"name":"","n":0}`, -1, func(api *network.SimpleAPIDef, _ func(interface{}) (io.Reader, error)) *fpgo.MonadIODef[*network.APIResponse[c17Target]] {
		return network.APIMakePostJSONBody[c17Body, c17Target](api, "c")(nil, c17Body{}, &c17Target{})
	})
	run("APIMakePostJSONBody[string] with the empty string", `""`, -1, func(api *network.SimpleAPIDef, _ func(interface{}) (io.Reader, error)) *fpgo.MonadIODef[*network.APIResponse[c17Target]] {
		return network.APIMakePostJSONBody[string, c17Target](api, "c")(nil, "", &c17Target{})
	})
	run("APIMakePostJSONBody[int] with 0", `0`, -1, func(api *network.SimpleAPIDef, _ func(interface{}) (io.Reader, error)) *fpgo.MonadIODef[*network.APIResponse[c17Target]] {
		return network.APIMakePostJSONBody[int, c17Target](api, "c")(nil, 0, &c17Target{})
	})
}

// response bodies far larger than any read buffer, through the real transport on loopback: the body must be decoded
// into the target completely
func (e *c17Env) largeBodies() {
	var size atomic.Int64
	srv := httptest.NewServer(http.HandlerFunc(func(w http.ResponseWriter, r *http.Request) {
		io.Copy(io.Discard, r.Body)
		w.Header().Set("Content-Type", "application/json")
		w.Write([]byte(`{"V":42,"S":"`))
		chunk := []byte(strings.Repeat("x", 4096))
		for left := int(size.Load()); left > 0; left -= len(chunk) {
			if left < len(chunk) {
				chunk = chunk[:left]
			}
			w.Write(chunk)
		}
		w.Write([]byte(`"}`))
	}))
	defer srv.Close()
	api := network.NewSimpleAPIWithSimpleHTTP(srv.URL+"/api", network.NewSimpleHTTPWithClientAndInterceptors(&http.Client{}))
	n := int64(0)
	for _, sz := range []int{0, 512, 4095, 4096, 64 << 10, 1 << 20, 4 << 20} {
		reps := 3
		if sz >= 1<<20 {
			reps = 1
		}
		for r := 0; r < reps; r++ {
			for cons := 0; cons < 3; cons++ {
				size.Store(int64(sz))
				target := &c17Target{}
				var io1 *fpgo.MonadIODef[*network.APIResponse[c17Target]]
				switch cons {
				case 0:
					io1 = network.APIMakeGet[c17Target](api, "big/{n}")(network.PathParam{"n": sz}, target)
				case 1:
					io1 = network.APIMakePostJSONBody[*c17Body, c17Target](api, "big")(nil, &c17Body{Name: "b"}, target)
				default:
					io1 = network.APIMakePostMultipartBody[c17Target](api, "big")(nil, &network.MultipartForm{Value: map[string][]string{"f": {"v"}}}, target)
				}
				var resp *network.APIResponse[c17Target]
				pv, where := core.Catch(func() { resp = io1.Eval() })
				n++
				e.c.Eval(1)
				e.c.DistinctAdd(1)
				what := []string{"APIMakeGet", "APIMakePostJSONBody", "APIMakePostMultipartBody"}[cons]
				if pv != nil {
					e.c.Violationf("eval:panic:large-body", map[string]any{"constructor": what, "response_bytes": sz}, "%s with a %d byte response body panics: %v at %s", what, sz, pv, where)
					return
				}
				if resp == nil || resp.Err != nil || target.V != 42 || len(target.S) != sz {
					var err error
					if resp != nil {
						err = resp.Err
					}
					e.c.Violationf("response:large-body-not-decoded", map[string]any{"constructor": what, "response_bytes": sz}, "%s against a healthy loopback server answering 200 with a %d byte JSON body: Err=%v, target.V=%d, len(target.S)=%d", what, sz, err, target.V, len(target.S))
					return
				}
			}
		}
	}
	e.c.Count("loopback_large_body_cases", n)
}

func c17HasValue(h http.Header, k, v string) bool {
	for _, x := range h.Values(k) {
		if x == v {
			return true
		}
	}
	return false
}

func c17CheckMultipart(ct string, body []byte, form *network.MultipartForm) string {
	_, params, err := mime.ParseMediaType(ct)
	if err != nil {
		return "bad content type " + ct
	}
	mr := multipart.NewReader(bytes.NewReader(body), params["boundary"])
	gotV := map[string][]string{}
	gotF := map[string][]string{}
	for {
		p, err := mr.NextPart()
		if err == io.EOF {
			break
		}
		if err != nil {
			return "unparsable: " + err.Error()
		}
		b, _ := io.ReadAll(p)
		if p.FileName() != "" {
			gotF[p.FormName()] = append(gotF[p.FormName()], p.FileName()+":"+string(b))
		} else {
			gotV[p.FormName()] = append(gotV[p.FormName()], string(b))
		}
	}
	wantV := map[string][]string{}
	for k, v := range form.Value {
		if len(v) > 0 {
			wantV[k] = v
		}
	}
	wantF := map[string][]string{}
	for k, paths := range form.File {
		for _, pth := range paths {
			b, _ := os.ReadFile(pth)
			wantF[k] = append(wantF[k], filepath.Base(pth)+":"+string(b))
		}
	}
	if !reflect.DeepEqual(gotV, wantV) {
		return fmt.Sprintf("fields %v want %v", gotV, wantV)
	}
	if !reflect.DeepEqual(gotF, wantF) {
		return fmt.Sprintf("files %v want %v", gotF, wantF)
	}
	return ""
}

func runC17(c *core.Ctx) {
	dir := filepath.Join(core.VerifDir, "run")
	os.MkdirAll(dir, 0o755)
	tmp := filepath.Join(dir, fmt.Sprintf("c17-upload-%d.txt", os.Getpid()))
	os.WriteFile(tmp, []byte("file-content-\x00-bytes"), 0o644)
	defer os.Remove(tmp)
	e := &c17Env{c: c, tmpFile: tmp}
	templates := []string{"", "users", "users/{id}", "{a}/{b}", "{a}{b}", "{a}/x/{a}", "{a}/{b}/{c}/{d}", "x/{missing}/y",
		// literal braces around and before placeholders
		"posts/{{id}}", "tpl/{raw/{a}", `f/{"o":{id}}/{a}`, "}{a}{"}
	params := []network.PathParam{nil, {}, {"id": 5}, {"a": "x", "b": "y"}, {"a": 1, "b": 2, "c": 3, "d": 4}, {"a": "sp ace", "b": "ü"}, {"extra": "e", "a": "A"}, {"a": "v/1", "b": true, "id": "q?x=1"}, {"a": "%zz"},
		// values formatted by their own methods: the URL carries what fmt's %v prints (Error() wins over String(), a typed
		// nil pointer prints <nil>)
		{"a": c17ErrStringer{}, "b": (*c17ValStringer)(nil), "id": time.Duration(1500) * time.Millisecond}, {"a": uint64(math.MaxUint64), "b": int8(-8), "c": 1.50, "d": 'x', "id": c17ValStringer{}}}
	faults := []string{"", "serializer", "transport", "nonjson", "readfail", "deserializer-target", "deserializer-nil", "serializer-stream"}
	for k := range c17TransportErrs {
		faults = append(faults, "transport-once:"+k)
	}
	sort.Strings(faults[8:])
	var cases []c17Case
	for cons := 0; cons < len(c17ConsNames); cons++ {
		for _, t := range templates {
			for _, p := range params {
				for body := 0; body < 4; body++ {
					for hdr := 0; hdr < 3; hdr++ {
						for _, f := range faults {
							if !c.Thorough() {
								// quick: full over constructor x template x params x fault, bodies/headers rotated
								if (body+hdr+len(t)+len(p))%4 != 0 && !(body == 2 && hdr == 1 && f == "") {
									continue
								}
							}
							cases = append(cases, c17Case{cons, t, p, body, hdr, f})
						}
					}
				}
			}
		}
	}
	parallelFor(len(cases), func(w, i int) { e.runCase(cases[i], nil) })
	c.Count("stub_transport_cases", int64(len(cases)))
	// a subset through the real transport against a loopback server
	srv := httptest.NewServer(http.HandlerFunc(func(w http.ResponseWriter, r *http.Request) {
		io.Copy(io.Discard, r.Body)
		w.Header().Set("Content-Type", "application/json")
		w.Write([]byte(`{"V":42,"S":"ok"}`))
	}))
	defer srv.Close()
	n := 0
	for i := 0; i < len(cases) && n < c.Pick(150, 1500); i += 37 {
		if cases[i].fault == "" && cases[i].cons != 8 {
			e.runCase(cases[i], srv)
			n++
		}
	}
	c.Count("loopback_cases", int64(n))
	e.largeBodies()
	e.collectionBodies()
	for i := 0; i < len(cases); i += len(cases)/5 + 1 {
		c.Sample(cases[i].String())
	}
}

func init() {
	core.Register(&core.Check{
		ID: "C17",
		Meta: func(c *core.Ctx) core.Meta {
			return core.Meta{
				Level: "fault_enumeration",
				Rule: "11 constructors x 12 relative templates (0..4 placeholders, repeated and adjacent, literal braces before / around placeholders) x 11 PathParam maps (nil, empty, missing, extra, 1..4 keys, spaces, unicode, slash, '?', unparsable escape, values with Error()/String() methods, typed nil pointers, extreme numbers) x 4 bodies x 3 DefaultHeader sets x 16 injected outcomes (none, serializer error, a custom serializer whose reader fails half way, transport error, a first round trip failing with EOF / unexpected EOF / ECONNRESET / EPIPE / ECONNREFUSED / net.OpError / wrapped EOF / deadline while a second one would succeed, non-JSON body, unreadable body, deserializer (target,err), deserializer (nil,err)); thorough = full product, quick = full over constructor x template x params x fault with bodies/headers rotated. " +
					"A stub RoundTripper under SimpleHTTP captures method, URL, header map (identity + content) and body; each case: nothing before Eval, exactly one request per Eval (x2), expected method/URL/headers/body, target decoded, failures surface as Err without panic; a subset also through the real transport against a loopback server, plus response bodies of 0 B .. 4 MiB through the real transport, plus body TYPES other than pointers (slices, maps: nil / empty / filled; zero struct, empty string, 0) with the JSON serializer's output as oracle and a counting custom serializer. distinct_nontrivial = enumerated cases (distinct by construction)",
				Assumptions: []string{"expected URL = BaseURL + '/' + template with every supplied {key} replaced by fmt.Sprint(value); values contain no braces; if that string does not parse as a URL the evaluation must yield Err",
					"expected headers = DefaultHeader values + the declared Content-Type appended; the stub sees the request before net/http's real transport adds its own headers"},
				Exhaustive: c.Thorough(),
			}
		},
		Run: runC17,
	})
}
