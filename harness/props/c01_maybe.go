package props

import (
	"fmt"
	"math"
	"net/url"
	"reflect"
	"time"
	"unsafe"

	fpgo "github.com/TeaEntityLab/fpGo/v2"

	"verifharness/internal/core"
)

// C01 — Maybe: one notion of absence, monad laws, total.
// Oracle: reference predicate absent(v) computed with reflect (independent of fpgo.IsNil) and an
// observation tuple compared between the two sides of every law instance.

func c01Absent(v any) bool {
	if v == nil {
		return true
	}
	rv := reflect.ValueOf(v)
	return rv.Kind() == reflect.Ptr && rv.IsNil()
}

// valueEqual: observational equality of two Go values (NaN-tolerant, funcs by code pointer).
func valueEqual(a, b any) bool {
	if a == nil || b == nil {
		return a == nil && b == nil
	}
	if ma, ok := a.(fpgo.MaybeDef[any]); ok && reflect.ValueOf(a).Kind() != reflect.Ptr {
		// nested Maybes are compared by observation (their wrapped values may be funcs, NaNs, ...)
		mb, ok := b.(fpgo.MaybeDef[any])
		return ok && reflect.ValueOf(b).Kind() != reflect.Ptr && reflect.TypeOf(a) == reflect.TypeOf(b) && observe(ma).equal(observe(mb))
	}
	va, vb := reflect.ValueOf(a), reflect.ValueOf(b)
	if va.Type() != vb.Type() {
		return false
	}
	switch va.Kind() {
	case reflect.Func:
		return va.Pointer() == vb.Pointer()
	case reflect.Float32, reflect.Float64:
		return math.Float64bits(va.Float()) == math.Float64bits(vb.Float()) || va.Float() == vb.Float()
	case reflect.Chan, reflect.UnsafePointer, reflect.Map:
		return va.Pointer() == vb.Pointer()
	case reflect.Ptr:
		return va.Pointer() == vb.Pointer()
	case reflect.Slice:
		if va.IsNil() != vb.IsNil() || va.Len() != vb.Len() {
			return false
		}
		return va.Len() == 0 || va.Pointer() == vb.Pointer() || reflect.DeepEqual(a, b)
	}
	return reflect.DeepEqual(a, b)
}

type c01Obs struct {
	isNil, isPresent, isValid, isPtr bool
	unwrapI                          any
	typ                              reflect.Type
	kind                             reflect.Kind
	str                              string
}

func observe[T any](m fpgo.MaybeDef[T]) c01Obs {
	return c01Obs{isNil: m.IsNil(), isPresent: m.IsPresent(), isValid: m.IsValid(), isPtr: m.IsPtr(),
		unwrapI: m.UnwrapInterface(), typ: m.Type(), kind: m.Kind(), str: m.ToString()}
}

func (o c01Obs) equal(p c01Obs) bool {
	return o.isNil == p.isNil && o.isPresent == p.isPresent && o.typ == p.typ && o.str == p.str && valueEqual(o.unwrapI, p.unwrapI)
}

func (o c01Obs) String() string {
	return fmt.Sprintf("{nil:%v present:%v type:%v kind:%v str:%q unwrap:%#v}", o.isNil, o.isPresent, o.typ, o.kind, core.Truncate(o.str, 60), o.unwrapI)
}

type c01Env struct {
	c *core.Ctx
}

func (e *c01Env) guard(cons, vdesc, observer string, fn func() string) {
	e.c.Eval(1)
	e.c.Distinct(cons + "|" + vdesc + "|" + observer)
	var msg string
	pv, where := core.Catch(func() { msg = fn() })
	if pv != nil {
		e.c.Violationf(fmt.Sprintf("%s:%s:panic:%s", cons, observer, core.NormalizePanic(fmt.Sprint(pv))), map[string]any{"constructor": cons, "value": vdesc, "observer": observer},
			"%s(%s).%s panics: %v at %s", cons, vdesc, observer, pv, where)
		return
	}
	if msg != "" {
		e.c.Violationf(fmt.Sprintf("%s:%s:wrong", cons, observer), map[string]any{"constructor": cons, "value": vdesc, "observer": observer},
			"%s(%s).%s: %s", cons, vdesc, observer, msg)
	}
}

// c01Check runs every observer on m = cons(v).
func c01Check[T any](e *c01Env, cons string, vdesc string, m fpgo.MaybeDef[T], v T, fallback T, isIface bool) {
	a := c01Absent(any(v))
	g := func(observer string, fn func() string) { e.guard(cons, vdesc, observer, fn) }

	g("IsNil/IsPresent", func() string {
		if m.IsNil() != a || m.IsPresent() != !a {
			return fmt.Sprintf("IsNil=%v IsPresent=%v, reference absent=%v", m.IsNil(), m.IsPresent(), a)
		}
		return ""
	})
	g("Or", func() string {
		got := m.Or(fallback)
		want := any(v)
		if a {
			want = any(fallback)
		}
		if !valueEqual(any(got), want) {
			return fmt.Sprintf("Or(fallback)=%#v, want %#v (absent=%v)", got, want, a)
		}
		return ""
	})
	g("Let", func() string {
		n := 0
		m.Let(func() { n++ })
		want := 1
		if a {
			want = 0
		}
		if n != want {
			return fmt.Sprintf("callback ran %d times, want %d", n, want)
		}
		return ""
	})
	g("UnwrapInterface", func() string {
		got := m.UnwrapInterface()
		if a {
			if got != nil {
				return fmt.Sprintf("absent but UnwrapInterface()=%#v", got)
			}
		} else if got == nil || !valueEqual(got, any(v)) {
			return fmt.Sprintf("UnwrapInterface()=%#v, want the wrapped value %#v", got, v)
		}
		return ""
	})
	g("Unwrap", func() string { _ = m.Unwrap(); return "" })
	g("Type", func() string {
		got := m.Type()
		if a {
			if got != nil {
				return fmt.Sprintf("absent but Type()=%v", got)
			}
		} else if got != reflect.TypeOf(any(v)) {
			return fmt.Sprintf("Type()=%v, want %v", got, reflect.TypeOf(any(v)))
		}
		return ""
	})
	g("Kind/IsKind/IsType/IsValid/IsPtr", func() string {
		k := m.Kind()
		_ = m.IsKind(k)
		_ = m.IsType(reflect.TypeOf(0))
		_ = m.IsValid()
		_ = m.IsPtr()
		return ""
	})
	g("ToString", func() string {
		s := m.ToString()
		if a && s != "<nil>" {
			return fmt.Sprintf("absent but ToString()=%q", s)
		}
		return ""
	})
	g("ToPtr", func() string { _ = m.ToPtr(); return "" })
	g("Just", func() string { _ = m.Just(1); _ = m.Just(nil); return "" })
	// conversions: absent => (zero, ErrConversionNil) for every one of them; present => no panic
	if cv, ok := any(m).(convAll); ok {
		type conv struct {
			name string
			f    func() (any, error)
		}
		convs := []conv{
			{"ToInt", func() (any, error) { x, e := cv.ToInt(); return x, e }}, {"ToInt8", func() (any, error) { x, e := cv.ToInt8(); return x, e }},
			{"ToInt16", func() (any, error) { x, e := cv.ToInt16(); return x, e }}, {"ToInt32", func() (any, error) { x, e := cv.ToInt32(); return x, e }},
			{"ToInt64", func() (any, error) { x, e := cv.ToInt64(); return x, e }}, {"ToByte", func() (any, error) { x, e := cv.ToByte(); return x, e }},
			{"ToUint8", func() (any, error) { x, e := cv.ToUint8(); return x, e }}, {"ToUint", func() (any, error) { x, e := cv.ToUint(); return x, e }},
			{"ToUint16", func() (any, error) { x, e := cv.ToUint16(); return x, e }}, {"ToUint32", func() (any, error) { x, e := cv.ToUint32(); return x, e }},
			{"ToUint64", func() (any, error) { x, e := cv.ToUint64(); return x, e }}, {"ToUintptr", func() (any, error) { x, e := cv.ToUintptr(); return x, e }},
			{"ToFloat32", func() (any, error) { x, e := cv.ToFloat32(); return x, e }}, {"ToFloat64", func() (any, error) { x, e := cv.ToFloat64(); return x, e }},
			{"ToBool", func() (any, error) { x, e := cv.ToBool(); return x, e }},
		}
		for _, cvn := range convs {
			cvn := cvn
			g(cvn.name, func() string {
				x, err := cvn.f()
				if a {
					if err != fpgo.ErrConversionNil || !reflect.ValueOf(x).IsZero() {
						return fmt.Sprintf("absent but returned (%v, %v), want (zero, ErrConversionNil)", x, err)
					}
				} else if err == fpgo.ErrConversionNil {
					return fmt.Sprintf("present but returned ErrConversionNil")
				}
				return ""
			})
		}
	} else {
		g("conversions", func() string { return "the Maybe does not expose the conversion methods" })
	}
	// FlatMap(f) is f applied to the wrapped value
	wrap := func(x T) fpgo.MaybeDef[T] { return fpgo.JustGenerics(x) }
	constZero := func(T) fpgo.MaybeDef[T] { return fpgo.JustGenerics(*new(T)) }
	constFb := func(T) fpgo.MaybeDef[T] { return fpgo.JustGenerics(fallback) }
	fam := []struct {
		name string
		f    func(T) fpgo.MaybeDef[T]
	}{{"wrap", wrap}, {"constZero", constZero}, {"constFallback", constFb}}
	if isIface {
		// richer family for the interface{} instantiation
		mk := func(f func(any) fpgo.MaybeDef[any]) func(T) fpgo.MaybeDef[T] {
			return func(x T) fpgo.MaybeDef[T] { return any(f(any(x))).(fpgo.MaybeDef[T]) }
		}
		fam = append(fam,
			struct {
				name string
				f    func(T) fpgo.MaybeDef[T]
			}{"Maybe.Just", mk(func(x any) fpgo.MaybeDef[any] { return fpgo.Maybe.Just(x) })},
			struct {
				name string
				f    func(T) fpgo.MaybeDef[T]
			}{"None", mk(func(x any) fpgo.MaybeDef[any] { return fpgo.None })},
			struct {
				name string
				f    func(T) fpgo.MaybeDef[T]
			}{"nest", mk(func(x any) fpgo.MaybeDef[any] { return fpgo.Maybe.Just(fpgo.Maybe.Just(x)) })},
			struct {
				name string
				f    func(T) fpgo.MaybeDef[T]
			}{"tag", mk(func(x any) fpgo.MaybeDef[any] { return fpgo.Maybe.Just([2]any{"tag", fmt.Sprintf("%T", x)}) })},
		)
	}
	for _, f := range fam {
		f := f
		g("FlatMap("+f.name+")", func() string {
			calls := 0
			var arg T
			got := m.FlatMap(func(x T) fpgo.MaybeDef[T] { calls++; arg = x; return f.f(x) })
			if calls != 1 {
				return fmt.Sprintf("f was called %d times", calls)
			}
			// present: f must receive v itself; absent: f must receive an absent value (None carries an
			// untyped nil even when it was built from a typed nil pointer)
			if a {
				if !c01Absent(any(arg)) {
					return fmt.Sprintf("absent Maybe but f received %#v", arg)
				}
			} else if !valueEqual(any(arg), any(v)) {
				return fmt.Sprintf("f received %#v, wrapped value is %#v", arg, v)
			}
			want := f.f(arg)
			if o1, o2 := observe(got), observe(want); !o1.equal(o2) {
				return fmt.Sprintf("m.FlatMap(f) observes %v but f(v) observes %v (left identity)", o1, o2)
			}
			return ""
		})
		for _, h := range fam {
			h := h
			g("FlatMap-assoc("+f.name+","+h.name+")", func() string {
				l := m.FlatMap(f.f).FlatMap(h.f)
				r := m.FlatMap(func(x T) fpgo.MaybeDef[T] { return f.f(x).FlatMap(h.f) })
				if o1, o2 := observe(l), observe(r); !o1.equal(o2) {
					return fmt.Sprintf("(m>>=f)>>=g observes %v but m>>=(x->f x>>=g) observes %v", o1, o2)
				}
				return ""
			})
		}
	}
	g("FlatMap-right-identity", func() string {
		var r fpgo.MaybeDef[T]
		if isIface {
			r = m.FlatMap(func(x T) fpgo.MaybeDef[T] { return any(fpgo.Maybe.Just(any(x))).(fpgo.MaybeDef[T]) })
		} else {
			r = m.FlatMap(wrap)
		}
		if o1, o2 := observe(r), observe(m); !o1.equal(o2) {
			return fmt.Sprintf("m.FlatMap(Just) observes %v but m observes %v", o1, o2)
		}
		return ""
	})
	// Clone: equal Maybe; a pointer target is a distinct copy
	g("Clone", func() string {
		cl := m.Clone()
		o1, o2 := observe(cl), observe(m)
		if o1.isNil != o2.isNil || o1.isPresent != o2.isPresent || o1.typ != o2.typ {
			return fmt.Sprintf("clone observes %v, original %v", o1, o2)
		}
		if a {
			return ""
		}
		rv := reflect.ValueOf(any(v))
		cv := reflect.ValueOf(cl.UnwrapInterface())
		if rv.Kind() == reflect.Ptr {
			if !cv.IsValid() || cv.Kind() != reflect.Ptr || cv.IsNil() {
				return fmt.Sprintf("clone of a pointer unwraps to %#v", cl.UnwrapInterface())
			}
			if cv.Pointer() == rv.Pointer() {
				return "clone shares the pointer target with the original"
			}
			if !valueEqual(cv.Elem().Interface(), rv.Elem().Interface()) {
				return fmt.Sprintf("*clone=%#v differs from *original=%#v", cv.Elem().Interface(), rv.Elem().Interface())
			}
			// a later write through the original must be invisible through the clone
			if rv.Elem().CanSet() {
				before := reflect.New(rv.Elem().Type()).Elem()
				before.Set(cv.Elem())
				old := reflect.New(rv.Elem().Type()).Elem()
				old.Set(rv.Elem())
				rv.Elem().Set(reflect.Zero(rv.Elem().Type()))
				same := valueEqual(cv.Elem().Interface(), before.Interface())
				rv.Elem().Set(old)
				if !same {
					return "a write through the original pointer is visible through the clone"
				}
			}
		} else if !valueEqual(cl.UnwrapInterface(), any(v)) {
			return fmt.Sprintf("clone unwraps to %#v, original %#v", cl.UnwrapInterface(), v)
		}
		return ""
	})
	if !isIface {
		g("ToMaybe", func() string {
			if o1, o2 := observe(m.ToMaybe()), observe(m); !o1.equal(o2) {
				return fmt.Sprintf("ToMaybe of a non-nested Maybe observes %v, original %v", o1, o2)
			}
			return ""
		})
	}
}

// nesting depth of an interface{} Maybe: how many Maybe layers wrap the innermost non-Maybe value
func c01Depth(m fpgo.MaybeDef[any]) int {
	d := 0
	for {
		d++
		inner, ok := m.UnwrapInterface().(fpgo.MaybeDef[any])
		if !ok || m.IsNil() {
			return d
		}
		m = inner
	}
}

func c01Typed[T any](e *c01Env, tname string, vals []T, fallback T) {
	for i, v := range vals {
		vd := fmt.Sprintf("%s#%d=%s", tname, i, core.Truncate(fmt.Sprintf("%#v", v), 50))
		var m fpgo.MaybeDef[T]
		pv, where := core.Catch(func() { m = fpgo.JustGenerics(v) })
		if pv != nil {
			e.c.Violationf("JustGenerics:construct:panic", map[string]any{"value": vd}, "JustGenerics[%s](%s) panics: %v at %s", tname, vd, pv, where)
			continue
		}
		c01Check(e, "JustGenerics["+tname+"]", vd, m, v, fallback, false)
	}
}

type c01S struct {
	A int
	b string
	C []int
}

// hostile values: their own Error()/String()/GoString()/Format methods panic (fmt recovers from such panics when it
// renders a value, so no Maybe observer may panic because of them either)
type c01BadErr struct{ error } // embeds a nil error: Error() dereferences nil

type c01BadStringer struct{ m map[string]int }

func (b c01BadStringer) String() string { b.m["x"] = 1; return "never" } // writes to a nil map

type c01BadPtrStringer struct{ n *int }

func (b *c01BadPtrStringer) String() string { return fmt.Sprint(*b.n) } // nil dereference through a pointer receiver

type c01NamedPtr *int

type c01NilTolerant struct{ n int }

func (p *c01NilTolerant) String() string {
	if p == nil {
		return "(no node)"
	}
	return "node"
}

type c01ValStringer struct{ n int }

func (v c01ValStringer) String() string { return "value receiver" } // calling it through a nil *c01ValStringer panics

func c01TwinStruct1() any {
	type Ref struct{ N int }
	return Ref{1}
}

func c01TwinNilPtr1() any {
	type Ref *int
	var r Ref
	return r
}

func c01TwinPtr2() any {
	type Handle *int
	n := 3
	return Handle(&n)
}

func c01TwinStruct2() any {
	type Handle struct{ S string }
	return Handle{"x"}
}

func runC01(c *core.Ctx) {
	e := &c01Env{c: c}
	i1, i2 := 7, 9
	p1 := &i1
	var nilInt *int
	var nilS *c01S
	pnil := &nilInt
	s1 := &c01S{1, "x", []int{1}}
	ch := make(chan int)
	fn := func() {}
	var nilFn func()
	var nilCh chan int
	var nilMap map[string]int
	var nilSlice []int
	var nilErr error
	up := unsafe.Pointer(&i2)

	// ---- interface{} family: Maybe.Just(v) and JustGenerics[interface{}](v)
	corpus := []any{
		nil, true, false, 0, 1, -5, int8(-3), int16(300), int32(-70000), int64(1 << 40), uint(3), uint8(200), uint16(65535), uint32(1 << 31), uint64(1 << 63), uintptr(9),
		float32(1.5), 2.25, math.Inf(1), complex64(1 + 2i), complex128(3 - 1i), "", "abc", "12", "<nil>", "nil", "null", "None", " <nil>", "%!s(<nil>)", "0x0", "false", [2]int{1, 2}, [0]int{}, c01S{}, c01S{2, "y", nil}, struct{}{},
		nilSlice, []int{}, []int{1, 2}, []any{nil, 1}, nilMap, map[string]int{}, map[string]int{"a": 1}, nilFn, fn, nilCh, ch,
		p1, &p1, nilInt, pnil, nilS, s1, &s1, (*[]int)(nil), &nilSlice, (*any)(nil), up, unsafe.Pointer(nil), nilErr, fmt.Errorf("e"),
		fpgo.None, fpgo.Maybe.Just(1), fpgo.Maybe.Just(nil), fpgo.Maybe.Just(fpgo.Maybe.Just("x")), fpgo.JustGenerics(5), fpgo.JustGenerics[*int](nil),
		c01BadErr{}, &c01BadErr{}, c01BadStringer{}, &c01BadStringer{}, &c01BadPtrStringer{}, error(c01BadErr{}), fmt.Stringer(c01BadStringer{}),
		// distinct types that PRINT alike (function-local types of the same name): a struct then a nil named pointer, and a
		// named pointer then a struct - anything keyed by the type's name instead of the type confuses them
		c01TwinStruct1(), c01TwinNilPtr1(), c01TwinPtr2(), c01TwinStruct2(), c01TwinNilPtr1(), c01TwinStruct1(),
		reflect.ValueOf(1), // (no reflect.Type: a copied runtime type descriptor is invalid by construction of the Go runtime, not of fpGo)
	}
	for i, v := range corpus {
		vd := fmt.Sprintf("any#%d=%s", i, core.Truncate(fmt.Sprintf("%T:%#v", v, v), 60))
		if c.WantSample() && i%7 == 3 {
			c.Sample(map[string]any{"constructor": "Maybe.Just + JustGenerics[interface{}]", "value": vd, "observers": "all"})
		}
		var m1, m2 fpgo.MaybeDef[any]
		pv, where := core.Catch(func() { m1 = fpgo.Maybe.Just(v); m2 = fpgo.JustGenerics[any](v) })
		if pv != nil {
			c.Violationf("construct:panic", map[string]any{"value": vd}, "constructing a Maybe from %s panics: %v at %s", vd, pv, where)
			continue
		}
		c01Check(e, "Maybe.Just", vd, m1, v, any("fallback"), true)
		c01Check(e, "JustGenerics[any]", vd, m2, v, any("fallback"), true)
		// ToMaybe flattens exactly one level: n_k = Just^(k+1)(v)
		if _, isMaybe := v.(fpgo.MaybeDef[any]); !isMaybe {
			for _, cons := range []struct {
				name string
				f    func(any) fpgo.MaybeDef[any]
			}{{"Maybe.Just", func(x any) fpgo.MaybeDef[any] { return fpgo.Maybe.Just(x) }}, {"JustGenerics[any]", func(x any) fpgo.MaybeDef[any] { return fpgo.JustGenerics[any](x) }}} {
				cons := cons
				layers := []fpgo.MaybeDef[any]{cons.f(v)}
				for k := 1; k <= 3; k++ {
					layers = append(layers, cons.f(layers[k-1]))
				}
				for k := 0; k <= 3; k++ {
					k := k
					e.guard(cons.name, vd, fmt.Sprintf("ToMaybe(depth %d)", k+1), func() string {
						got := layers[k].ToMaybe()
						want := layers[k]
						if k > 0 {
							want = layers[k-1]
						}
						if layers[k].IsNil() {
							want = layers[k]
						}
						if o1, o2 := observe(got), observe(want); !o1.equal(o2) || c01Depth(got) != c01Depth(want) {
							return fmt.Sprintf("ToMaybe() of a depth-%d nesting observes %v (depth %d), want %v (depth %d): exactly one level must be removed",
								k+1, o1, c01Depth(got), o2, c01Depth(want))
						}
						return ""
					})
				}
			}
		}
	}
	// ---- typed families
	c01Typed(e, "int", []int{0, 1, -9}, 42)
	c01Typed(e, "int8", []int8{0, -128}, 4)
	c01Typed(e, "uint64", []uint64{0, 1 << 63}, 4)
	c01Typed(e, "float64", []float64{0, 2.5, math.Inf(-1)}, 4)
	c01Typed(e, "bool", []bool{false, true}, true)
	c01Typed(e, "string", []string{"", "abc", "7", "<nil>", "nil", "null"}, "fb")
	c01Typed(e, "complex128", []complex128{0, 1i}, 2)
	c01Typed(e, "[2]int", [][2]int{{}, {1, 2}}, [2]int{9, 9})
	c01Typed(e, "struct", []c01S{{}, {1, "a", []int{1}}}, c01S{A: 99})
	c01Typed(e, "[]int", [][]int{nil, {}, {1, 2}}, []int{9})
	c01Typed(e, "map", []map[string]int{nil, {}, {"a": 1}}, map[string]int{"fb": 1})
	c01Typed(e, "func", []func(){nil, fn}, func() {})
	c01Typed(e, "chan", []chan int{nil, ch}, make(chan int))
	c01Typed(e, "*int", []*int{nil, p1, &i2}, new(int))
	c01Typed(e, "**int", []**int{nil, pnil, &p1}, new(*int))
	c01Typed(e, "*struct", []*c01S{nil, s1, {}}, &c01S{A: 5})
	c01Typed(e, "*[]int", []*[]int{nil, &nilSlice, {1}}, &[]int{3})
	c01Typed(e, "unsafe.Pointer", []unsafe.Pointer{nil, up}, unsafe.Pointer(&i1))
	c01Typed(e, "named pointer type", []c01NamedPtr{nil, c01NamedPtr(&i1)}, c01NamedPtr(&i2))
	// typed nil pointers whose type has a String() method (absent all the same: ToString is "<nil>", nothing is called on them)
	c01Typed(e, "*time.Location", []*time.Location{nil, time.UTC}, time.Local)
	c01Typed(e, "*url.URL", []*url.URL{nil, {Scheme: "http", Host: "h"}}, &url.URL{})
	c01Typed(e, "*nilTolerantStringer", []*c01NilTolerant{nil, {}}, &c01NilTolerant{})
	c01Typed(e, "fmt.Stringer", []fmt.Stringer{nil, (*c01NilTolerant)(nil), (*url.URL)(nil), time.UTC}, fmt.Stringer(time.UTC))
	c01Typed(e, "valueReceiverStringer*", []*c01ValStringer{nil, {}}, &c01ValStringer{})
	c01Typed(e, "error", []error{nil, fmt.Errorf("x")}, fmt.Errorf("fb"))
	c01Typed(e, "any", []any{nil, 1, nilInt, p1, "s"}, any("fb"))
	c01Typed(e, "error(hostile)", []error{c01BadErr{}, &c01BadErr{}}, fmt.Errorf("fb"))
	c01Typed(e, "fmt.Stringer(hostile)", []fmt.Stringer{c01BadStringer{}, &c01BadPtrStringer{}}, fmt.Stringer(nil))
	c01Typed(e, "struct(hostile)", []c01BadStringer{{}}, c01BadStringer{m: map[string]int{}})
	c01Typed(e, "MaybeDef[any]", []fpgo.MaybeDef[any]{nil, fpgo.None, fpgo.Maybe.Just(1), fpgo.Maybe.Just(fpgo.None)}, fpgo.Maybe.Just("fb"))

	// ---- PRNG-built values (random nesting of pointers / Maybes / typed nil pointers)
	rng := c.Rng("c01")
	n := c.Pick(3000, 100000)
	for i := 0; i < n; i++ {
		var v any
		switch rng.Intn(6) {
		case 0:
			v = rng.Intn(1000) - 500
		case 1:
			v = fmt.Sprint(rng.Intn(100))
		case 2:
			v = rng.Float64() * 100
		case 3:
			v = rng.Intn(2) == 0
		case 4:
			v = c01S{A: rng.Intn(5), b: "q"}
		default:
			v = nil
		}
		depth := rng.Intn(4)
		desc := fmt.Sprintf("%T", v)
		for d := 0; d < depth; d++ {
			switch rng.Intn(4) {
			case 0, 1: // pointer to
				if v == nil {
					var x any
					v = &x
					desc = "*" + desc
				} else {
					pv := reflect.New(reflect.TypeOf(v))
					pv.Elem().Set(reflect.ValueOf(v))
					v = pv.Interface()
					desc = "*" + desc
				}
			case 2: // wrap in a Maybe
				if rng.Intn(2) == 0 {
					v = fpgo.Maybe.Just(v)
				} else {
					v = fpgo.JustGenerics[any](v)
				}
				desc = "Maybe(" + desc + ")"
			default: // typed nil pointer of the current type
				if v != nil {
					v = reflect.Zero(reflect.PtrTo(reflect.TypeOf(v))).Interface()
					desc = "nil*" + desc
				}
			}
		}
		vd := "rnd:" + desc
		var m1, m2 fpgo.MaybeDef[any]
		pv, where := core.Catch(func() { m1 = fpgo.Maybe.Just(v); m2 = fpgo.JustGenerics[any](v) })
		if pv != nil {
			c.Violationf("construct:panic", map[string]any{"value": vd}, "constructing a Maybe from %s panics: %v at %s", vd, pv, where)
			continue
		}
		c01Check(e, "Maybe.Just", vd, m1, v, any("fallback"), true)
		c01Check(e, "JustGenerics[any]", vd, m2, v, any("fallback"), true)
	}
	c.Count("corpus_values", int64(len(corpus)))
	c.Count("random_values", int64(n))
}

func init() {
	core.Register(&core.Check{
		ID: "C01",
		Meta: func(c *core.Ctx) core.Meta {
			return core.Meta{
				Level: "exploration",
				Rule: "value corpus = every Go kind x {zero, typical, nil/typed-nil} (bool, ints, uints, floats, complex, string, array, struct with unexported fields, slice, map, func, chan, *T, **T, pointer to nil pointer, typed nil pointers, untyped nil, unsafe.Pointer, error, nested Maybe depth 1..4, None, Just(None), values whose own Error()/String() methods panic) x {Maybe.Just, JustGenerics[any], JustGenerics[T] for 21 concrete T} x every MaybeDef method and the 10 extra conversions, plus PRNG-built values with random pointer/Maybe/typed-nil nesting. " +
					"Oracle: reflect-based absent(v); observers must agree with it; law instances (left/right identity, associativity over a function family) compared by observation tuples; ToMaybe must remove exactly one nesting level; Clone of a pointer must be a distinct deep-equal target. distinct_nontrivial = distinct (constructor, value, observer) cells",
				Assumptions: []string{"nil func/map/chan/slice and nil unsafe.Pointer are present (only untyped nil and nil pointers are absent)",
					"ToPtr/IsValid/IsPtr/Kind/Unwrap/IsType/IsKind are only required not to panic", "ToMaybe flattening is only expressible for the interface{} instantiation; for concrete T it must be the identity",
					"Clone copies one pointer level (a **T clone shares the inner pointer)"},
				Exhaustive: false,
			}
		},
		Run: runC01,
	})
}
