package props

import (
	"sort"
	"fmt"
	"math"
	"math/rand"
	"strings"

	fpgo "github.com/TeaEntityLab/fpGo/v2"

	"verifharness/internal/core"
)

// C19 — sorting yields an ordered, stable permutation; descriptors sort by key list.

type c19Rec struct {
	K1 int
	K2 string
	ID int
}

type c19DRec struct {
	K1 fpgo.ComparableOrdered[int]
	K2 fpgo.ComparableString
	K3 fpgo.ComparableOrdered[float64]
	ID int
}

func c19CheckSorted[T any](in, out []T, id func(T) int, less func(a, b T) bool, stable bool) string {
	if len(in) != len(out) {
		return fmt.Sprintf("length|output has %d elements, input %d", len(out), len(in))
	}
	seen := map[int]int{}
	for _, x := range in {
		seen[id(x)]++
	}
	for _, x := range out {
		seen[id(x)]--
	}
	for k, v := range seen {
		if v != 0 {
			return fmt.Sprintf("not-permutation|not a permutation (id %d count off by %d)", k, v)
		}
	}
	for i := 0; i < len(out); i++ {
		for j := i + 1; j < len(out); j++ {
			if less(out[j], out[i]) {
				return fmt.Sprintf("not-ordered|element #%d %v precedes #%d %v although the comparator places the latter strictly first", i, out[i], j, out[j])
			}
			if stable && !less(out[i], out[j]) && id(out[i]) > id(out[j]) {
				return fmt.Sprintf("not-stable|not stable: %v and %v are not distinguished by the comparator but changed their input order", out[i], out[j])
			}
		}
	}
	return ""
}

type c19Env struct{ c *core.Ctx }

func (e *c19Env) run(api, cmp string, list any, nontrivial bool, fn func() string) {
	e.c.Eval(1)
	if nontrivial {
		e.c.DistinctAdd(1)
	}
	var msg string
	pv, where := core.Catch(func() { msg = fn() })
	if pv != nil {
		e.c.Violationf(api+":panic:"+core.NormalizePanic(fmt.Sprint(pv)), map[string]any{"api": api, "comparator": cmp, "list": fmt.Sprint(list)}, "%s with %s on %v panics: %v at %s", api, cmp, list, pv, where)
	} else if msg != "" {
		cat := "other"
		if i := strings.Index(msg, "|"); i > 0 {
			cat, msg = msg[:i], msg[i+1:]
		}
		e.c.Violationf(api+":"+cat, map[string]any{"api": api, "comparator": cmp, "list": fmt.Sprint(list)}, "%s with %s on %v: %s", api, cmp, list, msg)
	}
}

func c19Comparators() []struct {
	name string
	less func(a, b c19Rec) bool
} {
	return []struct {
		name string
		less func(a, b c19Rec) bool
	}{
		{"K1 asc", func(a, b c19Rec) bool { return a.K1 < b.K1 }},
		{"K1 desc", func(a, b c19Rec) bool { return a.K1 > b.K1 }},
		{"K2 asc", func(a, b c19Rec) bool { return a.K2 < b.K2 }},
		{"K1 asc, K2 desc", func(a, b c19Rec) bool { return a.K1 < b.K1 || (a.K1 == b.K1 && a.K2 > b.K2) }},
		{"none (all equal)", func(a, b c19Rec) bool { return false }},
	}
}

func c19ComparatorSorts(e *c19Env, lists [][]c19Rec) {
	id := func(r c19Rec) int { return r.ID }
	cmps := c19Comparators()
	parallelFor(len(lists), func(w, li int) {
		in := lists[li]
		nt := len(in) >= 2
		for _, cm := range cmps {
			cm := cm
			e.run("Sort", cm.name, in, nt, func() string {
				work := append([]c19Rec(nil), in...)
				fpgo.Sort(cm.less, work)
				return c19CheckSorted(in, work, id, cm.less, true)
			})
			e.run("SortSlice", cm.name, in, nt, func() string {
				work := append([]c19Rec(nil), in...)
				out := fpgo.SortSlice(cm.less, work...)
				return c19CheckSorted(in, out, id, cm.less, true)
			})
			e.run("Stream.Sort", cm.name, in, nt, func() string {
				work := append([]c19Rec(nil), in...)
				s := fpgo.StreamFromArray(work)
				out := s.Sort(cm.less).ToArray()
				if m := c19CheckSorted(in, out, id, cm.less, true); m != "" {
					return m
				}
				if !eqSeq(s.ToArray(), in) {
					return fmt.Sprintf("input-modified|input modified: receiver now %v", s.ToArray())
				}
				return ""
			})
			e.run("Stream.SortByIndex", cm.name, in, nt, func() string {
				work := append([]c19Rec(nil), in...)
				s := fpgo.StreamFromArray(work)
				out := s.SortByIndex(func(i, j int) bool { return cm.less((*s)[i], (*s)[j]) }).ToArray()
				if m := c19CheckSorted(in, out, id, cm.less, true); m != "" {
					return m
				}
				if !eqSeq(s.ToArray(), in) {
					return fmt.Sprintf("input-modified|input modified: receiver now %v", s.ToArray())
				}
				return ""
			})
			e.run("StreamForInterface.Sort", cm.name, in, nt, func() string {
				bx := make([]interface{}, len(in))
				for i, r := range in {
					bx[i] = r
				}
				s := fpgo.StreamForInterface.FromArray(bx)
				res := s.Sort(func(a, b interface{}) bool { return cm.less(a.(c19Rec), b.(c19Rec)) }).ToArray()
				out := make([]c19Rec, len(res))
				for i, r := range res {
					out[i] = r.(c19Rec)
				}
				if m := c19CheckSorted(in, out, id, cm.less, true); m != "" {
					return m
				}
				for i, r := range s.ToArray() {
					if r.(c19Rec) != in[i] {
						return "input-modified|input modified: the receiver changed"
					}
				}
				return ""
			})
			e.run("StreamForInterface.SortByIndex", cm.name, in, nt, func() string {
				bx := make([]interface{}, len(in))
				for i, r := range in {
					bx[i] = r
				}
				s := fpgo.StreamForInterface.FromArray(bx)
				res := s.SortByIndex(func(i, j int) bool { return cm.less((*s)[i].(c19Rec), (*s)[j].(c19Rec)) }).ToArray()
				out := make([]c19Rec, len(res))
				for i, r := range res {
					out[i] = r.(c19Rec)
				}
				if m := c19CheckSorted(in, out, id, cm.less, true); m != "" {
					return m
				}
				for i, r := range s.ToArray() {
					if r.(c19Rec) != in[i] {
						return "input-modified|input modified: the receiver changed"
					}
				}
				return ""
			})
		}
		// ordered sorts on the plain keys
		ints := make([]int, len(in))
		strs := make([]string, len(in))
		flts := make([]float64, len(in))
		for i, r := range in {
			ints[i], strs[i], flts[i] = r.K1-1, r.K2, float64(r.K1)/2-0.5
		}
		ordered := func(api string, asc bool, f func() (any, any)) {
			e.run(api, fmt.Sprint("asc=", asc), in, nt, func() string {
				gi, wi := f()
				if fmt.Sprint(gi) != fmt.Sprint(wi) {
					return fmt.Sprintf("not-ordered|wrong order: got %v want %v", gi, wi)
				}
				return ""
			})
		}
		sortedCopy := func(asc bool) ([]int, []string, []float64) {
			a, b, cc := append([]int(nil), ints...), append([]string(nil), strs...), append([]float64(nil), flts...)
			// insertion sort as the reference
			for i := 1; i < len(a); i++ {
				for j := i; j > 0 && ((asc && a[j] < a[j-1]) || (!asc && a[j] > a[j-1])); j-- {
					a[j], a[j-1] = a[j-1], a[j]
				}
			}
			for i := 1; i < len(b); i++ {
				for j := i; j > 0 && ((asc && b[j] < b[j-1]) || (!asc && b[j] > b[j-1])); j-- {
					b[j], b[j-1] = b[j-1], b[j]
				}
			}
			for i := 1; i < len(cc); i++ {
				for j := i; j > 0 && ((asc && cc[j] < cc[j-1]) || (!asc && cc[j] > cc[j-1])); j-- {
					cc[j], cc[j-1] = cc[j-1], cc[j]
				}
			}
			return a, b, cc
		}
		for _, asc := range []bool{true, false} {
			asc := asc
			wa, wb, wc := sortedCopy(asc)
			ordered("SortOrdered[int]", asc, func() (any, any) { return fpgo.SortOrdered(asc, append([]int(nil), ints...)...), wa })
			ordered("SortOrdered[string]", asc, func() (any, any) { return fpgo.SortOrdered(asc, append([]string(nil), strs...)...), wb })
			ordered("SortOrdered[float64]", asc, func() (any, any) { return fpgo.SortOrdered(asc, append([]float64(nil), flts...)...), wc })
			if asc {
				ordered("SortOrderedAscending", asc, func() (any, any) { return fpgo.SortOrderedAscending(append([]int(nil), ints...)...), wa })
			} else {
				ordered("SortOrderedDescending", asc, func() (any, any) { return fpgo.SortOrderedDescending(append([]string(nil), strs...)...), wb })
			}
		}
	})
}

// ---- descriptors

type c19Key struct {
	key   int // 1, 2, 3
	asc   bool
	field bool // field-name based (else transformer based)
}

func c19Stacks() [][]c19Key {
	var out [][]c19Key
	var rec func(prefix []c19Key, used int)
	rec = func(prefix []c19Key, used int) {
		if len(prefix) > 0 {
			out = append(out, append([]c19Key(nil), prefix...))
		}
		if len(prefix) == 3 {
			return
		}
		for k := 1; k <= 3; k++ {
			if used&(1<<k) != 0 {
				continue
			}
			for _, asc := range []bool{true, false} {
				for _, field := range []bool{false, true} {
					rec(append(prefix, c19Key{k, asc, field}), used|1<<k)
				}
			}
		}
	}
	rec(nil, 0)
	return out
}

func c19StackString(st []c19Key) string {
	var p []string
	for _, k := range st {
		d := "desc"
		if k.asc {
			d = "asc"
		}
		kind := "fn"
		if k.field {
			kind = "field"
		}
		p = append(p, fmt.Sprintf("K%d %s (%s)", k.key, d, kind))
	}
	return strings.Join(p, ", ")
}

// reference: lexicographic comparison over the descriptor stack, natural key order, reversed for descending
func c19RefCompare(a, b c19DRec, st []c19Key) int {
	for _, k := range st {
		c := 0
		switch k.key {
		case 1:
			if a.K1.Val < b.K1.Val {
				c = -1
			} else if a.K1.Val > b.K1.Val {
				c = 1
			}
		case 2:
			c = strings.Compare(a.K2.Val, b.K2.Val)
		default:
			if a.K3.Val < b.K3.Val {
				c = -1
			} else if a.K3.Val > b.K3.Val {
				c = 1
			}
		}
		if !k.asc {
			c = -c
		}
		if c != 0 {
			return c
		}
	}
	return 0
}

// a second record type with the same field NAMES at other positions (and other fields in between): field-name based
// descriptors must resolve the field per record type
type c19DRec2 struct {
	Pad0 string
	K3   fpgo.ComparableOrdered[float64]
	ID   int
	K2   fpgo.ComparableString
	Pad1 []int
	K1   fpgo.ComparableOrdered[int]
}

func c19FieldSortsOtherType(e *c19Env, in []c19DRec, st []c19Key) {
	allField := true
	for _, k := range st {
		if !k.field {
			allField = false
		}
	}
	if !allField {
		return
	}
	in2 := make([]c19DRec2, len(in))
	for i, r := range in {
		in2[i] = c19DRec2{Pad0: "p", K3: r.K3, ID: r.ID, K2: r.K2, K1: r.K1}
	}
	e.run("SortDescriptorsBuilder.ToSortedList(second record type)", c19StackString(st), in, len(in) >= 2, func() string {
		b := fpgo.NewSortDescriptorsBuilder[c19DRec2]()
		for _, k := range st {
			b = b.ThenWithFieldName(fmt.Sprintf("K%d", k.key), k.asc)
		}
		out2 := b.ToSortedList(in2...)
		out := make([]c19DRec, len(out2))
		for i, r := range out2 {
			out[i] = c19DRec{K1: r.K1, K2: r.K2, K3: r.K3, ID: r.ID}
		}
		less := func(a, b c19DRec) bool { return c19RefCompare(a, b, st) < 0 }
		return c19CheckSorted(in, out, func(r c19DRec) int { return r.ID }, less, false)
	})
}

func c19Builder(st []c19Key, variant int) fpgo.SortDescriptorsBuilder[c19DRec] {
	b := fpgo.NewSortDescriptorsBuilder[c19DRec]()
	for _, k := range st {
		k := k
		if k.field {
			name := fmt.Sprintf("K%d", k.key)
			if variant%2 == 0 {
				b = b.ThenWithFieldName(name, k.asc)
			} else {
				b = b.ThenWith(fpgo.NewFieldSortDescriptor[c19DRec](name, k.asc))
			}
			continue
		}
		fn := func(r c19DRec) fpgo.Comparable[interface{}] {
			switch k.key {
			case 1:
				return fpgo.NewComparableOrdered(r.K1.Val)
			case 2:
				return fpgo.NewComparableString(r.K2.Val)
			}
			return fpgo.NewComparableOrdered(r.K3.Val)
		}
		if variant%2 == 0 {
			b = b.ThenWithTransformerFunctor(fn, k.asc)
		} else {
			b = b.ThenWith(fpgo.NewSimpleSortDescriptor(fn, k.asc))
		}
	}
	return b
}

// builders are values: several builders derived from ONE prefix builder (0..2 keys) are independent of each other.
// For every prefix stack, all its one-key extensions are built from the same prefix value first, then each fork sorts.
func c19Forks(e *c19Env, lists [][]c19DRec, stacks [][]c19Key) {
	byPrefix := map[string][][]c19Key{}
	var order []string
	for _, st := range stacks {
		key := c19StackString(st[:len(st)-1])
		if _, ok := byPrefix[key]; !ok {
			order = append(order, key)
		}
		byPrefix[key] = append(byPrefix[key], st)
	}
	extend := func(b fpgo.SortDescriptorsBuilder[c19DRec], k c19Key) fpgo.SortDescriptorsBuilder[c19DRec] {
		one := c19Builder([]c19Key{k}, 0)
		return b.ThenWith(one.GetSortDescriptors()...)
	}
	for pi, key := range order {
		exts := byPrefix[key]
		prefix := c19Builder(exts[0][:len(exts[0])-1], 0)
		forks := make([]fpgo.SortDescriptorsBuilder[c19DRec], len(exts))
		for i, st := range exts {
			if i%2 == 0 {
				forks[i] = extend(prefix, st[len(st)-1])
			} else if last := st[len(st)-1]; last.field {
				forks[i] = prefix.ThenWithFieldName(fmt.Sprintf("K%d", last.key), last.asc)
			} else {
				forks[i] = extend(prefix, last)
			}
		}
		for i, st := range exts {
			st, b := st, forks[i]
			in := lists[(pi+i)%len(lists)]
			e.run("SortDescriptorsBuilder forked from a shared prefix", c19StackString(st), in, len(in) >= 2, func() string {
				out := b.ToSortedList(in...)
				less := func(a, b c19DRec) bool { return c19RefCompare(a, b, st) < 0 }
				if m := c19CheckSorted(in, out, func(r c19DRec) int { return r.ID }, less, false); m != "" {
					return strings.Replace(m, "|", "|builder forked from the prefix ["+key+"] together with "+fmt.Sprint(len(exts)-1)+" siblings: ", 1)
				}
				return ""
			})
		}
	}
}

func c19DescriptorSorts(e *c19Env, lists [][]c19DRec, stacks [][]c19Key) {
	parallelFor(len(lists), func(w, li int) {
		in := lists[li]
		for si, st := range stacks {
			st := st
			variant := (li + si) % 4
			api := [...]string{"SortedListBySortDescriptors", "SortDescriptorsBuilder.ToSortedList", "SortBySortDescriptors", "SortDescriptorsBuilder.Sort"}[variant]
			e.run(api, c19StackString(st), in, len(in) >= 2, func() string {
				work := append([]c19DRec(nil), in...)
				b := c19Builder(st, li+si/4)
				var out []c19DRec
				switch variant {
				case 0:
					out = fpgo.SortedListBySortDescriptors(b.GetSortDescriptors(), work...)
				case 1:
					out = b.ToSortedList(work...)
				case 2:
					fpgo.SortBySortDescriptors(b.GetSortDescriptors(), work)
					out = work
				default:
					b.Sort(work)
					out = work
				}
				if variant < 2 {
					for i := range in {
						if work[i] != in[i] {
							return fmt.Sprintf("input-modified|input modified: now %v", work)
						}
					}
				}
				less := func(a, b c19DRec) bool { return c19RefCompare(a, b, st) < 0 }
				return c19CheckSorted(in, out, func(r c19DRec) int { return r.ID }, less, false)
			})
			if (li+si)%3 == 0 {
				c19FieldSortsOtherType(e, in, st)
			}
		}
	})
}

func runC19(c *core.Ctx) {
	e := &c19Env{c: c}
	rng := rand.New(rand.NewSource(c.Seed*31 + 19))
	// comparator sorts: every list of length 0..L over K1 in {0,1,2}, K2 derived, plus PRNG lists
	L := c.Pick(6, 8)
	var lists [][]c19Rec
	for _, ks := range allLists([]int{0, 1, 2}, L) {
		l := make([]c19Rec, len(ks))
		for i, k := range ks {
			l[i] = c19Rec{K1: k, K2: []string{"a", "b"}[(i+k)%2], ID: i}
		}
		lists = append(lists, l)
	}
	for i := 0; i < c.Pick(300, 20000); i++ {
		l := make([]c19Rec, rng.Intn(200))
		for j := range l {
			l[j] = c19Rec{K1: rng.Intn(4), K2: []string{"a", "b", "c"}[rng.Intn(3)], ID: j}
		}
		lists = append(lists, l)
	}
	// "append and sort again": an already ordered prefix (33..180 records) followed by 1..8 new records that tie with
	// earlier ones; also almost-ordered lists with one displaced record
	for i := 0; i < c.Pick(250, 5000); i++ {
		n := 33 + rng.Intn(148)
		l := make([]c19Rec, 0, n+8)
		for j := 0; j < n; j++ {
			l = append(l, c19Rec{K1: j * 4 / n, K2: []string{"a", "b", "c"}[(j*3/n+j*4/n)%3], ID: j})
		}
		sort.SliceStable(l, func(a, b int) bool { return l[a].K1 < l[b].K1 })
		extra := 1 + rng.Intn(8)
		if i%5 == 4 {
			extra = 9 + rng.Intn(30)
		}
		for j := 0; j < extra; j++ {
			l = append(l, c19Rec{K1: rng.Intn(4), K2: []string{"a", "b", "c"}[rng.Intn(3)], ID: len(l)})
		}
		if i%7 == 3 { // one displaced record in the middle instead
			a, b := rng.Intn(n), rng.Intn(n)
			l[a], l[b] = l[b], l[a]
		}
		for j := range l {
			l[j].ID = j
		}
		lists = append(lists, l)
	}
	c19ComparatorSorts(e, lists)
	c.Count("comparator_lists", int64(len(lists)))
	// descriptor sorts
	var vals []c19DRec
	for k1 := 0; k1 < 3; k1++ {
		for _, k2 := range []string{"a", "b"} {
			for _, k3 := range []float64{0.5, 1.5} {
				vals = append(vals, c19DRec{K1: fpgo.NewComparableOrdered(k1), K2: fpgo.NewComparableString(k2), K3: fpgo.NewComparableOrdered(k3)})
			}
		}
	}
	var dl [][]c19DRec
	DL := c.Pick(2, 3)
	idx := make([]int, len(vals))
	for i := range idx {
		idx[i] = i
	}
	for _, is := range allLists(idx, DL) {
		l := make([]c19DRec, len(is))
		for i, vi := range is {
			l[i] = vals[vi]
			l[i].ID = i
		}
		dl = append(dl, l)
	}
	for i := 0; i < c.Pick(300, 5000); i++ {
		l := make([]c19DRec, 3+rng.Intn(40))
		for j := range l {
			l[j] = vals[rng.Intn(len(vals))]
			l[j].ID = j
		}
		dl = append(dl, l)
	}
	// keys at the extremes of their type (sentinels such as MaxInt64 / MinInt64 next to small numbers, +-2^62 pairs,
	// infinities and the smallest denormals for the float key)
	extremeInts := []int{math.MaxInt64, math.MinInt64, math.MaxInt64 - 1, math.MinInt64 + 1, 1 << 62, -(1 << 62), -1, 0, 1, math.MaxInt32, math.MinInt32}
	extremeFloats := []float64{math.Inf(1), math.Inf(-1), math.MaxFloat64, -math.MaxFloat64, math.SmallestNonzeroFloat64, -math.SmallestNonzeroFloat64, 0, 1}
	for i := 0; i < c.Pick(150, 3000); i++ {
		l := make([]c19DRec, 2+rng.Intn(12))
		for j := range l {
			l[j] = c19DRec{K1: fpgo.NewComparableOrdered(extremeInts[rng.Intn(len(extremeInts))]), K2: fpgo.NewComparableString([]string{"", "a", "b", "\xff", "\xfe", "caf\xe9", "caf\xe8", "\xf0\x9f", "\U00010000", "\uffff", "\u00e9", "a\x00", "a\x00b"}[rng.Intn(13)]),
				K3: fpgo.NewComparableOrdered(extremeFloats[rng.Intn(len(extremeFloats))]), ID: j}
		}
		dl = append(dl, l)
	}
	stacks := c19Stacks()
	c19Forks(e, dl[len(dl)-40:], stacks)
	c19MixedDynamicTypes(e, dl[len(dl)-60:], stacks)
	c19SignedZeros(e, rng, c.Pick(200, 5000))
	c19SameNamedTypes(e)
	c19DescriptorSorts(e, dl, stacks)
	c.Count("descriptor_lists", int64(len(dl)))
	c.Count("descriptor_stacks", int64(len(stacks)))
	c.Sample(map[string]any{"api": "Sort/SortSlice/Stream.Sort/Stream.SortByIndex (+interface{} twins)", "list": fmt.Sprint(lists[200]), "comparators": "K1 asc, K1 desc, K2 asc, composite, all-equal"})
	c.Sample(map[string]any{"api": "descriptor sorts", "list": fmt.Sprint(dl[len(dl)-1][:min(3, len(dl[len(dl)-1]))]), "stack": c19StackString(stacks[len(stacks)/2])})
	c.Sample(map[string]any{"stack": c19StackString(stacks[7]), "list": fmt.Sprint(dl[50])})
}

func init() {
	core.Register(&core.Check{
		ID: "C19",
		Meta: func(c *core.Ctx) core.Meta {
			return core.Meta{
				Level: "exploration",
				Rule: "records carry a unique id = input position. Comparator sorts (Sort, SortSlice, Stream.Sort, Stream.SortByIndex and the interface{} twins; SortOrdered/Ascending/Descending on int/string/float64): every list of length 0..L over keys {0,1,2} (L=6 quick, 8 thorough) plus PRNG lists up to 200 and 'append and sort again' lists (an ordered prefix of 33..180 records followed by 1..38 new ones that tie with earlier ones), five comparators incl. composite and all-equal; oracle = permutation + no pair out of order (all pairs) + stability (all pairs) + input unmodified for the non-in-place forms; float lists with -0.0 / +0.0 (equal but distinguishable) compared bit for bit with a strict stable reference sort, both directions. " +
					"Descriptor sorts (SortedListBySortDescriptors, builder.ToSortedList, SortBySortDescriptors, builder.Sort): all 492 stacks of 1..3 distinct keys x direction mixes x {transformer, field-name} with ComparableOrdered[int], ComparableString, ComparableOrdered[float64] keys over all lists up to length 2 (3) of 12 record values plus PRNG lists, field-name stacks also on a second record type that has the same field names at other positions and on []any lists mixing three struct types, and on distinct struct types that PRINT alike (function-local types of one name, fields in another order) sorted one after the other in one process; string keys with invalid UTF-8, NUL and supplementary-plane runes (bytewise order); PRNG lists with keys at the extremes of their type (Max/MinInt64, +-2^62, +-Inf, denormals); builders forked from one shared prefix builder (all one-key extensions of every 0..2-key prefix built first, then each sorts); oracle = permutation ordered under the reference lexicographic comparison. distinct_nontrivial = enumerated (api, comparator/stack, list) cases with >= 2 elements",
				Assumptions: []string{"only strict comparators are generated (sort.SliceStable's contract)", "no stability claim for descriptor sorts", "descriptor keys are never nil"},
				Exhaustive:  true,
			}
		},
		Run: runC19,
	})
}
