package props

import (
	"fmt"
	"sort"

	fpgo "github.com/TeaEntityLab/fpGo/v2"

	"verifharness/internal/core"
)

// C03 — slice/map helpers equal their documented definitions for all inputs.
// Oracle: an independent model of every helper written from its doc comment (loops below),
// differential comparison; inputs live in backing arrays with sentinel-filled spare capacity and
// are compared with a snapshot after every call.

type c03Struct struct {
	A int
	B string
}

func eqSeq[T comparable](a, b []T) bool {
	if len(a) != len(b) {
		return false
	}
	for i := range a {
		if a[i] != b[i] {
			return false
		}
	}
	return true
}

func eqSeqSeq[T comparable](a, b [][]T) bool {
	if len(a) != len(b) {
		return false
	}
	for i := range a {
		if !eqSeq(a[i], b[i]) {
			return false
		}
	}
	return true
}

func eqMap[K comparable, V comparable](a, b map[K]V) bool {
	if len(a) != len(b) {
		return false
	}
	for k, v := range a {
		w, ok := b[k]
		if !ok || w != v {
			return false
		}
	}
	return true
}

func eqMapSeq[K comparable, V comparable](a, b map[K][]V) bool {
	if len(a) != len(b) {
		return false
	}
	for k, v := range a {
		w, ok := b[k]
		if !ok || !eqSeq(v, w) {
			return false
		}
	}
	return true
}

func eqMultiset[T comparable](a, b []T) bool {
	if len(a) != len(b) {
		return false
	}
	m := map[T]int{}
	for _, x := range a {
		m[x]++
	}
	for _, x := range b {
		m[x]--
		if m[x] < 0 {
			return false
		}
	}
	return true
}

// guarded is a slice living in a larger backing array whose spare capacity holds sentinels.
type guarded[T comparable] struct {
	backing []T
	list    []T
	snap    []T
	isNil   bool
	spare   int
}

func newGuarded[T comparable](vals []T, isNil bool, sentinel T, spareOpt ...int) *guarded[T] {
	spare := 3
	if len(spareOpt) > 0 {
		spare = spareOpt[0]
	}
	g := &guarded[T]{isNil: isNil, spare: spare}
	if isNil {
		return g
	}
	g.backing = make([]T, len(vals)+spare)
	copy(g.backing, vals)
	for i := len(vals); i < len(g.backing); i++ {
		g.backing[i] = sentinel
	}
	g.list = g.backing[:len(vals)]
	g.snap = append([]T(nil), g.backing...)
	return g
}

func (g *guarded[T]) intact() bool {
	if g.isNil {
		return g.list == nil
	}
	return eqSeq(g.backing, g.snap) && len(g.list) == len(g.snap)-g.spare
}

type c03Env[T comparable] struct {
	c     *core.Ctx
	tname string
	alpha []T // 3 symbols
	sent  T
	hw    *core.HangWatch
	w     int
}

func (e *c03Env[T]) idx(x T) int {
	for i, a := range e.alpha {
		if a == x {
			return i
		}
	}
	return len(e.alpha)
}

// check runs one helper call under recover and compares with the model.
func (e *c03Env[T]) check(helper string, param string, inputs []*guarded[T], call func() bool, describe func() string) {
	e.c.Eval(1)
	nontrivial := false
	for _, in := range inputs {
		if len(in.list) > 0 {
			nontrivial = true
		}
	}
	if nontrivial {
		e.c.DistinctAdd(1)
	}
	ok := false
	e.hw.Begin(e.w, helper)
	pv, where := core.Catch(func() { ok = call() })
	e.hw.End(e.w)
	if pv != nil {
		e.c.Violationf(fmt.Sprintf("%s:panic:%s", helper, core.NormalizePanic(fmt.Sprint(pv))), map[string]any{"type": e.tname, "case": describe()},
			"%s[%s] panics: %v at %s; case %s", helper, e.tname, pv, where, describe())
		return
	}
	if !ok {
		e.c.Violationf(fmt.Sprintf("%s:mismatch:%s", helper, param), map[string]any{"type": e.tname, "case": describe()},
			"%s[%s] differs from its documented definition: %s", helper, e.tname, describe())
	}
	for i, in := range inputs {
		if !in.intact() {
			e.c.Violationf(fmt.Sprintf("%s:input-modified", helper), map[string]any{"type": e.tname, "case": describe()},
				"%s[%s] modified its input #%d (backing array now %v, was %v); case %s", helper, e.tname, i, in.backing, in.snap, describe())
			// restore so that later checks are not polluted
			copy(in.backing, in.snap)
		}
	}
}

func paramClass(n, l int) string {
	switch {
	case n < 0:
		return "negative"
	case n == 0:
		return "zero"
	case n < l:
		return "inside"
	case n == l:
		return "len"
	default:
		return "beyond"
	}
}

func allLists[T comparable](alpha []T, maxLen int) [][]T {
	out := [][]T{{}}
	frontier := [][]T{{}}
	for l := 1; l <= maxLen; l++ {
		var next [][]T
		for _, p := range frontier {
			for _, a := range alpha {
				n := append(append([]T(nil), p...), a)
				next = append(next, n)
			}
		}
		out = append(out, next...)
		frontier = next
	}
	return out
}

func c03Suite[T comparable](c *core.Ctx, hw *core.HangWatch, tname string, alpha []T, sent T, maxLen int, extra [][]T, spare int) {
	lists := allLists(alpha, maxLen)
	lists = append(lists, extra...)
	// index -1 stands for the nil slice
	parallelFor(len(lists)+1, func(w, li int) {
		e := &c03Env[T]{c: c, tname: tname, alpha: alpha, sent: sent, hw: hw, w: w}
		var vals []T
		isNil := li == len(lists)
		if !isNil {
			vals = lists[li]
		}
		g := newGuarded(vals, isNil, sent, spare)
		L := g.list
		n := len(L)
		in := []*guarded[T]{g}
		desc := func(extra string) func() string {
			return func() string {
				if n > 40 {
					return fmt.Sprintf("list of %d elements starting %v (spare capacity %d filled with %v) %s", n, vals[:12], spare, sent, extra)
				}
				return fmt.Sprintf("list=%v (nil=%v, spare capacity %d filled with %v) %s", vals, isNil, spare, sent, extra)
			}
		}
		if c.WantSample() && n == 3 {
			c.Sample(map[string]any{"type": tname, "list": fmt.Sprint(vals), "helpers": "all, counts -3..len+3"})
		}

		preds := []struct {
			name string
			f    func(T) bool
		}{
			{"true", func(T) bool { return true }}, {"false", func(T) bool { return false }},
			{"is0", func(x T) bool { return e.idx(x) == 0 }}, {"not1", func(x T) bool { return e.idx(x) != 1 }},
			{"ge1", func(x T) bool { return e.idx(x) >= 1 }},
		}
		ipreds := []struct {
			name string
			f    func(T, int) bool
		}{
			{"true", func(T, int) bool { return true }}, {"false", func(T, int) bool { return false }},
			{"is0", func(x T, _ int) bool { return e.idx(x) == 0 }}, {"evenIndex", func(_ T, i int) bool { return i%2 == 0 }},
			{"idxSumOdd", func(x T, i int) bool { return (e.idx(x)+i)%2 == 1 }},
			{"idxGeHalf", func(_ T, i int) bool { return i >= n/2 }}, {"idxMod3is1", func(_ T, i int) bool { return i%3 == 1 }},
			{"idxIsLast", func(_ T, i int) bool { return i == n-1 }},
		}
		xforms := []struct {
			name string
			f    func(T) T
		}{
			{"id", func(x T) T { return x }}, {"rot", func(x T) T { return alpha[(e.idx(x)+1)%len(alpha)] }}, {"const", func(T) T { return alpha[2] }},
		}

		// Map / MapIndexed
		for _, xf := range xforms {
			xf := xf
			e.check("Map", xf.name, in, func() bool {
				got := fpgo.Map(xf.f, L...)
				want := make([]T, 0, n)
				for _, x := range vals {
					want = append(want, xf.f(x))
				}
				return eqSeq(got, want)
			}, desc("fn="+xf.name))
			e.check("MapIndexed", xf.name, in, func() bool {
				got := fpgo.MapIndexed(func(x T, i int) int { return e.idx(xf.f(x))*100 + i }, L...)
				want := make([]int, 0, n)
				for i, x := range vals {
					want = append(want, e.idx(xf.f(x))*100+i)
				}
				return eqSeq(got, want)
			}, desc("fn="+xf.name))
		}
		// Filter / Reject
		for _, p := range ipreds {
			p := p
			e.check("Filter", p.name, in, func() bool {
				got := fpgo.Filter(p.f, L...)
				var want []T
				for i, x := range vals {
					if p.f(x, i) {
						want = append(want, x)
					}
				}
				return eqSeq(got, want)
			}, desc("pred="+p.name))
			e.check("Reject", p.name, in, func() bool {
				got := fpgo.Reject(p.f, L...)
				var want []T
				for i, x := range vals {
					if !p.f(x, i) {
						want = append(want, x)
					}
				}
				return eqSeq(got, want)
			}, desc("pred="+p.name))
		}
		// Reduce / ReduceIndexed (non-commutative fold)
		e.check("Reduce", "", in, func() bool {
			got := fpgo.Reduce(func(m int, x T) int { return m*7 + e.idx(x) + 1 }, 3, L...)
			want := 3
			for _, x := range vals {
				want = want*7 + e.idx(x) + 1
			}
			return got == want
		}, desc(""))
		e.check("ReduceIndexed", "", in, func() bool {
			got := fpgo.ReduceIndexed(func(m int, x T, i int) int { return m*7 + e.idx(x) + i }, 3, L...)
			want := 3
			for i, x := range vals {
				want = want*7 + e.idx(x) + i
			}
			return got == want
		}, desc(""))
		// Distinct, Dedupe, IsDistinct, Reverse, Head, Tail, DuplicateSlice, SliceToMap
		e.check("Distinct", "", in, func() bool {
			got := fpgo.Distinct(L...)
			var want []T
			seen := map[T]bool{}
			for _, x := range vals {
				if !seen[x] {
					seen[x] = true
					want = append(want, x)
				}
			}
			return eqSeq(got, want)
		}, desc(""))
		e.check("DistinctRandom", "", in, func() bool {
			got := fpgo.DistinctRandom(L...)
			var want []T
			seen := map[T]bool{}
			for _, x := range vals {
				if !seen[x] {
					seen[x] = true
					want = append(want, x)
				}
			}
			return eqMultiset(got, want)
		}, desc(""))
		e.check("Dedupe", "", in, func() bool {
			got := fpgo.Dedupe(L...)
			var want []T
			for i, x := range vals {
				if i == 0 || vals[i-1] != x {
					want = append(want, x)
				}
			}
			return eqSeq(got, want)
		}, desc(""))
		e.check("IsDistinct", "", in, func() bool {
			got := fpgo.IsDistinct(L...)
			want := n > 0 // pinned: false on empty
			seen := map[T]bool{}
			for _, x := range vals {
				if seen[x] {
					want = false
				}
				seen[x] = true
			}
			return got == want
		}, desc(""))
		e.check("Reverse", "", in, func() bool {
			got := fpgo.Reverse(L...)
			want := make([]T, n)
			for i, x := range vals {
				want[n-1-i] = x
			}
			return eqSeq(got, want)
		}, desc(""))
		e.check("Head", "", in, func() bool {
			got := fpgo.Head(L...)
			var want T
			if n > 0 {
				want = vals[0]
			}
			return got == want
		}, desc(""))
		e.check("Tail", "", in, func() bool {
			got := fpgo.Tail(L...)
			var want []T
			if n > 1 {
				want = vals[1:]
			}
			return eqSeq(got, want)
		}, desc(""))
		e.check("DuplicateSlice", "", in, func() bool {
			got := fpgo.DuplicateSlice(L)
			if !eqSeq(got, vals) {
				return false
			}
			// detached: writing through the copy must not reach the input (checked by intact()), and extending it must not either
			for i := range got {
				got[i] = sent
			}
			got = append(got, sent)
			_ = got
			return true
		}, desc("(then overwrite and append to the copy)"))
		e.check("SliceToMap", "", in, func() bool {
			got := fpgo.SliceToMap(7, L...)
			want := map[T]int{}
			for _, x := range vals {
				want[x] = 7
			}
			return eqMap(got, want)
		}, desc(""))
		e.check("Prepend", "", in, func() bool {
			got := fpgo.Prepend(alpha[1], L)
			want := append([]T{alpha[1]}, vals...)
			return eqSeq(got, want)
		}, desc("element="+fmt.Sprint(alpha[1])))
		// element-parameter helpers
		for _, a := range append(append([]T(nil), alpha...), sent) {
			a := a
			e.check("DropEq", "", in, func() bool {
				got := fpgo.DropEq(a, L...)
				var want []T
				for _, x := range vals {
					if x != a {
						want = append(want, x)
					}
				}
				return eqSeq(got, want)
			}, desc("item="+fmt.Sprint(a)))
			e.check("Exists", "", in, func() bool {
				got := fpgo.Exists(a, L...)
				want := false
				for _, x := range vals {
					if x == a {
						want = true
					}
				}
				return got == want
			}, desc("item="+fmt.Sprint(a)))
		}
		// count-parameter helpers, every count in [-3, len+3]
		counts := make([]int, 0, n+7)
		if n <= 80 {
			for k := -3; k <= n+3; k++ {
				counts = append(counts, k)
			}
		} else {
			// long lists: the ends, the middle and the neighbourhood of powers of two
			counts = append(counts, -3, -1, 0, 1, 2, 3, n/2, n-3, n-2, n-1, n, n+1, n+3)
			for p2 := 64; p2 < n; p2 *= 4 {
				counts = append(counts, p2-1, p2, p2+1)
			}
		}
		for _, k := range counts {
			k := k
			pc := paramClass(k, n)
			e.check("Drop", pc, in, func() bool {
				got := fpgo.Drop(k, L...)
				var want []T
				switch {
				case k <= 0:
					want = vals
				case k >= n:
					want = nil
				default:
					want = vals[k:]
				}
				return eqSeq(got, want)
			}, desc(fmt.Sprintf("count=%d", k)))
			e.check("DropLast", pc, in, func() bool {
				got := fpgo.DropLast(k, L...)
				var want []T
				switch {
				case k <= 0:
					want = vals // drops nothing
				case k >= n:
					want = nil
				default:
					want = vals[:n-k]
				}
				return eqSeq(got, want)
			}, desc(fmt.Sprintf("count=%d", k)))
			e.check("Take", pc, in, func() bool {
				got := fpgo.Take(k, L...)
				want := vals
				if k > 0 && k < n {
					want = vals[:k]
				}
				return eqSeq(got, want)
			}, desc(fmt.Sprintf("count=%d", k)))
			e.check("TakeLast", pc, in, func() bool {
				got := fpgo.TakeLast(k, L...)
				want := vals
				if k > 0 && k < n {
					want = vals[n-k:]
				}
				return eqSeq(got, want)
			}, desc(fmt.Sprintf("count=%d", k)))
			e.check("SplitEvery", pc, in, func() bool {
				got := fpgo.SplitEvery(k, L...)
				var want [][]T
				if k <= 0 || n <= 1 {
					want = [][]T{vals}
				} else {
					for i := 0; i < n; i += k {
						j := i + k
						if j > n {
							j = n
						}
						want = append(want, vals[i:j])
					}
				}
				return eqSeqSeq(got, want)
			}, desc(fmt.Sprintf("size=%d", k)))
		}
		// predicate helpers
		for _, p := range preds {
			p := p
			e.check("DropWhile", p.name, in, func() bool {
				got := fpgo.DropWhile(p.f, L...)
				i := 0
				for i < n && p.f(vals[i]) {
					i++
				}
				return eqSeq(got, vals[i:])
			}, desc("pred="+p.name))
			e.check("Every", p.name, in, func() bool {
				got := fpgo.Every(p.f, L...)
				want := n > 0 // documented: false on empty
				for _, x := range vals {
					if !p.f(x) {
						want = false
					}
				}
				return got == want
			}, desc("pred="+p.name))
			e.check("Some", p.name, in, func() bool {
				got := fpgo.Some(p.f, L...)
				want := false
				for _, x := range vals {
					if p.f(x) {
						want = true
					}
				}
				return got == want
			}, desc("pred="+p.name))
			e.check("Partition", p.name, in, func() bool {
				got := fpgo.Partition(p.f, L...)
				var yes, no []T
				for _, x := range vals {
					if p.f(x) {
						yes = append(yes, x)
					} else {
						no = append(no, x)
					}
				}
				return eqSeqSeq(got, [][]T{yes, no})
			}, desc("pred="+p.name))
		}
		e.check("DropWhile", "nil", in, func() bool { return len(fpgo.DropWhile[T](nil, L...)) == 0 }, desc("pred=nil"))
		e.check("Every", "nil", in, func() bool { return !fpgo.Every[T](nil, L...) }, desc("pred=nil"))
		e.check("Some", "nil", in, func() bool { return !fpgo.Some[T](nil, L...) }, desc("pred=nil"))
		// GroupBy / UniqBy
		for _, kf := range []struct {
			name string
			f    func(T) int
		}{{"idx", func(x T) int { return e.idx(x) }}, {"idxmod2", func(x T) int { return e.idx(x) % 2 }}, {"const", func(T) int { return 0 }}} {
			kf := kf
			e.check("GroupBy", kf.name, in, func() bool {
				got := fpgo.GroupBy(kf.f, L...)
				want := map[int][]T{}
				for _, x := range vals {
					want[kf.f(x)] = append(want[kf.f(x)], x)
				}
				return eqMapSeq(got, want)
			}, desc("key="+kf.name))
			e.check("UniqBy", kf.name, in, func() bool {
				got := fpgo.UniqBy(kf.f, L...)
				var want []T
				seen := map[int]bool{}
				for _, x := range vals {
					if !seen[kf.f(x)] {
						seen[kf.f(x)] = true
						want = append(want, x)
					}
				}
				return eqSeq(got, want)
			}, desc("key="+kf.name))
		}
	})

	// two-list helpers over all pairs of lists up to length 3 (plus nil)
	small := allLists(alpha, 3)
	np := len(small) + 1
	parallelFor(np*np, func(w, pi int) {
		e := &c03Env[T]{c: c, tname: tname, alpha: alpha, sent: sent, hw: hw, w: w}
		ai, bi := pi/np, pi%np
		var av, bv []T
		aNil, bNil := ai == len(small), bi == len(small)
		if !aNil {
			av = small[ai]
		}
		if !bNil {
			bv = small[bi]
		}
		ga, gb := newGuarded(av, aNil, sent, spare), newGuarded(bv, bNil, sent, spare)
		in := []*guarded[T]{ga, gb}
		desc := func() string { return fmt.Sprintf("list1=%v(nil=%v) list2=%v(nil=%v)", av, aNil, bv, bNil) }
		e.check("Concat", "", in, func() bool {
			got := fpgo.Concat(ga.list, gb.list, nil, ga.list)
			want := append(append(append([]T(nil), av...), bv...), av...)
			return eqSeq(got, want)
		}, desc)
		e.check("Flatten", "", in, func() bool {
			got := fpgo.Flatten(ga.list, nil, gb.list)
			want := append(append([]T(nil), av...), bv...)
			return eqSeq(got, want)
		}, desc)
		e.check("Zip", "", in, func() bool {
			got := fpgo.Zip(ga.list, gb.list)
			want := map[T]T{}
			for i := 0; i < len(av) && i < len(bv); i++ {
				want[av[i]] = bv[i]
			}
			return eqMap(got, want)
		}, desc)
		e.check("IsEqual", "", in, func() bool {
			got := fpgo.IsEqual(ga.list, gb.list)
			want := len(av) > 0 && len(bv) > 0 && eqSeq(av, bv) // pinned: false when an operand is empty
			return got == want
		}, desc)
		// maps built from the two lists
		m1, m2 := map[T]int{}, map[T]int{}
		for i, x := range av {
			m1[x] = i
		}
		for i, x := range bv {
			m2[x] = i * 10
		}
		var m1n, m2n map[T]int
		if !aNil {
			m1n = m1
		}
		if !bNil {
			m2n = m2
		}
		s1, s2 := copyMap(m1n), copyMap(m2n)
		mapsIntact := func() bool { return eqMap(m1n, s1) && eqMap(m2n, s2) && (m1n == nil) == (s1 == nil) }
		e.check("Merge", "", in, func() bool {
			got := fpgo.Merge(m1n, m2n)
			want := map[T]int{}
			for k, v := range m1 {
				want[k] = v
			}
			for k, v := range m2 {
				want[k] = v
			}
			if !eqMap(got, want) || got == nil {
				return false
			}
			got[sent] = 99 // must be a new map
			return mapsIntact()
		}, desc)
		e.check("IsEqualMap", "", in, func() bool {
			got := fpgo.IsEqualMap(m1n, m2n)
			want := len(m1) > 0 && len(m2) > 0 && eqMap(m1, m2)
			return got == want && mapsIntact()
		}, desc)
		e.check("Keys", "", in, func() bool {
			got := fpgo.Keys(m1n)
			var want []T
			for k := range m1 {
				want = append(want, k)
			}
			return eqMultiset(got, want) && mapsIntact()
		}, desc)
		e.check("Values", "", in, func() bool {
			got := fpgo.Values(m2n)
			var want []int
			for _, v := range m2 {
				want = append(want, v)
			}
			return eqMultiset(got, want) && mapsIntact()
		}, desc)
		e.check("DuplicateMap", "", in, func() bool {
			got := fpgo.DuplicateMap(m1n)
			if !eqMap(got, m1) || got == nil {
				return false
			}
			got[sent] = 1
			return mapsIntact()
		}, desc)
	})
}

func copyMap[K comparable, V any](m map[K]V) map[K]V {
	if m == nil {
		return nil
	}
	o := make(map[K]V, len(m))
	for k, v := range m {
		o[k] = v
	}
	return o
}

func c03Numeric[T fpgo.Numeric](c *core.Ctx, hw *core.HangWatch, tname string, vals []T, hops []T) {
	e := &c03Env[int]{c: c, tname: tname, hw: hw}
	none := []*guarded[int]{}
	// Range
	for _, lo := range vals {
		for _, hi := range vals {
			for hi2 := -1; hi2 < len(hops); hi2++ {
				lo, hi := lo, hi
				var hop []T
				if hi2 >= 0 {
					hop = []T{hops[hi2]}
				}
				e.check("Range", "", none, func() bool {
					got := fpgo.Range(lo, hi, hop...)
					var want []T
					step := T(1)
					ok := true
					if len(hop) > 0 {
						step = hop[0]
						if step <= 0 {
							ok = false
						}
					}
					if ok {
						for v := lo; v < hi; v += step {
							want = append(want, v)
						}
					}
					return eqSeq(got, want)
				}, func() string { return fmt.Sprintf("Range(%v,%v,%v)", lo, hi, hop) })
				c.DistinctAdd(1)
			}
		}
	}
	// Min / Max / MinMax over all lists up to length 4 of the values
	lists := allLists(vals[:min(4, len(vals))], 4)
	lists = append(lists, nil)
	for _, l := range lists {
		l := l
		g := newGuarded(l, l == nil, T(111))
		var mn, mx T
		if len(l) > 0 {
			s := append([]T(nil), l...)
			sort.Slice(s, func(i, j int) bool { return s[i] < s[j] })
			mn, mx = s[0], s[len(s)-1]
		}
		d := func() string { return fmt.Sprintf("list=%v", l) }
		chk := func(name string, f func() bool) {
			c.Eval(1)
			if len(l) > 0 {
				c.DistinctAdd(1)
			}
			ok := false
			pv, where := core.Catch(func() { ok = f() })
			if pv != nil {
				c.Violationf(name+":panic", map[string]any{"type": tname, "case": d()}, "%s[%s] panics: %v at %s; %s", name, tname, pv, where, d())
			} else if !ok {
				c.Violationf(name+":mismatch:", map[string]any{"type": tname, "case": d()}, "%s[%s] differs from its documented definition: %s", name, tname, d())
			}
			if !g.intact() {
				c.Violationf(name+":input-modified", map[string]any{"type": tname, "case": d()}, "%s[%s] modified its input; %s", name, tname, d())
			}
		}
		chk("Min", func() bool { return fpgo.Min(g.list...) == mn })
		chk("Max", func() bool { return fpgo.Max(g.list...) == mx })
		chk("MinMax", func() bool { a, b := fpgo.MinMax(g.list...); return a == mn && b == mx })
	}
}

func init() {
	core.Register(&core.Check{
		ID: "C03",
		Meta: func(c *core.Ctx) core.Meta {
			return core.Meta{
				Level: "exploration",
				Rule: "differential against an independent model of each helper: every list of length 0..L over a 3-symbol alphabet plus nil (L=5 quick, 7 thorough) and PRNG lists up to length 64, plus long lists (1023..3000 elements, thorough 70000; counts sampled at the ends, the middle and around powers of two; index-sensitive predicates), for element types int, string and struct; every count/size in [-3, len+3]; predicate/transformer/key families; all pairs of lists up to length 3 for the binary helpers; Range over lo,hi in [-3,4] x hop; callbacks with memory (call logs: once per element, in order; first-occurrence and budget predicates against a sequential model, also through Stream.Filter/Reject); maps with NaN keys through Merge / DuplicateMap / Keys / Values and the interface{} twins; " +
					"each input sits in a backing array with sentinel-filled spare capacity that is compared with a snapshot after the call. distinct_nontrivial = enumerated (helper, input, parameter) cases with a non-empty input (distinct by construction)",
				Assumptions: []string{"degenerate parameters follow the code's explicit guards where the doc comment is silent (list in DESIGN.md C03); DropLast(n<=0) drops nothing",
					"nil predicates only for the helpers that document them (Every, Some, DropWhile)", "Drop/Take/TakeLast/DropLast/Tail may alias the input (only 'input unmodified' is required)"},
				Exhaustive: true,
			}
		},
		Run: func(c *core.Ctx) {
			hw := c.NewHangWatch(64, 20e9)
			maxLen := c.Pick(5, 7)
			rng := c.Rng("c03")
			mkExtra := func(n int) [][]int {
				var out [][]int
				for i := 0; i < n; i++ {
					l := make([]int, 6+rng.Intn(59))
					for j := range l {
						l[j] = rng.Intn(3)
					}
					out = append(out, l)
				}
				return out
			}
			ex := mkExtra(c.Pick(40, 4000))
			// long lists (beyond any plausible block / chunk size of an implementation)
			longLens := []int{1023, 1025, 1100, 2049, 3000}
			if c.Thorough() {
				longLens = append(longLens, 4097, 5000, 70000)
			}
			for _, n := range longLens {
				l := make([]int, n)
				for j := range l {
					l[j] = rng.Intn(3)
				}
				ex = append(ex, l)
			}
			c03Suite(c, hw, "int", []int{0, 1, 2}, -77, maxLen, ex, 3)
			c03Suite(c, hw, "int", []int{0, 1, 2}, -77, maxLen, nil, 0)
			var exs [][]string
			var exst [][]c03Struct
			sa := []string{"a", "b", ""}
			sta := []c03Struct{{0, "x"}, {1, "x"}, {0, ""}}
			for _, l := range ex[:len(ex)/4] {
				var s []string
				var st []c03Struct
				for _, v := range l {
					s = append(s, sa[v])
					st = append(st, sta[v])
				}
				exs = append(exs, s)
				exst = append(exst, st)
			}
			c03Suite(c, hw, "string", sa, "SENTINEL", maxLen, exs, 3)
			c03Suite(c, hw, "string", sa, "SENTINEL", c.Pick(4, 6), nil, 0)
			c03Suite(c, hw, "struct", sta, c03Struct{-9, "sentinel"}, c.Pick(4, 6), exst, 3)
			c03Suite(c, hw, "struct", sta, c03Struct{-9, "sentinel"}, c.Pick(3, 5), nil, 0)
			c03Numeric(c, hw, "int", []int{-3, -2, -1, 0, 1, 2, 3, 4}, []int{-3, -1, 0, 1, 2, 3, 7})
			c03Numeric(c, hw, "float64", []float64{-3, -1.5, -1, 0, 0.5, 1, 2.5, 4}, []float64{-3, -0.5, 0, 0.5, 1, 1.5, 7})
			c03Numeric(c, hw, "uint8", []uint8{0, 1, 2, 3, 4, 5, 9}, []uint8{0, 1, 2, 3})
			c03Extra(c)
		},
	})
}
