package props

import (
	"fmt"
	"runtime"
	"runtime/debug"
	"strings"
	"sync/atomic"
	"time"

	fpgo "github.com/TeaEntityLab/fpGo/v2"

	"verifharness/internal/core"
)

// C06 — LinkedListQueue is a correct deque for every operation history.
// Oracle: a slice-based ideal deque stepped in lock-step with the real object; values are unique.

type dqOp struct {
	name string
	// kind: 0 push tail, 1 push head, 2 pop head, 3 pop tail, 4 peek, 5 count, 6 clear, 7 pool-maintenance
	kind int
	arg  int
}

var dqFull = []dqOp{
	{"Offer", 0, 0}, {"Push", 0, 1}, {"Put", 0, 2}, {"Unshift", 1, 0},
	{"Poll", 2, 0}, {"Take", 2, 1}, {"Shift", 2, 2}, {"Pop", 3, 0},
	{"Peek", 4, 0}, {"Count", 5, 0}, {"Clear", 6, 0},
	{"KeepNodePoolCount(0)", 7, 0}, {"KeepNodePoolCount(1)", 7, 1}, {"KeepNodePoolCount(3)", 7, 3}, {"ClearNodePool", 7, -1},
}

var dqCore = []dqOp{
	{"Offer", 0, 0}, {"Unshift", 1, 0}, {"Shift", 2, 2}, {"Pop", 3, 0}, {"Clear", 6, 0}, {"KeepNodePoolCount(1)", 7, 1},
}

// ideal is the reference double-ended sequence (ring buffer, O(1) at both ends).
type ideal struct {
	buf     []int
	head, n int
}

func (d *ideal) grow() {
	if d.n < len(d.buf) {
		return
	}
	nb := make([]int, 2*len(d.buf)+8)
	for i := 0; i < d.n; i++ {
		nb[i] = d.buf[(d.head+i)%len(d.buf)]
	}
	d.buf, d.head = nb, 0
}
func (d *ideal) pushBack(v int) { d.grow(); d.buf[(d.head+d.n)%len(d.buf)] = v; d.n++ }
func (d *ideal) pushFront(v int) {
	d.grow()
	d.head = (d.head - 1 + len(d.buf)) % len(d.buf)
	d.buf[d.head] = v
	d.n++
}
func (d *ideal) front() int    { return d.buf[d.head] }
func (d *ideal) back() int     { return d.buf[(d.head+d.n-1)%len(d.buf)] }
func (d *ideal) popFront() int { v := d.front(); d.head = (d.head + 1) % len(d.buf); d.n--; return v }
func (d *ideal) popBack() int  { v := d.back(); d.n--; return v }
func (d *ideal) clear()        { d.head, d.n = 0, 0 }
func (d *ideal) String() string {
	if d.n > 12 {
		return fmt.Sprintf("(%d items, head %d, tail %d)", d.n, d.front(), d.back())
	}
	o := make([]int, d.n)
	for i := range o {
		o[i] = d.buf[(d.head+i)%len(d.buf)]
	}
	return fmt.Sprint(o)
}

func dqHistoryString(alpha []dqOp, seq []int) string {
	var sb strings.Builder
	for i, s := range seq {
		if i > 0 {
			sb.WriteByte(',')
		}
		sb.WriteString(alpha[s].name)
	}
	return sb.String()
}

// runDequeHistory executes one history against a fresh queue and the model. It returns
// (failure key, description, step index) or "" when every step agreed; nontrivial reports whether
// the history had both a head and a tail removal on a non-empty deque.
func runDequeHistory(alpha []dqOp, seq []int) (key, what string, nontrivial bool) {
	q := fpgo.NewLinkedListQueue[int]()
	var qi fpgo.Queue[int] = q
	var si fpgo.Stack[int] = q
	model := &ideal{}
	next := 1
	headRem, tailRem := false, false
	for step, s := range seq {
		op := alpha[s]
		var got int
		var gerr error
		var want int
		var werr error
		check := false
		pv, where := core.Catch(func() {
			switch op.kind {
			case 0:
				v := next
				next++
				switch op.arg {
				case 0:
					gerr = qi.Offer(v)
				case 1:
					gerr = si.Push(v)
				default:
					gerr = qi.Put(v)
				}
				model.pushBack(v)
				check = true
			case 1:
				v := next
				next++
				gerr = q.Unshift(v)
				model.pushFront(v)
				check = true
			case 2:
				switch op.arg {
				case 0:
					got, gerr = qi.Poll()
				case 1:
					got, gerr = qi.Take()
				default:
					got, gerr = q.Shift()
				}
				if model.n == 0 {
					werr = fpgo.ErrQueueIsEmpty
				} else {
					want = model.popFront()
					headRem = true
				}
				check = true
			case 3:
				got, gerr = si.Pop()
				if model.n == 0 {
					werr = fpgo.ErrStackIsEmpty
				} else {
					want = model.popBack()
					tailRem = true
				}
				check = true
			case 4:
				got, gerr = q.Peek()
				if model.n == 0 {
					werr = fpgo.ErrQueueIsEmpty
				} else {
					want = model.front()
				}
				check = true
			case 5:
				got = q.Count()
				want = model.n
				check = true
			case 6:
				q.Clear()
				model.clear()
			case 7:
				if op.arg < 0 {
					q.ClearNodePool()
				} else {
					q.KeepNodePoolCount(op.arg)
				}
			}
		})
		if pv == nil && !check {
			if c := q.Count(); c == model.n {
				continue
			}
		}
		hist := ""
		if pv != nil || !check || gerr != werr || (werr == nil && got != want) || q.Count() != model.n {
			hist = dqHistoryString(alpha, seq[:step+1]) // only built when something is about to be reported
			if len(hist) > 600 {
				hist = hist[:250] + ",...," + hist[len(hist)-300:] + fmt.Sprintf(" (%d steps)", step+1)
			}
		}
		if pv != nil {
			return fmt.Sprintf("panic:%s:%s@%s", op.name, core.NormalizePanic(fmt.Sprint(pv)), where),
				fmt.Sprintf("history [%s] panics at step %d (%s): %v", hist, step, op.name, pv), headRem && tailRem
		}
		if check {
			if gerr != werr {
				return fmt.Sprintf("wrong-error:%s", op.name),
					fmt.Sprintf("history [%s]: %s returned err=%s, ideal deque %v gives err=%s", hist, op.name, errStr(gerr), model, errStr(werr)), headRem && tailRem
			}
			if werr == nil && got != want {
				return fmt.Sprintf("wrong-value:%s", op.name),
					fmt.Sprintf("history [%s]: %s returned %d, ideal deque gives %d", hist, op.name, got, want), headRem && tailRem
			}
		}
		// Count must equal the model length after every step (observable through Count()).
		if c := q.Count(); c != model.n {
			return fmt.Sprintf("count-after:%s", op.name),
				fmt.Sprintf("history [%s]: Count()=%d, ideal length %d", hist, c, model.n), headRem && tailRem
		}
	}
	// drain: everything that is left must come out in order (alternating ends exercises both links)
	for i := 0; model.n > 0; i++ {
		var got int
		var gerr error
		var want int
		pv, where := core.Catch(func() {
			if i%2 == 0 {
				got, gerr = q.Shift()
				want = model.popFront()
			} else {
				got, gerr = q.Pop()
				want = model.popBack()
			}
		})
		hist := dqHistoryString(alpha, seq)
		if pv != nil {
			return fmt.Sprintf("panic:drain:%s@%s", core.NormalizePanic(fmt.Sprint(pv)), where),
				fmt.Sprintf("history [%s] then alternating drain panics: %v", hist, pv), headRem && tailRem
		}
		if gerr != nil || got != want {
			return "wrong-value:drain", fmt.Sprintf("history [%s] then alternating drain: got (%d,%s) want %d", hist, got, errStr(gerr), want), headRem && tailRem
		}
	}
	return "", "", headRem && tailRem
}

type dqHang struct {
	alpha []dqOp
	seq   []int
}

func (d dqHang) String() string {
	return "history [" + dqHistoryString(d.alpha, d.seq) + "] (some prefix of it)"
}

func init() {
	core.Register(&core.Check{
		ID: "C06",
		Meta: func(c *core.Ctx) core.Meta {
			return core.Meta{
				Level: "exploration",
				Rule: "bounded-exhaustive: every operation history of exactly the stated length (all shorter histories are prefixes and are checked step by step) over the 15-letter full alphabet and the 6-letter core alphabet, plus PRNG histories of length 200 and burst histories (backlogs of 70..66000 items built, drained through both ends, rebuilt and drained again, with empty-queue probes); " +
					"each executed against the real LinkedListQueue (through the Queue, Stack and concrete views) and an ideal slice deque in lock-step, followed by an alternating-ends drain; 300 rounds of {large drain, ClearNodePool / KeepNodePoolCount, pause of 0 .. 2 ms, carry on} and a queue held by value; PRNG histories of 3000 (40000) operations on eight OTHER instantiations alive in the same process (element types fmt.Stringer, error, any, an anonymous interface, struct, *struct, string, func) against a slice model. distinct_nontrivial counts histories that performed both a head removal and a tail removal on a non-empty deque",
				Assumptions: []string{"values are unique ints; node-pool operations are no-ops of the ideal deque",
					"single goroutine (the property is about histories, not schedules)"},
				Exhaustive: true,
			}
		},
		Run: runC06,
	})
}

func runC06(c *core.Ctx) {
	c06Generic(c)
	type spec struct {
		alpha []dqOp
		n     int
		name  string
	}
	specs := []spec{{dqFull, c.Pick(5, 6), "full"}, {dqCore, c.Pick(8, 10), "core"}}
	hw := c.NewHangWatch(64, 20*time.Second)
	for _, sp := range specs {
		var nontriv atomic.Int64
		var total atomic.Int64
		enumerate(len(sp.alpha), sp.n, func(w int, seq []int) {
			hw.Begin(w, dqHang{sp.alpha, seq})
			key, what, nt := runDequeHistory(sp.alpha, seq)
			hw.End(w)
			total.Add(1)
			if nt {
				nontriv.Add(1)
			}
			if key != "" {
				c.Violation(key, what, map[string]any{"alphabet": sp.name, "history": dqHistoryString(sp.alpha, seq)})
			}
		})
		c.Eval(total.Load())
		c.Count("histories."+sp.name+".len"+fmt.Sprint(sp.n), total.Load())
		c.Count("histories.nontrivial."+sp.name, nontriv.Load())
		// every exhaustive history is distinct by construction
		c.DistinctAdd(nontriv.Load())
		c.Note("exhaustive."+sp.name, fmt.Sprintf("all %d histories of length %d over %d operations", total.Load(), sp.n, len(sp.alpha)))
	}
	// PRNG histories, long
	nr := c.Pick(2000, 200000)
	rng := c.Rng("c06-long")
	seqs := make([][]int, nr)
	for i := range seqs {
		s := make([]int, 200)
		// bias: phases of growth and shrink
		grow := rng.Intn(2) == 0
		for j := range s {
			if rng.Intn(25) == 0 {
				grow = !grow
			}
			r := rng.Intn(100)
			switch {
			case r < 8:
				s[j] = 8 + rng.Intn(7) // peek/count/clear/pool ops
			case (r < 60) == grow:
				s[j] = rng.Intn(4)
			default:
				s[j] = 4 + rng.Intn(4)
			}
		}
		seqs[i] = s
	}
	var nontriv atomic.Int64
	parallelFor(nr, func(w, i int) {
		hw.Begin(w, dqHang{dqFull, seqs[i]})
		key, what, nt := runDequeHistory(dqFull, seqs[i])
		hw.End(w)
		if nt {
			nontriv.Add(1)
			c.Distinct(fmt.Sprintf("rnd-%d", i))
		}
		if key != "" {
			c.Violation(key, what, map[string]any{"alphabet": "full", "history": dqHistoryString(dqFull, seqs[i])})
		}
	})
	// burst histories: a backlog far beyond any node-pool bound is built, drained, rebuilt and drained again (through
	// both ends), with empty-queue probes in between - free-list / node-recycling paths only show at this scale
	bursts := [][2]int{{70, 3}, {300, 2}, {1030, 2}, {1100, 3}, {2100, 2}, {4200, 2}, {8300, 2}, {16500, 2}, {17000, 3}, {33000, 2}, {66000, 2}}
	if c.Thorough() {
		bursts = append(bursts, [2]int{9000, 3}, [2]int{20000, 2}, [2]int{131100, 2}, [2]int{262200, 2}, [2]int{1025, 6}, [2]int{1024, 4}, [2]int{513, 5})
	}
	var burstSeqs [][]int
	for bi, b := range bursts {
		for variant := 0; variant < 4; variant++ {
			var s []int
			for round := 0; round < b[1]; round++ {
				for k := 0; k < b[0]; k++ {
					if variant%2 == 1 && k%7 == 3 {
						s = append(s, 3) // Unshift
					} else {
						s = append(s, k%3) // Offer / Push / Put
					}
				}
				if round%2 == 1 && variant >= 2 {
					s = append(s, 12) // KeepNodePoolCount(1) between the rounds
				}
				for k := 0; k < b[0]; k++ {
					if variant >= 2 && k%5 == 0 {
						s = append(s, 7) // Pop
					} else {
						s = append(s, 4+k%3) // Poll / Take / Shift
					}
				}
				s = append(s, 8, 4, 7, 9, 8) // Peek, Poll, Pop, Count, Peek on the empty queue
			}
			burstSeqs = append(burstSeqs, s)
			_ = bi
		}
	}
	// sequentially and with the garbage collector paused: nodes parked in the queue's sync.Pool survive only until
	// the next GC cycle, so a recycling defect that goes through that pool needs a GC-quiet history to show
	oldGC := debug.SetGCPercent(-1)
	defer debug.SetGCPercent(oldGC)
	for i := range burstSeqs {
		w := 0
		hw.Begin(w, dqHang{dqFull, burstSeqs[i][:8]})
		key, what, _ := runDequeHistory(dqFull, burstSeqs[i])
		hw.End(w)
		c.Distinct(fmt.Sprintf("burst-%d", i))
		if key != "" {
			if len(what) > 700 {
				what = what[:300] + " ... " + what[len(what)-380:]
			}
			c.Violation("burst:"+key, what, map[string]any{"alphabet": "full", "burst_history_index": i, "length": len(burstSeqs[i])})
		}
		if i%4 == 3 {
			debug.SetGCPercent(oldGC)
			runtime.GC()
			debug.SetGCPercent(-1)
		}
	}
	c.Eval(int64(len(burstSeqs)))
	c.Count("histories.burst", int64(len(burstSeqs)))
	c.Eval(int64(nr))
	c.Count("histories.random.len200", int64(nr))
	c.Count("histories.nontrivial.random", nontriv.Load())
	c.Sample(map[string]any{"alphabet": "core", "history": "Offer,Offer,Shift,Pop,Shift,Unshift,Pop,Offer", "note": "one of the exhaustively enumerated histories"})
	c.Sample(map[string]any{"alphabet": "full", "history": dqHistoryString(dqFull, seqs[0][:24]) + ",…", "note": "prefix of PRNG history 0"})
}
