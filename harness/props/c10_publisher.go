package props

import (
	"fmt"
	"math/rand"
	"runtime"
	"sort"
	"strings"
	"sync"
	"time"

	fpgo "github.com/TeaEntityLab/fpGo/v2"

	"verifharness/internal/core"
	"verifharness/internal/director"
)

// C10 — Publisher delivers each value exactly once per live subscription, in order.

type c10Delivery struct {
	pub  int // publish id (the published value is unique)
	sub  int
	goid int64
	t    int64
}

type c10World struct {
	t0  time.Time
	mu  sync.Mutex
	log []c10Delivery
}

func (w *c10World) now() int64 { return int64(time.Since(w.t0)) + 1 }

func (w *c10World) deliver(pub, sub int) {
	w.mu.Lock()
	w.log = append(w.log, c10Delivery{pub, sub, core.Goid(), w.now()})
	w.mu.Unlock()
}

type c10Span struct{ call, ret int64 }

// ---- (a) sequential re-entrant histories

// action of subscriber i when it receives its first value of a publish
//
//	0 none, 1 unsubscribe self, 2.. unsubscribe subscriber (a-2), last: subscribe a new one
func c10SeqScenarios(k int) [][]int {
	var out [][]int
	nact := 2 + k + 1 // none, self, unsub j (k choices, j==i is "self" again and skipped), subscribe new, nested publish
	cur := make([]int, k)
	var rec func(i int)
	rec = func(i int) {
		if i == k {
			out = append(out, append([]int(nil), cur...))
			return
		}
		for a := 0; a < nact+1; a++ {
			if a >= 2 && a < 2+k && a-2 == i {
				continue
			}
			cur[i] = a
			rec(i + 1)
		}
	}
	rec(0)
	return out
}

func c10RunSequential(c *core.Ctx, k int, actions []int, publishes int) {
	w := &c10World{t0: time.Now()}
	p := fpgo.PublisherNewGenerics[int]()
	derived := p.Map(func(v int) int { return v + 1000 }) // a derived publisher for nested publishes (subscribed first)
	var derivedGot []int
	derived.Subscribe(fpgo.Subscription[int]{OnNext: func(v int) { derivedGot = append(derivedGot, v) }})
	subs := make([]*fpgo.Subscription[int], k)
	registered := make([]bool, k+20) // model: currently registered
	unsubDuring := map[[2]int]bool{} // (publish, sub) -> (un)subscribed during that publish
	curPub := -1
	acted := map[[2]int]bool{}
	extra := k
	var extraSubs []*fpgo.Subscription[int]
	nestedPublishes := 0
	for i := 0; i < k; i++ {
		i := i
		subs[i] = p.Subscribe(fpgo.Subscription[int]{OnNext: func(v int) {
			w.deliver(v, i)
			if acted[[2]int{v, i}] {
				return
			}
			acted[[2]int{v, i}] = true
			a := actions[i]
			switch {
			case a == 1:
				p.Unsubscribe(subs[i])
				registered[i] = false
				unsubDuring[[2]int{curPub, i}] = true
			case a >= 2 && a < 2+k:
				j := a - 2
				p.Unsubscribe(subs[j])
				registered[j] = false
				unsubDuring[[2]int{curPub, j}] = true
			case a == 2+k:
				id := extra
				extra++
				s := p.Subscribe(fpgo.Subscription[int]{OnNext: func(v int) { w.deliver(v, id) }})
				extraSubs = append(extraSubs, s)
				registered[id] = true
				unsubDuring[[2]int{curPub, id}] = true
			case a == 3+k:
				nestedPublishes++
				derived.Publish(5000 + v)
			}
		}})
		registered[i] = true
	}
	desc := fmt.Sprintf("k=%d actions=%v publishes=%d", k, actions, publishes)
	rep := map[string]any{"subscribers": k, "actions": fmt.Sprint(actions), "publishes": publishes, "legend": "0 none, 1 unsubscribe self, 2+j unsubscribe subscriber j, 2+k subscribe a new one, 3+k publish on a derived publisher"}
	for pub := 0; pub < publishes; pub++ {
		curPub = pub
		before := append([]bool(nil), registered...)
		pv, where := core.Catch(func() { p.Publish(pub) })
		if pv != nil {
			c.Violationf("seq:panic:"+core.NormalizePanic(fmt.Sprint(pv)), rep, "%s: Publish panics: %v at %s", desc, pv, where)
			return
		}
		// deliveries of this publish
		counts := map[int]int{}
		var order []int
		for _, d := range w.log {
			if d.pub == pub {
				counts[d.sub]++
				order = append(order, d.sub)
			}
		}
		for s := 0; s < extra; s++ {
			n := counts[s]
			changed := unsubDuring[[2]int{pub, s}]
			switch {
			case n > 1:
				c.Violationf("seq:delivered-twice", rep, "%s: publish #%d was delivered %d times to subscription %d", desc, pub, n, s)
			case s < len(before) && before[s] && !changed && n != 1:
				c.Violationf("seq:skipped", rep, "%s: publish #%d was not delivered to subscription %d, which was registered before the call and still is (deliveries in order: %v)", desc, pub, s, order)
			case (s >= len(before) || !before[s]) && !changed && n != 0:
				c.Violationf("seq:delivered-to-unsubscribed", rep, "%s: publish #%d was delivered to subscription %d whose Unsubscribe had completed before the call", desc, pub, s)
			}
		}
		// subscription order among the always-registered
		last := -1
		for _, s := range order {
			if s < len(before) && before[s] && !unsubDuring[[2]int{pub, s}] {
				if s < last {
					c.Violationf("seq:order", rep, "%s: publish #%d reached subscription %d after subscription %d", desc, pub, s, last)
				}
				last = s
			}
		}
	}
	// the derived publisher saw fn(v) exactly once per publish on its origin, plus the nested publishes
	want := publishes + nestedPublishes
	if len(derivedGot) != want {
		c.Violationf("seq:map-count", rep, "%s: the derived publisher delivered %d values, want %d", desc, len(derivedGot), want)
	}
	seen := map[int]bool{}
	for _, v := range derivedGot {
		if v < 5000 {
			if v < 1000 || v >= 1000+publishes || seen[v] {
				c.Violationf("seq:map-value", rep, "%s: the derived publisher delivered %v", desc, derivedGot)
			}
			seen[v] = true
		}
	}
}

// ---- (b) concurrent publishers and (un)subscribers

func c10Concurrent(id string, publishers, churners, pubsEach int, directed int, seed int64) core.Scenario {
	return core.Scenario{ID: id, Class: "Publisher.concurrent", Run: func(c *core.Ctx) {
		d := director.Get()
		d.Reset(seed)
		w := &c10World{t0: time.Now()}
		p := fpgo.PublisherNewGenerics[int]()
		rep := map[string]any{"scenario": id, "publishers": publishers, "churners": churners, "publishes_each": pubsEach, "directed": directed}
		// stable subscriptions (registered for the whole run) and churning ones
		const stable = 3
		var subRet, unsubCall, unsubRet sync.Map // sub id -> time
		mkSub := func(idn int) *fpgo.Subscription[int] {
			s := p.Subscribe(fpgo.Subscription[int]{OnNext: func(v int) { w.deliver(v, idn) }})
			subRet.Store(idn, w.now())
			return s
		}
		for s := 0; s < stable; s++ {
			mkSub(s)
		}
		if directed == 0 {
			d.Yield(3, "publisher.Publish.snapshotted", "publisher.Publish.beforeDeliver", "publisher.Unsubscribe.locked")
		}
		var wg sync.WaitGroup
		start := make(chan struct{})
		pubSpans := make([][]c10Span, publishers)
		for pi := 0; pi < publishers; pi++ {
			wg.Add(1)
			go func(pi int) {
				defer wg.Done()
				<-start
				for k := 0; k < pubsEach; k++ {
					val := pi*100000 + k
					sp := c10Span{call: w.now()}
					p.Publish(val)
					sp.ret = w.now()
					pubSpans[pi] = append(pubSpans[pi], sp)
				}
			}(pi)
		}
		for ci := 0; ci < churners; ci++ {
			wg.Add(1)
			go func(ci int) {
				defer wg.Done()
				rng := rand.New(rand.NewSource(seed*7 + int64(ci)))
				<-start
				for k := 0; k < pubsEach; k++ {
					idn := 1000 + ci*1000 + k
					s := mkSub(idn)
					for y := 0; y < rng.Intn(4); y++ {
						runtime.Gosched()
					}
					unsubCall.Store(idn, w.now())
					p.Unsubscribe(s)
					unsubRet.Store(idn, w.now())
				}
			}(ci)
		}
		// directed: park the publisher between snapshot and delivery while an Unsubscribe runs to completion
		if directed != 0 {
			point := "publisher.Publish.snapshotted"
			if directed == 2 {
				point = "publisher.Publish.beforeDeliver"
			}
			g := d.Park(point, 1+int(seed%3))
			wg.Add(1)
			go func() {
				defer wg.Done()
				if g.WaitArrived(300 * time.Millisecond) {
					c.Count("directed.parks_reached", 1)
					idn := 900000
					s := mkSub(idn) // subscribed and unsubscribed entirely while a Publish is parked
					unsubCall.Store(idn, w.now())
					p.Unsubscribe(s)
					unsubRet.Store(idn, w.now())
				}
				g.Release()
			}()
		}
		close(start)
		joined := make(chan struct{})
		go func() { wg.Wait(); close(joined) }()
		v, dump := core.AwaitOrStuck(joined, 2*time.Second, 60*time.Second, d.Total)
		if v == "stuck" {
			c.Violationf("concurrent:stuck", map[string]any{"scenario": id, "goroutines": core.RepoGoroutineSummary(dump)}, "publishers / (un)subscribers never finished")
			return
		}
		if v != "done" {
			c.Inconclusive("watchdog in " + id)
			return
		}
		w.mu.Lock()
		log := append([]c10Delivery(nil), w.log...)
		w.mu.Unlock()
		c.Eval(int64(publishers * pubsEach))
		c.Count("deliveries", int64(len(log)))
		c.Distinct(id)
		c.DistinctHash(d.Signature())
		counts := map[[2]int]int{}
		for _, dl := range log {
			counts[[2]int{dl.pub, dl.sub}]++
		}
		for key, n := range counts {
			if n > 1 {
				c.Violationf("concurrent:delivered-twice", rep, "value %d was delivered %d times to subscription %d", key[0], n, key[1])
				break
			}
		}
		for pi := range pubSpans {
			for k, sp := range pubSpans[pi] {
				val := pi*100000 + k
				// stable subscriptions: exactly once
				for s := 0; s < stable; s++ {
					if counts[[2]int{val, s}] != 1 {
						c.Violationf("concurrent:skipped-stable", rep, "value %d was delivered %d times to stable subscription %d", val, counts[[2]int{val, s}], s)
					}
				}
				// churning subscriptions: unsubscribed-before => 0; fully-registered-throughout => 1
				subRet.Range(func(key, value any) bool {
					idn := key.(int)
					if idn < stable {
						return true
					}
					n := counts[[2]int{val, idn}]
					ur, hasUR := unsubRet.Load(idn)
					uc, hasUC := unsubCall.Load(idn)
					if hasUR && ur.(int64) < sp.call && n != 0 {
						c.Violationf("concurrent:delivered-to-unsubscribed", rep, "value %d was delivered to subscription %d whose Unsubscribe had returned before Publish was called", val, idn)
						return false
					}
					if value.(int64) < sp.call && (!hasUC || uc.(int64) > sp.ret) && n != 1 {
						c.Violationf("concurrent:skipped-live", rep, "value %d was delivered %d times to subscription %d which was registered during the whole Publish call", val, n, idn)
						return false
					}
					return true
				})
			}
		}
		// per publish: stable subscriptions in subscription order
		byPub := map[int][]c10Delivery{}
		for _, dl := range log {
			if dl.sub < stable {
				byPub[dl.pub] = append(byPub[dl.pub], dl)
			}
		}
		for pub, ds := range byPub {
			sort.Slice(ds, func(i, j int) bool { return ds[i].t < ds[j].t })
			for i := 1; i < len(ds); i++ {
				if ds[i].sub < ds[i-1].sub {
					c.Violationf("concurrent:order", rep, "value %d reached stable subscription %d after %d", pub, ds[i].sub, ds[i-1].sub)
					break
				}
			}
		}
		if c.WantSample() {
			c.Sample(rep)
		}
	}}
}

// ---- (c) Map chains and (d) SubscribeOn

func c10MapAndHandler(id string, depth, subscribers, hcap, values int, seed int64) core.Scenario {
	return core.Scenario{ID: id, Class: "Publisher.SubscribeOn/Map", Run: func(c *core.Ctx) {
		rep := map[string]any{"scenario": id, "map_depth": depth, "subscribers": subscribers, "handler_capacity": hcap, "values": values}
		c.Eval(int64(values))
		c.Distinct(id)
		// Map chain: two subscribers on every level; level L must see fn_L(...fn_1(v)) exactly once per v, in order
		root := fpgo.PublisherNewGenerics[int]()
		levels := []*fpgo.PublisherDef[int]{root}
		for dpt := 0; dpt < depth; dpt++ {
			mul := dpt + 2
			levels = append(levels, levels[dpt].Map(func(v int) int { return v*mul + 1 }))
		}
		got := make([][2][]int, len(levels))
		for li, lv := range levels {
			li := li
			lv.Subscribe(fpgo.Subscription[int]{OnNext: func(v int) { got[li][0] = append(got[li][0], v) }})
			lv.Subscribe(fpgo.Subscription[int]{OnNext: func(v int) { got[li][1] = append(got[li][1], v) }})
		}
		want := make([][]int, len(levels))
		for v := 0; v < values; v++ {
			root.Publish(v)
			x := v
			want[0] = append(want[0], x)
			for dpt := 0; dpt < depth; dpt++ {
				x = x*(dpt+2) + 1
				want[dpt+1] = append(want[dpt+1], x)
			}
		}
		// a derived publisher is an ordinary publisher: values published directly on level m reach level m and
		// everything derived from it (and nothing above it)
		for m := 1; m < len(levels); m++ {
			for v := 0; v < 2; v++ {
				x := 7000 + 10*m + v
				levels[m].Publish(x)
				want[m] = append(want[m], x)
				for dpt := m; dpt < depth; dpt++ {
					x = x*(dpt+2) + 1
					want[dpt+1] = append(want[dpt+1], x)
				}
			}
		}
		for li := range levels {
			for k := 0; k < 2; k++ {
				if !eqSeq(got[li][k], want[li]) {
					c.Violationf("map:chain", rep, "level %d of a Map chain (depth %d) delivered %v to its subscriber %d, want %v", li, depth, got[li][k], k, want[li])
				}
			}
		}
		// subscription churn on a derived publisher: it must keep publishing fn(v) for every v of its origin, whatever
		// happened to its own subscriptions before (all removed, a one-shot removing itself, re-subscription)
		{
			origin := fpgo.PublisherNewGenerics[int]()
			der := origin.Map(func(v int) int { return v + 100 })
			var a, b, oneShot []int
			sa := der.Subscribe(fpgo.Subscription[int]{OnNext: func(v int) { a = append(a, v) }})
			origin.Publish(1)
			der.Unsubscribe(sa) // the derived publisher has no subscription left
			origin.Publish(2)
			der.Subscribe(fpgo.Subscription[int]{OnNext: func(v int) { b = append(b, v) }})
			origin.Publish(3)
			var so *fpgo.Subscription[int]
			der2 := origin.Map(func(v int) int { return v + 200 })
			so = der2.Subscribe(fpgo.Subscription[int]{OnNext: func(v int) { oneShot = append(oneShot, v); der2.Unsubscribe(so) }})
			origin.Publish(4)
			var late []int
			der2.Subscribe(fpgo.Subscription[int]{OnNext: func(v int) { late = append(late, v) }})
			origin.Publish(5)
			if !eqSeq(a, []int{101}) || !eqSeq(b, []int{103, 104, 105}) || !eqSeq(oneShot, []int{204}) || !eqSeq(late, []int{205}) {
				c.Violationf("map:resubscribe", rep, "a derived publisher stopped publishing after its subscriptions changed: first=%v (want [101]) resubscribed=%v (want [103 104 105]) one-shot=%v (want [204]) late=%v (want [205])", a, b, oneShot, late)
			}
		}
		// pause / resume / move: a copy of a subscription value registered again (on the same or another publisher)
		// after the original was unsubscribed is a registration like any other
		{
			p1 := fpgo.PublisherNewGenerics[int]()
			p2 := fpgo.PublisherNewGenerics[int]()
			var g1, g2, g3 []int
			s1 := p1.Subscribe(fpgo.Subscription[int]{OnNext: func(v int) { g1 = append(g1, v) }})
			early := *s1 // a copy taken while registered
			p1.Publish(1)
			p1.Unsubscribe(s1)
			p1.Publish(2)
			s2 := p1.Subscribe(*s1) // resume with a copy taken after the Unsubscribe
			p2.Subscribe(*s1)       // and move to another publisher
			p1.Publish(3)
			p2.Publish(4)
			p1.Unsubscribe(s2)
			p1.Publish(5)
			p1.Subscribe(early)
			p1.Publish(6)
			_ = g2
			_ = g3
			if !eqSeq(g1, []int{1, 3, 4, 6}) {
				c.Violationf("resubscribe-copy", rep, "Subscribe / Unsubscribe / Subscribe(copy) on the same and on another publisher: the callback received %v, want [1 3 4 6]", g1)
			}
		}
		// the ORDER of Subscribe and SubscribeOn does not matter: every delivery of a publisher that has a handler happens on
		// it, also for subscriptions made before the handler was set (plain and derived publishers)
		{
			h2 := fpgo.Handler.New()
			hg2 := handlerGoid(h2)
			var mu sync.Mutex
			type dl struct {
				who  string
				v    int
				goid int64
			}
			var got []dl
			note := func(who string) func(int) {
				return func(v int) { mu.Lock(); got = append(got, dl{who, v, core.Goid()}); mu.Unlock() }
			}
			pp := fpgo.PublisherNewGenerics[int]()
			pp.Subscribe(fpgo.Subscription[int]{OnNext: note("early")})
			pp.SubscribeOn(h2)
			pp.Subscribe(fpgo.Subscription[int]{OnNext: note("late")})
			der := pp.Map(func(v int) int { return v + 500 })
			der.Subscribe(fpgo.Subscription[int]{OnNext: note("derived-early")})
			h3 := fpgo.Handler.New() // (another handler: the derived publisher publishes from h2's goroutine)
			hg3 := handlerGoid(h3)
			der.SubscribeOn(h3)
			pp.Publish(1)
			handlerGoid(h2)
			handlerGoid(h3)
			mu.Lock()
			cnt := map[string]int{}
			for _, d := range got {
				cnt[d.who]++
				wantG := hg2
				if d.who == "derived-early" {
					wantG = hg3
				}
				if d.goid != wantG {
					c.Violationf("subscribeOn:wrong-goroutine", rep, "a subscription made %s SubscribeOn(h) was delivered on goroutine %d, h's goroutine is %d (deliveries: %v)", map[bool]string{true: "BEFORE", false: "after"}[d.who != "late"], d.goid, wantG, got)
					break
				}
			}
			if cnt["early"] != 1 || cnt["late"] != 1 || cnt["derived-early"] != 1 {
				c.Violationf("subscribeOn:not-exactly-once", rep, "Subscribe / SubscribeOn(h) / Subscribe (+ a derived publisher configured the same way), Publish(1): deliveries %v, want one each", got)
			}
			mu.Unlock()
			h2.Close()
			h3.Close()
		}
		// Unsubscribe(s) on a publisher that s is not registered with is a no-op for everybody (another publisher, the
		// origin of a Map chain)
		{
			pa, pb := fpgo.PublisherNewGenerics[int](), fpgo.PublisherNewGenerics[int]()
			var ga, gd []int
			sa := pa.Subscribe(fpgo.Subscription[int]{OnNext: func(v int) { ga = append(ga, v) }})
			pb.Unsubscribe(sa)
			dd := pa.Map(func(v int) int { return v * 2 })
			sd := dd.Subscribe(fpgo.Subscription[int]{OnNext: func(v int) { gd = append(gd, v) }})
			pa.Unsubscribe(sd) // registered with dd, not with pa
			pb.Unsubscribe(sd)
			pa.Publish(4)
			pa.Publish(5)
			if !eqSeq(ga, []int{4, 5}) || !eqSeq(gd, []int{8, 10}) {
				c.Violationf("unsubscribe-on-foreign-publisher", rep, "Unsubscribe(s) was called on publishers s is NOT registered with (another publisher, the origin of its Map chain); the real registrations then received %v (want [4 5]) and %v (want [8 10])", ga, gd)
			}
		}
		// SubscribeOn(h) with deliveries still pending on a busy handler when the subscription list changes: what counts is
		// the registration at the time of the Publish call, not at the time the handler gets round to it
		{
			hb := fpgo.Handler.NewByCh(make(chan func(), 16))
			gate := make(chan struct{})
			hb.Post(func() { <-gate })
			pp := fpgo.PublisherNewGenerics[int]().SubscribeOn(hb)
			var mu sync.Mutex
			gotA, gotB, gotC := []int{}, []int{}, []int{}
			sA := pp.Subscribe(fpgo.Subscription[int]{OnNext: func(v int) { mu.Lock(); gotA = append(gotA, v); mu.Unlock() }})
			pp.Subscribe(fpgo.Subscription[int]{OnNext: func(v int) { mu.Lock(); gotB = append(gotB, v); mu.Unlock() }})
			pp.Publish(1) // returns; the deliveries wait behind the gate
			pp.Unsubscribe(sA)
			pp.Subscribe(fpgo.Subscription[int]{OnNext: func(v int) { mu.Lock(); gotC = append(gotC, v); mu.Unlock() }})
			pp.Publish(2)
			close(gate)
			fin := make(chan struct{})
			hb.Post(func() { close(fin) })
			select {
			case <-fin:
				mu.Lock()
				if !eqSeq(gotA, []int{1}) || !eqSeq(gotB, []int{1, 2}) || !eqSeq(gotC, []int{2}) {
					c.Violationf("subscribeOn:registration-at-publish-time", rep, "SubscribeOn(busy handler): A,B subscribed; Publish(1); Unsubscribe(A); Subscribe(C); Publish(2); handler released: A got %v (want [1]), B got %v (want [1 2]), C got %v (want [2])", gotA, gotB, gotC)
				}
				mu.Unlock()
			case <-time.After(20 * time.Second):
				c.Inconclusive("busy-handler probe did not finish in " + id)
			}
			hb.Close()
		}
		// SubscribeOn(h)
		var h *fpgo.HandlerDef
		if hcap == 0 {
			h = fpgo.Handler.New()
		} else {
			h = fpgo.Handler.NewByCh(make(chan func(), hcap))
		}
		hg := handlerGoid(h)
		w := &c10World{t0: time.Now()}
		p := fpgo.PublisherNewGenerics[int]().SubscribeOn(h)
		for s := 0; s < subscribers; s++ {
			s := s
			p.Subscribe(fpgo.Subscription[int]{OnNext: func(v int) { w.deliver(v, s) }})
		}
		for v := 0; v < values; v++ {
			p.Publish(v)
		}
		done := make(chan struct{})
		h.Post(func() { close(done) })
		vd, dump := core.AwaitOrStuck(done, 2*time.Second, 60*time.Second, director.Get().Total)
		if vd == "stuck" {
			c.Violationf("subscribeOn:stuck", map[string]any{"scenario": id, "goroutines": core.RepoGoroutineSummary(dump)}, "deliveries through the handler never completed")
			return
		}
		if vd != "done" {
			c.Inconclusive("watchdog in " + id)
			return
		}
		w.mu.Lock()
		log := append([]c10Delivery(nil), w.log...)
		w.mu.Unlock()
		counts := map[[2]int]int{}
		for _, dl := range log {
			counts[[2]int{dl.pub, dl.sub}]++
			if dl.goid != hg {
				c.Violationf("subscribeOn:wrong-goroutine", rep, "a delivery ran on goroutine %d, the handler's goroutine is %d", dl.goid, hg)
				break
			}
		}
		for v := 0; v < values; v++ {
			for s := 0; s < subscribers; s++ {
				if n := counts[[2]int{v, s}]; n != 1 {
					var row []int
					for s2 := 0; s2 < subscribers; s2++ {
						row = append(row, counts[[2]int{v, s2}])
					}
					c.Violationf("subscribeOn:not-exactly-once", rep, "with SubscribeOn(h) value %d was delivered %v times to the %d subscriptions (want 1 each)", v, row, subscribers)
					h.Close()
					return
				}
			}
		}
		h.Close()
		if c.WantSample() {
			c.Sample(rep)
		}
	}}
}

// c10MapAfterSubscribeOn: SubscribeOn(h) is configured on the origin BEFORE Map derives publishers from it (unbuffered
// and buffered handlers, chains of depth 1..3, SubscribeOn on a middle level as well): every level still delivers
// fn_L(..fn_1(v)) exactly once per published v, in order, and Publish never wedges the handler.
func c10MapAfterSubscribeOn(id string, depth, hcap, onLevel, values int) core.Scenario {
	return core.Scenario{ID: id, Class: "Publisher.SubscribeOn/Map", Run: func(c *core.Ctx) {
		rep := map[string]any{"scenario": id, "map_depth": depth, "handler_capacity": hcap, "SubscribeOn_set_on_level": onLevel, "values": values}
		c.Eval(int64(values))
		c.Distinct(id)
		var h *fpgo.HandlerDef
		if hcap == 0 {
			h = fpgo.Handler.New()
		} else {
			h = fpgo.Handler.NewByCh(make(chan func(), hcap))
		}
		defer func() { core.Catch(h.Close) }()
		root := fpgo.PublisherNewGenerics[int]()
		levels := []*fpgo.PublisherDef[int]{root}
		if onLevel == 0 {
			root.SubscribeOn(h)
		}
		for dpt := 0; dpt < depth; dpt++ {
			mul := dpt + 2
			nx := levels[dpt].Map(func(v int) int { return v*mul + 1 })
			if onLevel == dpt+1 {
				nx.SubscribeOn(h)
			}
			levels = append(levels, nx)
		}
		var mu sync.Mutex
		got := make([][]int, len(levels))
		total := 0
		for li, lv := range levels {
			li := li
			lv.Subscribe(fpgo.Subscription[int]{OnNext: func(v int) { mu.Lock(); got[li] = append(got[li], v); total++; mu.Unlock() }})
		}
		want := make([][]int, len(levels))
		done := make(chan struct{})
		go func() {
			defer close(done)
			for v := 0; v < values; v++ {
				root.Publish(v)
			}
			for {
				mu.Lock()
				n := total
				mu.Unlock()
				if n >= values*len(levels) {
					return
				}
				time.Sleep(200 * time.Microsecond)
			}
		}()
		for v := 0; v < values; v++ {
			x := v
			want[0] = append(want[0], x)
			for dpt := 0; dpt < depth; dpt++ {
				x = x*(dpt+2) + 1
				want[dpt+1] = append(want[dpt+1], x)
			}
		}
		verdict, dump := core.AwaitOrStuck(done, 2*time.Second, 60*time.Second, director.Get().Total)
		mu.Lock()
		defer mu.Unlock()
		if verdict == "watchdog" {
			c.Inconclusive("watchdog in " + id)
			return
		}
		for li := range levels {
			if !eqSeq(got[li], want[li]) {
				if verdict == "stuck" {
					rep["goroutines"] = core.RepoGoroutineSummary(dump)
				}
				c.Violationf("map:after-SubscribeOn", rep, "SubscribeOn(handler of capacity %d) was set on level %d before the Map chain (depth %d) was derived; level %d delivered %v, want %v (%s)", hcap, onLevel, depth, li, got[li], want[li], verdict)
				return
			}
		}
	}}
}

func c10Scenarios(c *core.Ctx, race bool) []core.Scenario {
	var out []core.Scenario
	for depth := 1; depth <= 3; depth++ {
		for _, hcap := range []int{0, 1, 4} {
			for onLevel := 0; onLevel < depth; onLevel++ {
				out = append(out, c10MapAfterSubscribeOn(fmt.Sprintf("map-after-subscribeOn-d%d-cap%d-on%d-race%v", depth, hcap, onLevel, race), depth, hcap, onLevel, 6))
			}
		}
	}
	if !race {
		// sequential re-entrant histories, grouped
		maxK := c.Pick(3, 4)
		for k := 1; k <= maxK; k++ {
			k := k
			all := c10SeqScenarios(k)
			chunk := 400
			for off := 0; off < len(all); off += chunk {
				off := off
				end := off + chunk
				if end > len(all) {
					end = len(all)
				}
				out = append(out, core.Scenario{ID: fmt.Sprintf("seq-k%d-%d", k, off), Class: "Publisher.sequential", Run: func(c *core.Ctx) {
					for _, acts := range all[off:end] {
						for pubs := 1; pubs <= 3; pubs++ {
							c.Eval(1)
							c.DistinctAdd(1)
							c10RunSequential(c, k, acts, pubs)
						}
					}
					c.Count("sequential_histories", int64(3*(end-off)))
					if off == 0 && k == 3 {
						c.Sample(map[string]any{"subscribers": 3, "actions": "[1 0 0] (subscriber 0 unsubscribes itself in its callback)", "publishes": "1..3"})
					}
				}})
			}
		}
	}
	n := c.Pick(150, 3000)
	if race {
		n = c.Pick(50, 500)
	}
	for i := 0; i < n; i++ {
		out = append(out, c10Concurrent(fmt.Sprintf("conc-%d-race%v", i, race), 1+i%4, 1+(i/4)%4, c.Pick(30, 120), i%3, c.Seed*19+int64(i)))
	}
	for depth := 1; depth <= 3; depth++ {
		for subs := 1; subs <= 4; subs++ {
			for hcap := 0; hcap <= 2; hcap++ {
				out = append(out, c10MapAndHandler(fmt.Sprintf("map%d-subs%d-hcap%d-race%v", depth, subs, hcap, race), depth, subs, hcap, 5+subs, c.Seed))
			}
		}
	}
	return out
}

func init() {
	core.Register(&core.Check{
		ID: "C10",
		Meta: func(c *core.Ctx) core.Meta {
			return core.Meta{
				Level:       "exploration",
				Rule:        "(a) every sequential re-entrant history with k <= 3 (thorough 4) subscribers whose callbacks are scripted from {nothing, unsubscribe self, unsubscribe j, subscribe a new one, publish on a derived publisher} x 1..3 publishes: per (publish, subscription) the count must be 1 if registered before and not touched during, 0 if unsubscribed before, <= 1 always, subscription order among the untouched; (b) 1..4 concurrent publishers x 1..4 subscribe/unsubscribe churners with call/return stamps (registered throughout => exactly 1, Unsubscribe returned before Publish called => 0, never twice, stable subscriptions in order), PRNG yields or a publisher parked at the snapshot / before a delivery while a Subscribe+Unsubscribe pair completes; (c) Map chains of depth 1..3 with two subscribers per level, values published on the root and directly on every derived level, subscription churn on derived publishers, and Subscribe / Unsubscribe / Subscribe(copy of the subscription value) on the same and another publisher; (d) SubscribeOn(h) with 1..4 subscribers and handler capacity 0..2: exactly once each, on h's goroutine, and with deliveries pending on a busy handler while subscriptions are removed/added (registration at the time of the Publish call decides), with Subscribe before and after SubscribeOn (plain and derived publishers), and Unsubscribe on publishers the subscription is not registered with; (b)-(d) repeated under -race (deciding for publisher.go frames). distinct_nontrivial = enumerated sequential histories + distinct concurrent scenarios / hook-trace signatures; (round 7) SubscribeOn(handler of capacity 0/1/4) set on the origin or a middle level BEFORE Map chains of depth 1..3 are derived: every level delivers in order, Publish never wedges the handler",
				Assumptions: []string{"a subscription added or removed during a Publish may or may not see that value", "SubscribeOn uses a handler other than the publishing goroutine's own"},
				Exhaustive:  true,
			}
		},
		Scenarios: c10Scenarios,
		Batch:     20, RaceToo: true, RaceBatch: 20, Par: 8, Timeout: 300e9,
		RaceRelevant: func(s core.RaceSig) bool { return strings.Contains(s.Text, "publisher.go") },
	})
}
