package props

import (
	"fmt"
	"math"
	"math/rand"
	"sort"

	fpgo "github.com/TeaEntityLab/fpGo/v2"
)

// (a) stability of the Ordered sorts is observable for floats: -0.0 and +0.0 compare equal but are different values.
// Oracle: bit-for-bit equality with a strict sort.SliceStable of the same input.
func c19SignedZeros(e *c19Env, rng *rand.Rand, n int) {
	nz := math.Copysign(0, -1)
	pool := []float64{nz, 0, nz, 0, 1, -1, math.Inf(1), math.Inf(-1), 2.5}
	lists := [][]float64{{0, nz}, {nz, 0}, {0, nz, 0, nz}, {1, 0, nz, -1, nz, 0}, {nz, nz, 0, 0}}
	for i := 0; i < n; i++ {
		l := make([]float64, 2+rng.Intn(10))
		for j := range l {
			l[j] = pool[rng.Intn(len(pool))]
		}
		lists = append(lists, l)
	}
	bits := func(l []float64) []uint64 {
		out := make([]uint64, len(l))
		for i, v := range l {
			out[i] = math.Float64bits(v)
		}
		return out
	}
	show := func(l []float64) string {
		s := "["
		for _, v := range l {
			if v == 0 && math.Signbit(v) {
				s += "-0 "
			} else {
				s += fmt.Sprint(v) + " "
			}
		}
		return s + "]"
	}
	for _, in := range lists {
		for _, asc := range []bool{true, false} {
			in, asc := in, asc
			ref := append([]float64(nil), in...)
			sort.SliceStable(ref, func(i, j int) bool {
				if asc {
					return ref[i] < ref[j]
				}
				return ref[i] > ref[j]
			})
			for _, api := range []string{"SortOrdered", "SortOrderedAscending/Descending"} {
				api := api
				e.run(api+"[float64 with signed zeros]", map[bool]string{true: "ascending", false: "descending"}[asc], show(in), true, func() string {
					var out []float64
					switch {
					case api == "SortOrdered":
						out = fpgo.SortOrdered(asc, append([]float64(nil), in...)...)
					case asc:
						out = fpgo.SortOrderedAscending(append([]float64(nil), in...)...)
					default:
						out = fpgo.SortOrderedDescending(append([]float64(nil), in...)...)
					}
					if !eqSeq(bits(out), bits(ref)) {
						return fmt.Sprintf("not-stable|input %s sorted %s gives %s; a stable sort keeps equal elements (-0 and +0 compare equal) in input order: %s", show(in), map[bool]string{true: "ascending", false: "descending"}[asc], show(out), show(ref))
					}
					return ""
				})
			}
		}
	}
}

// (b) field-name descriptors on a list whose static element type is an interface and whose records are of SEVERAL
// struct types that have the named fields at different positions: the field is resolved per record.
func c19MixedDynamicTypes(e *c19Env, lists [][]c19DRec, stacks [][]c19Key) {
	for li, in := range lists {
		if len(in) < 2 {
			continue
		}
		for si, st := range stacks {
			allField := true
			for _, k := range st {
				if !k.field {
					allField = false
				}
			}
			if !allField || (li+si)%5 != 0 {
				continue
			}
			in, st := in, st
			mixed := make([]any, len(in))
			for i, r := range in {
				switch (i + li) % 3 {
				case 0:
					mixed[i] = r
				case 1:
					mixed[i] = c19DRec2{Pad0: "p", K3: r.K3, ID: r.ID, K2: r.K2, K1: r.K1}
				default:
					mixed[i] = c19DRec3{ID: r.ID, K2: r.K2, K1: r.K1, K3: r.K3}
				}
			}
			e.run("SortDescriptorsBuilder[any].ToSortedList(records of three struct types)", c19StackString(st), in, true, func() string {
				b := fpgo.NewSortDescriptorsBuilder[any]()
				for _, k := range st {
					b = b.ThenWithFieldName(fmt.Sprintf("K%d", k.key), k.asc)
				}
				out2 := b.ToSortedList(mixed...)
				out := make([]c19DRec, len(out2))
				for i, r := range out2 {
					switch x := r.(type) {
					case c19DRec:
						out[i] = x
					case c19DRec2:
						out[i] = c19DRec{K1: x.K1, K2: x.K2, K3: x.K3, ID: x.ID}
					case c19DRec3:
						out[i] = c19DRec{K1: x.K1, K2: x.K2, K3: x.K3, ID: x.ID}
					}
				}
				less := func(a, b c19DRec) bool { return c19RefCompare(a, b, st) < 0 }
				return c19CheckSorted(in, out, func(r c19DRec) int { return r.ID }, less, false)
			})
		}
	}
}

type c19DRec3 struct {
	ID int
	K2 fpgo.ComparableString
	K1 fpgo.ComparableOrdered[int]
	K3 fpgo.ComparableOrdered[float64]
}

// (c) distinct record types whose names print alike (function-local types called "row", fields in another order): a
// field-name descriptor resolves the field per TYPE, whatever was sorted before in this process.
func c19RowsA(fields []string, asc []bool) (got, want []string) {
	type row struct {
		First, Last fpgo.ComparableString
		N           fpgo.ComparableOrdered[int]
	}
	in := []row{}
	for i, p := range [][3]string{{"b", "x", "2"}, {"a", "z", "1"}, {"c", "y", "3"}, {"a", "w", "4"}, {"b", "v", "0"}} {
		in = append(in, row{fpgo.NewComparableString(p[0]), fpgo.NewComparableString(p[1]), fpgo.NewComparableOrdered(i)})
	}
	b := fpgo.NewSortDescriptorsBuilder[row]()
	for i, f := range fields {
		b = b.ThenWithFieldName(f, asc[i])
	}
	for _, r := range b.ToSortedList(in...) {
		got = append(got, r.First.Val+"/"+r.Last.Val)
	}
	ref := append([]row(nil), in...)
	sort.SliceStable(ref, func(x, y int) bool { return c19RowLess(fields, asc, ref[x].First.Val, ref[x].Last.Val, ref[y].First.Val, ref[y].Last.Val) })
	for _, r := range ref {
		want = append(want, r.First.Val+"/"+r.Last.Val)
	}
	return
}

func c19RowsB(fields []string, asc []bool) (got, want []string) {
	type row struct {
		N           fpgo.ComparableOrdered[int]
		Last, First fpgo.ComparableString
	}
	in := []row{}
	for i, p := range [][3]string{{"b", "x", "2"}, {"a", "z", "1"}, {"c", "y", "3"}, {"a", "w", "4"}, {"b", "v", "0"}} {
		in = append(in, row{N: fpgo.NewComparableOrdered(i), First: fpgo.NewComparableString(p[0]), Last: fpgo.NewComparableString(p[1])})
	}
	b := fpgo.NewSortDescriptorsBuilder[row]()
	for i, f := range fields {
		b = b.ThenWithFieldName(f, asc[i])
	}
	for _, r := range b.ToSortedList(in...) {
		got = append(got, r.First.Val+"/"+r.Last.Val)
	}
	ref := append([]row(nil), in...)
	sort.SliceStable(ref, func(x, y int) bool { return c19RowLess(fields, asc, ref[x].First.Val, ref[x].Last.Val, ref[y].First.Val, ref[y].Last.Val) })
	for _, r := range ref {
		want = append(want, r.First.Val+"/"+r.Last.Val)
	}
	return
}

func c19RowLess(fields []string, asc []bool, f1, l1, f2, l2 string) bool {
	for i, f := range fields {
		a, b := f1, f2
		if f == "Last" {
			a, b = l1, l2
		}
		if a == b {
			continue
		}
		if asc[i] {
			return a < b
		}
		return a > b
	}
	return false
}

func c19SameNamedTypes(e *c19Env) {
	stacks := []struct {
		f []string
		a []bool
	}{{[]string{"First", "Last"}, []bool{true, true}}, {[]string{"Last"}, []bool{false}}, {[]string{"First", "Last"}, []bool{false, true}}, {[]string{"Last", "First"}, []bool{true, false}}}
	for round := 0; round < 2; round++ {
		for si, st := range stacks {
			st := st
			for _, which := range []string{"A", "B"} {
				which := which
				e.run("SortDescriptorsBuilder.ToSortedList(same-named local struct types)", fmt.Sprintf("%v %v on type row #%s", st.f, st.a, which), "5 rows", true, func() string {
					var got, want []string
					if (which == "A") == (si%2 == 0) {
						got, want = c19RowsA(st.f, st.a)
					} else {
						got, want = c19RowsB(st.f, st.a)
					}
					if !eqSeq(got, want) {
						return fmt.Sprintf("not-ordered|two distinct struct types both called row (fields in another order) sorted by field name in one process: got %v, want %v", got, want)
					}
					return ""
				})
			}
		}
	}
}
