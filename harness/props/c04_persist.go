package props

import (
	"fmt"
	"math/rand"
	"sort"
	"strings"
	"unsafe"

	fpgo "github.com/TeaEntityLab/fpGo/v2"

	"verifharness/internal/core"
)

// C04 — Stream / MapSet / StreamSet are persistent.
// Oracle: program-level reference model. A program is a sequence of operations over handles; the model
// maps every handle to an immutable value; after EVERY step all live handles are re-read through the
// public API and compared with the model. Handle identity follows the library's pointer identity.

type c04Kind int

const (
	kStream c04Kind = iota
	kSet
	kSS
)

type c04Val struct {
	seq []int         // stream
	set map[int]any   // set: key -> value
	ss  map[int][]int // stream set: key -> stream elements
	ssn map[int]bool  // stream set: key -> stream pointer is nil
}

type c04Handle struct {
	kind c04Kind
	obj  any
	val  c04Val
}

// family adapter: everything the monitor needs from one API family
type c04Fam struct {
	name string
	// streams
	newStream     func(l []int, spare int) any
	sPtr          func(s any) uintptr
	sToArray      func(s any) []int
	sLen          func(s any) int
	sGet          func(s any, i int) int
	sContains     func(s any, x int) bool
	sIsSubset     func(s, o any) bool
	sIsSuper      func(s, o any) bool
	sOp           func(op string, s any, k int, xs []int, others []any) any
	sDetached     func(s any) bool // writing into ToArray()'s result must not reach the stream
	removeInPlace bool
	// sets
	newSet     func(keys []int) any
	setPtr     func(s any) uintptr
	setRead    func(s any) map[int]any
	setOp      func(op string, s any, k int, xs []int, other any) any
	setSet     func(s any, key int, v int)
	setQuery   func(s any, x int) (containsKey, containsValue bool, get any, size int)
	setSub     func(s, o any) (sub, super bool)
	setDefault any // value given by the constructor
	setAddVal  any // value given by Add
	// stream sets
	newSS  func(m map[int][]int, nilKeys map[int]bool) any
	ssPtr  func(s any) uintptr
	ssRead func(s any) (map[int][]int, map[int]bool)
	ssOp   func(op string, s any, other any) any
	ssPoke func(s any) (undo func()) // overwrite the first element of every per-key stream (through the slice type itself)
}

func copyInts(l []int) []int { return append([]int(nil), l...) }

func spareSlice(l []int, spare int) []int {
	b := make([]int, len(l), len(l)+spare)
	copy(b, l)
	// fill the spare capacity with a sentinel so that an in-place append shows and does not reallocate
	full := b[:cap(b)]
	for i := len(l); i < len(full); i++ {
		full[i] = -99
	}
	return b
}

func genericFam() *c04Fam {
	type S = fpgo.StreamDef[int]
	type M = fpgo.MapSetDef[int, int]
	type SS = fpgo.StreamSetDef[int, int]
	f := &c04Fam{name: "generic", setDefault: 0, setAddVal: 0}
	f.newStream = func(l []int, spare int) any { return fpgo.StreamFromArray(spareSlice(l, spare)) }
	f.sPtr = func(s any) uintptr { return ptrOf(s.(*S)) }
	f.sToArray = func(s any) []int { return s.(*S).ToArray() }
	f.sLen = func(s any) int { return s.(*S).Len() }
	f.sGet = func(s any, i int) int { return s.(*S).Get(i) }
	f.sContains = func(s any, x int) bool { return s.(*S).Contains(x) }
	f.sDetached = func(s any) bool {
		st := s.(*S)
		a := st.ToArray()
		if len(a) == 0 {
			return true
		}
		old := (*st)[0]
		a[0] = old + 1000
		ok := (*st)[0] == old
		(*st)[0] = old
		return ok
	}
	arg := func(o any) *S {
		if o == nil {
			return nil
		}
		return o.(*S)
	}
	f.sIsSubset = func(s, o any) bool { return s.(*S).IsSubset(arg(o)) }
	f.sIsSuper = func(s, o any) bool { return s.(*S).IsSuperset(arg(o)) }
	f.sOp = func(op string, s any, k int, xs []int, others []any) any {
		r := s.(*S)
		switch op {
		case "Map":
			return r.Map(func(v, i int) int { return (v + i + k) % 3 })
		case "Filter":
			return r.Filter(func(v, i int) bool { return (v+i)%2 == k })
		case "Reject":
			return r.Reject(func(v, i int) bool { return (v+i)%2 == k })
		case "FilterNotNil":
			return r.FilterNotNil()
		case "Distinct":
			return r.Distinct()
		case "Append":
			return r.Append(xs...)
		case "Concat":
			if k == 0 {
				return r.Concat()
			}
			return r.Concat(xs, nil, copyInts(xs))
		case "Extend":
			var ss []*S
			for _, o := range others {
				ss = append(ss, arg(o))
			}
			return r.Extend(ss...)
		case "Remove":
			return r.Remove(k)
		case "RemoveItem":
			return r.RemoveItem(xs...)
		case "Reverse":
			return r.Reverse()
		case "Sort":
			if k == 0 {
				return r.Sort(func(a, b int) bool { return a < b })
			}
			return r.Sort(func(a, b int) bool { return a > b })
		case "SortByIndex":
			return r.SortByIndex(func(a, b int) bool { return (*r)[a] < (*r)[b] })
		case "Minus":
			return r.Minus(arg(others[0]))
		case "Intersection":
			return r.Intersection(arg(others[0]))
		case "Clone":
			return r.Clone()
		}
		panic("unknown stream op " + op)
	}
	f.newSet = func(keys []int) any { return fpgo.SetFrom[int, int](keys...) }
	asM := func(s any) *M {
		switch x := s.(type) {
		case *M:
			return x
		case fpgo.SetDef[int, int]:
			return x.AsMapSet()
		}
		panic(fmt.Sprintf("not a set: %T", s))
	}
	f.setPtr = func(s any) uintptr { return ptrOf(asM(s)) }
	f.setRead = func(s any) map[int]any {
		m := asM(s)
		o := map[int]any{}
		keys, vals := m.Keys(), m.Values()
		_ = vals
		for _, k := range keys {
			o[k] = m.Get(k)
		}
		if len(m.AsMap()) != len(keys) || m.Size() != len(keys) || len(vals) != len(keys) {
			o[-12345] = "Keys/Values/Size/AsMap disagree"
		}
		return o
	}
	setArg := func(o any) fpgo.SetDef[int, int] {
		if o == nil {
			return nil
		}
		return asM(o)
	}
	f.setOp = func(op string, s any, k int, xs []int, other any) any {
		m := asM(s)
		switch op {
		case "Add":
			return m.Add(xs...)
		case "RemoveKeys":
			return m.RemoveKeys(xs...)
		case "RemoveValues":
			return m.RemoveValues(xs...)
		case "Union":
			return m.Union(setArg(other))
		case "Intersection":
			return m.Intersection(setArg(other))
		case "Minus":
			return m.Minus(setArg(other))
		case "MapKey":
			return m.MapKey(func(x int) int { return (x + 1) % 4 })
		case "MapValue":
			return m.MapValue(func(v int) int { return v + 10 })
		case "Clone":
			return m.Clone()
		}
		panic("unknown set op " + op)
	}
	f.setSet = func(s any, key int, v int) { asM(s).Set(key, v) }
	f.setQuery = func(s any, x int) (bool, bool, any, int) {
		m := asM(s)
		return m.ContainsKey(x), m.ContainsValue(x), m.Get(x), m.Size()
	}
	f.setSub = func(s, o any) (bool, bool) { return asM(s).IsSubsetByKey(asM(o)), asM(s).IsSupersetByKey(asM(o)) }
	f.newSS = func(m map[int][]int, nilKeys map[int]bool) any {
		g := map[int]*S{}
		for k, l := range m {
			if nilKeys[k] {
				g[k] = nil
			} else {
				g[k] = fpgo.StreamFromArray(spareSlice(l, 2))
			}
		}
		return fpgo.StreamSetFromMap(g)
	}
	f.ssPtr = func(s any) uintptr { return ptrOf(s.(*SS)) }
	f.ssRead = func(s any) (map[int][]int, map[int]bool) {
		o, n := map[int][]int{}, map[int]bool{}
		for k, v := range s.(*SS).MapSetDef {
			if v == nil {
				n[k] = true
				o[k] = nil
			} else {
				o[k] = v.ToArray()
			}
		}
		return o, n
	}
	f.ssPoke = func(s any) func() {
		var undo []func()
		for _, v := range s.(*SS).MapSetDef {
			if v != nil && len(*v) > 0 {
				v, old := v, (*v)[0]
				(*v)[0] = old + 1000
				undo = append(undo, func() { (*v)[0] = old })
			}
		}
		return func() {
			for _, u := range undo {
				u()
			}
		}
	}
	f.ssOp = func(op string, s any, other any) any {
		a := s.(*SS)
		var b *SS
		if other != nil {
			b = other.(*SS)
		}
		switch op {
		case "Clone":
			return a.Clone()
		case "Union":
			return a.Union(b)
		case "Intersection":
			return a.Intersection(b)
		case "MinusStreams":
			return a.MinusStreams(b)
		case "Minus":
			var arg fpgo.SetDef[int, *S]
			if b != nil {
				arg = &b.MapSetDef
			}
			r := a.Minus(arg).AsMapSet()
			if r == &a.MapSetDef {
				return a
			}
			return &SS{MapSetDef: *r}
		}
		panic("unknown ss op " + op)
	}
	return f
}

func ifaceFam() *c04Fam {
	type S = fpgo.StreamForInterfaceDef
	type M = fpgo.SetForInterfaceDef
	type SS = fpgo.StreamSetForInterfaceDef
	f := &c04Fam{name: "interface", setDefault: nil, setAddVal: true, removeInPlace: true}
	f.newStream = func(l []int, spare int) any {
		b := make([]interface{}, len(l), len(l)+spare)
		for i, v := range l {
			b[i] = v
		}
		full := b[:cap(b)]
		for i := len(l); i < len(full); i++ {
			full[i] = -99
		}
		return fpgo.StreamForInterface.FromArray(b)
	}
	f.sPtr = func(s any) uintptr { return ptrOf(s.(*S)) }
	un := func(l []interface{}) []int {
		o := make([]int, len(l))
		for i, v := range l {
			x, ok := v.(int)
			if !ok {
				x = -777
			}
			o[i] = x
		}
		return o
	}
	f.sToArray = func(s any) []int { return un(s.(*S).ToArray()) }
	f.sLen = func(s any) int { return s.(*S).Len() }
	f.sGet = func(s any, i int) int {
		x, ok := s.(*S).Get(i).(int)
		if !ok {
			return -777
		}
		return x
	}
	f.sContains = func(s any, x int) bool { return s.(*S).Contains(x) }
	f.sDetached = func(s any) bool {
		st := s.(*S)
		a := st.ToArray()
		if len(a) == 0 {
			return true
		}
		old := (*st)[0]
		a[0] = "overwritten"
		ok := (*st)[0] == old
		(*st)[0] = old
		return ok
	}
	arg := func(o any) *S {
		if o == nil {
			return nil
		}
		return o.(*S)
	}
	f.sIsSubset = func(s, o any) bool { return s.(*S).IsSubset(arg(o)) }
	f.sIsSuper = func(s, o any) bool { return s.(*S).IsSuperset(arg(o)) }
	f.sOp = func(op string, s any, k int, xs []int, others []any) any {
		r := s.(*S)
		bx := box(xs)
		switch op {
		case "Map":
			return r.Map(func(v interface{}, i int) interface{} { return (v.(int) + i + k) % 3 })
		case "Filter":
			return r.Filter(func(v interface{}, i int) bool { return (v.(int)+i)%2 == k })
		case "Reject":
			return r.Reject(func(v interface{}, i int) bool { return (v.(int)+i)%2 == k })
		case "FilterNotNil":
			return r.FilterNotNil()
		case "Distinct":
			return r.Distinct()
		case "Append":
			return r.Append(bx...)
		case "Concat":
			if k == 0 {
				return r.Concat()
			}
			return r.Concat(bx, nil, box(copyInts(xs)))
		case "Extend":
			var ss []*S
			for _, o := range others {
				ss = append(ss, arg(o))
			}
			return r.Extend(ss...)
		case "Remove":
			return r.Remove(k)
		case "RemoveItem":
			return r.RemoveItem(bx...)
		case "Reverse":
			return r.Reverse()
		case "Sort":
			if k == 0 {
				return r.Sort(func(a, b interface{}) bool { return a.(int) < b.(int) })
			}
			return r.Sort(func(a, b interface{}) bool { return a.(int) > b.(int) })
		case "SortByIndex":
			return r.SortByIndex(func(a, b int) bool { return (*r)[a].(int) < (*r)[b].(int) })
		case "Minus":
			return r.Minus(arg(others[0]))
		case "Intersection":
			return r.Intersection(arg(others[0]))
		case "Clone":
			return r.Clone()
		}
		panic("unknown stream op " + op)
	}
	f.newSet = func(keys []int) any { return fpgo.SetForInterfaceFrom(box(keys)...) }
	f.setPtr = func(s any) uintptr { return ptrOf(s.(*M)) }
	f.setRead = func(s any) map[int]any {
		m := s.(*M)
		o := map[int]any{}
		keys := m.Keys()
		for _, k := range keys {
			ki, ok := k.(int)
			if !ok {
				ki = -777
			}
			o[ki] = m.Get(k)
		}
		if m.Size() != len(keys) || len(m.Values()) != len(keys) {
			o[-12345] = "Keys/Values/Size disagree"
		}
		return o
	}
	setArg := func(o any) *M {
		if o == nil {
			return nil
		}
		return o.(*M)
	}
	f.setOp = func(op string, s any, k int, xs []int, other any) any {
		m := s.(*M)
		bx := box(xs)
		switch op {
		case "Add":
			return m.Add(bx...)
		case "RemoveKeys":
			return m.RemoveKeys(bx...)
		case "RemoveValues":
			return m.RemoveValues(bx...)
		case "Union":
			return m.Union(setArg(other))
		case "Intersection":
			return m.Intersection(setArg(other))
		case "Minus":
			return m.Minus(setArg(other))
		case "MapKey":
			return m.MapKey(func(x interface{}) interface{} { return (x.(int) + 1) % 4 })
		case "MapValue":
			return m.MapValue(func(v interface{}) interface{} {
				if i, ok := v.(int); ok {
					return i + 10
				}
				return v
			})
		case "Clone":
			return m.Clone()
		}
		panic("unknown set op " + op)
	}
	f.setSet = func(s any, key int, v int) { s.(*M).Set(key, v) }
	f.setQuery = func(s any, x int) (bool, bool, any, int) {
		m := s.(*M)
		return m.ContainsKey(x), m.ContainsValue(x), m.Get(x), m.Size()
	}
	f.setSub = func(s, o any) (bool, bool) { return s.(*M).IsSubsetByKey(o.(*M)), s.(*M).IsSupersetByKey(o.(*M)) }
	f.newSS = func(m map[int][]int, nilKeys map[int]bool) any {
		g := map[interface{}]*S{}
		for k, l := range m {
			if nilKeys[k] {
				g[k] = nil
			} else {
				g[k] = f.newStream(l, 2).(*S)
			}
		}
		return fpgo.StreamSetForInterfaceFromMap(g)
	}
	f.ssPtr = func(s any) uintptr { return ptrOf(s.(*SS)) }
	f.ssRead = func(s any) (map[int][]int, map[int]bool) {
		o, n := map[int][]int{}, map[int]bool{}
		for k, v := range s.(*SS).SetForInterfaceDef {
			ki, ok := k.(int)
			if !ok {
				ki = -777
			}
			sp, _ := v.(*S)
			if v == nil || sp == nil {
				n[ki] = true
				o[ki] = nil
			} else {
				o[ki] = un(sp.ToArray())
			}
		}
		return o, n
	}
	f.ssPoke = func(s any) func() {
		var undo []func()
		for _, v := range s.(*SS).SetForInterfaceDef {
			sp, _ := v.(*S)
			if sp != nil && len(*sp) > 0 {
				sp, old := sp, (*sp)[0]
				(*sp)[0] = "poked"
				undo = append(undo, func() { (*sp)[0] = old })
			}
		}
		return func() {
			for _, u := range undo {
				u()
			}
		}
	}
	f.ssOp = func(op string, s any, other any) any {
		a := s.(*SS)
		var b *SS
		if other != nil {
			b = other.(*SS)
		}
		switch op {
		case "Clone":
			return a.Clone()
		case "Union":
			return a.Union(b)
		case "Intersection":
			return a.Intersection(b)
		case "MinusStreams":
			return a.MinusStreams(b)
		case "Minus":
			return a.Minus(b)
		}
		panic("unknown ss op " + op)
	}
	return f
}

// ---- model operations (pure)

func mDistinct(l []int) []int {
	var o []int
	seen := map[int]bool{}
	for _, v := range l {
		if !seen[v] {
			seen[v] = true
			o = append(o, v)
		}
	}
	return o
}

func mMinus(a, b []int) []int {
	var o []int
	for _, v := range a {
		if !has(b, v) {
			o = append(o, v)
		}
	}
	return o
}

func mIntersect(a, b []int) []int {
	var o []int
	for _, v := range mDistinct(a) {
		if has(b, v) {
			o = append(o, v)
		}
	}
	return o
}

// c04Step is one operation of a program.
type c04Step struct {
	kind   c04Kind
	op     string
	recv   int   // handle index
	k      int   // small integer parameter
	xs     []int // element arguments
	others []int // handle indices (-1 = nil collection)
}

func (s c04Step) String() string {
	return fmt.Sprintf("h%d.%s(k=%d xs=%v others=%v)", s.recv, s.op, s.k, s.xs, s.others)
}

type c04Machine struct {
	fam      *c04Fam
	handles  []*c04Handle
	trace    []string
	initDesc string
}

func (m *c04Machine) find(kind c04Kind, obj any) int {
	var p uintptr
	switch kind {
	case kStream:
		p = m.fam.sPtr(obj)
	case kSet:
		p = m.fam.setPtr(obj)
	default:
		p = m.fam.ssPtr(obj)
	}
	for i, h := range m.handles {
		if h.kind != kind {
			continue
		}
		var q uintptr
		switch kind {
		case kStream:
			q = m.fam.sPtr(h.obj)
		case kSet:
			q = m.fam.setPtr(h.obj)
		default:
			q = m.fam.ssPtr(h.obj)
		}
		if p == q {
			return i
		}
	}
	return -1
}

// verify re-reads every live handle and compares it with the model. Returns "" or a description.
func (m *c04Machine) verify() string {
	f := m.fam
	for i, h := range m.handles {
		switch h.kind {
		case kStream:
			got := f.sToArray(h.obj)
			if !eqSeq(got, h.val.seq) {
				return fmt.Sprintf("handle h%d (stream) now holds %v, model %v", i, got, h.val.seq)
			}
			if f.sLen(h.obj) != len(h.val.seq) {
				return fmt.Sprintf("handle h%d Len()=%d, model %d", i, f.sLen(h.obj), len(h.val.seq))
			}
			for j := range h.val.seq {
				if f.sGet(h.obj, j) != h.val.seq[j] {
					return fmt.Sprintf("handle h%d Get(%d)=%d, model %d", i, j, f.sGet(h.obj, j), h.val.seq[j])
				}
			}
			for x := -99; x <= 3; x++ {
				if x < 0 && x != -99 {
					continue
				}
				if f.sContains(h.obj, x) != has(h.val.seq, x) {
					return fmt.Sprintf("handle h%d Contains(%d)=%v, model %v", i, x, f.sContains(h.obj, x), has(h.val.seq, x))
				}
			}
			// ToArray must be detached
			if !f.sDetached(h.obj) {
				return fmt.Sprintf("handle h%d: writing into the slice returned by ToArray changes the stream (not a detached copy)", i)
			}
		case kSet:
			got := f.setRead(h.obj)
			if len(got) != len(h.val.set) {
				return fmt.Sprintf("handle h%d (set) now holds %v, model %v", i, got, h.val.set)
			}
			for k, v := range h.val.set {
				if w, ok := got[k]; !ok || w != v {
					return fmt.Sprintf("handle h%d (set) now holds %v, model %v", i, got, h.val.set)
				}
			}
			for x := 0; x <= 4; x++ {
				ck, _, g, sz := f.setQuery(h.obj, x)
				_, mk := h.val.set[x]
				if ck != mk || sz != len(h.val.set) {
					return fmt.Sprintf("handle h%d ContainsKey(%d)=%v Size=%d, model %v %d", i, x, ck, sz, mk, len(h.val.set))
				}
				if mk && g != h.val.set[x] {
					return fmt.Sprintf("handle h%d Get(%d)=%v, model %v", i, x, g, h.val.set[x])
				}
			}
		case kSS:
			got, gn := f.ssRead(h.obj)
			if !eqMapSeq(got, h.val.ss) {
				return fmt.Sprintf("handle h%d (stream set) now holds %v, model %v", i, got, h.val.ss)
			}
			for k := range h.val.ss {
				if gn[k] != h.val.ssn[k] && len(h.val.ss[k]) > 0 {
					return fmt.Sprintf("handle h%d (stream set) key %d nil-ness differs", i, k)
				}
			}
		}
	}
	return ""
}

// apply executes a step on the real objects and on the model. Returns a violation description or "".
func (m *c04Machine) apply(st c04Step) (what string) {
	f := m.fam
	h := m.handles[st.recv]
	m.trace = append(m.trace, st.String())
	other := func(i int) *c04Handle {
		if i < 0 {
			return nil
		}
		return m.handles[i]
	}
	objOf := func(x *c04Handle) any {
		if x == nil {
			return nil
		}
		return x.obj
	}
	var res any
	var mv c04Val
	resKind := st.kind
	inPlace := false
	sameAsRecv := false // model says the operation returns the receiver itself
	switch st.kind {
	case kStream:
		a := h.val.seq
		var os []any
		var ovals [][]int
		for _, oi := range st.others {
			os = append(os, objOf(other(oi)))
			if oh := other(oi); oh != nil {
				ovals = append(ovals, oh.val.seq)
			} else {
				ovals = append(ovals, nil)
			}
		}
		res = f.sOp(st.op, h.obj, st.k, st.xs, os)
		switch st.op {
		case "Map":
			for i, v := range a {
				mv.seq = append(mv.seq, (v+i+st.k)%3)
			}
		case "Filter", "Reject":
			for i, v := range a {
				if ((v+i)%2 == st.k) == (st.op == "Filter") {
					mv.seq = append(mv.seq, v)
				}
			}
		case "FilterNotNil", "Clone":
			mv.seq = copyInts(a)
		case "Distinct":
			mv.seq = mDistinct(a)
		case "Append":
			mv.seq = append(copyInts(a), st.xs...)
		case "Concat":
			if st.k == 0 {
				sameAsRecv = true
			} else {
				mv.seq = append(append(copyInts(a), st.xs...), st.xs...)
			}
		case "Extend":
			if len(st.others) == 0 {
				sameAsRecv = true
			} else {
				mv.seq = copyInts(a)
				for _, ov := range ovals {
					mv.seq = append(mv.seq, ov...)
				}
			}
		case "Remove":
			if st.k >= 0 && st.k < len(a) {
				mv.seq = append(copyInts(a[:st.k]), a[st.k+1:]...)
				if f.removeInPlace {
					inPlace = true
				}
			} else {
				sameAsRecv = true
			}
		case "RemoveItem":
			if len(st.xs) == 0 {
				sameAsRecv = true
			} else {
				mv.seq = mMinus(a, st.xs)
			}
		case "Reverse":
			for i := len(a) - 1; i >= 0; i-- {
				mv.seq = append(mv.seq, a[i])
			}
		case "Sort":
			mv.seq = copyInts(a)
			if st.k == 0 {
				sort.SliceStable(mv.seq, func(i, j int) bool { return mv.seq[i] < mv.seq[j] })
			} else {
				sort.SliceStable(mv.seq, func(i, j int) bool { return mv.seq[i] > mv.seq[j] })
			}
		case "SortByIndex":
			mv.seq = copyInts(a)
			sort.SliceStable(mv.seq, func(i, j int) bool { return mv.seq[i] < mv.seq[j] })
		case "Minus":
			if other(st.others[0]) == nil || len(ovals[0]) == 0 {
				sameAsRecv = true
			} else {
				mv.seq = mMinus(a, ovals[0])
			}
		case "Intersection":
			if other(st.others[0]) != nil && len(ovals[0]) > 0 {
				mv.seq = mIntersect(a, ovals[0])
			}
		}
	case kSet:
		a := h.val.set
		var oh *c04Handle
		if len(st.others) > 0 {
			oh = other(st.others[0])
		}
		if st.op == "Set" {
			// documented in-place mutator of a set
			f.setSet(h.obj, st.xs[0], st.xs[1])
			nv := map[int]any{}
			for k, v := range a {
				nv[k] = v
			}
			nv[st.xs[0]] = st.xs[1]
			h.val = c04Val{set: nv}
			return ""
		}
		res = f.setOp(st.op, h.obj, st.k, st.xs, objOf(oh))
		cp := func() map[int]any {
			o := map[int]any{}
			for k, v := range a {
				o[k] = v
			}
			return o
		}
		switch st.op {
		case "Add":
			if len(st.xs) == 0 {
				sameAsRecv = true
			} else {
				mv.set = cp()
				for _, x := range st.xs {
					if _, ok := mv.set[x]; !ok {
						mv.set[x] = f.setAddVal
					}
				}
			}
		case "RemoveKeys":
			if len(st.xs) == 0 {
				sameAsRecv = true
			} else {
				mv.set = cp()
				for _, x := range st.xs {
					delete(mv.set, x)
				}
			}
		case "RemoveValues":
			if len(st.xs) == 0 {
				sameAsRecv = true
			} else {
				mv.set = cp()
				for k, v := range a {
					if vi, ok := v.(int); ok && has(st.xs, vi) {
						delete(mv.set, k)
					}
				}
			}
		case "Union":
			if oh == nil || len(oh.val.set) == 0 {
				sameAsRecv = true
			} else {
				mv.set = cp()
				for k, v := range oh.val.set {
					mv.set[k] = v
				}
			}
		case "Intersection":
			mv.set = map[int]any{}
			if oh != nil && len(oh.val.set) > 0 {
				for k, v := range a {
					if _, ok := oh.val.set[k]; ok {
						mv.set[k] = v
					}
				}
			}
		case "Minus":
			if oh == nil || len(oh.val.set) == 0 {
				sameAsRecv = true
			} else {
				mv.set = map[int]any{}
				for k, v := range a {
					if _, ok := oh.val.set[k]; !ok {
						mv.set[k] = v
					}
				}
			}
		case "MapKey":
			mv.set = map[int]any{}
			for k, v := range a {
				mv.set[(k+1)%4] = v
			}
		case "MapValue":
			mv.set = map[int]any{}
			for k, v := range a {
				if vi, ok := v.(int); ok {
					mv.set[k] = vi + 10
				} else {
					mv.set[k] = v
				}
			}
		case "Clone":
			mv.set = cp()
		}
	case kSS:
		a := h.val
		var oh *c04Handle
		if len(st.others) > 0 {
			oh = other(st.others[0])
		}
		res = f.ssOp(st.op, h.obj, objOf(oh))
		if st.op == "Clone" {
			// a clone is deep: overwriting the clone's per-key streams must not be visible through the original
			undo := f.ssPoke(res)
			got, _ := f.ssRead(h.obj)
			undo()
			if !eqMapSeq(got, h.val.ss) {
				return fmt.Sprintf("writing into the per-key streams of the clone changed the original to %v (model %v)", got, h.val.ss)
			}
		}
		mv.ss, mv.ssn = map[int][]int{}, map[int]bool{}
		emptyArg := oh == nil || len(oh.val.ss) == 0
		switch st.op {
		case "Clone":
			for k, v := range a.ss {
				mv.ss[k] = copyInts(v)
				mv.ssn[k] = a.ssn[k]
			}
		case "Union":
			if emptyArg {
				sameAsRecv = true
			} else {
				for k, v := range a.ss {
					mv.ss[k], mv.ssn[k] = v, a.ssn[k]
				}
				for k, v := range oh.val.ss { // the argument's stream wins for common keys ...
					mv.ss[k], mv.ssn[k] = v, oh.val.ssn[k]
				}
				for k, v := range a.ss { // ... unless it is non-empty: then the streams are concatenated
					if v2, ok := oh.val.ss[k]; ok && len(v2) > 0 {
						mv.ss[k], mv.ssn[k] = append(copyInts(v), v2...), false
					}
				}
			}
		case "Intersection":
			if !emptyArg {
				for k, v := range a.ss {
					v2, ok := oh.val.ss[k]
					if !ok {
						continue
					}
					if len(v2) > 0 {
						mv.ss[k], mv.ssn[k] = mIntersect(v, v2), false
					} else {
						mv.ss[k], mv.ssn[k] = v, a.ssn[k]
					}
				}
			}
		case "MinusStreams":
			if !emptyArg {
				for k, v := range a.ss {
					if v2, ok := oh.val.ss[k]; ok && len(v2) > 0 {
						mv.ss[k], mv.ssn[k] = mMinus(v, v2), false
					} else {
						mv.ss[k], mv.ssn[k] = copyInts(v), a.ssn[k]
					}
				}
			}
		case "Minus":
			if emptyArg {
				sameAsRecv = true
			} else {
				for k, v := range a.ss {
					if _, ok := oh.val.ss[k]; !ok {
						mv.ss[k], mv.ssn[k] = v, a.ssn[k]
					}
				}
			}
		}
	}
	// where did the result land?
	idx := m.find(resKind, res)
	if inPlace {
		// documented in-place mutator: the receiver changes and must be the returned object
		h.val = mv
		if idx != st.recv {
			return fmt.Sprintf("%s is an in-place mutator but did not return its receiver", st.op)
		}
		return ""
	}
	if idx >= 0 {
		// the library returned an existing object: it is that handle; its value must already be the result
		want := mv
		if sameAsRecv {
			want = m.handles[st.recv].val
		}
		hv := m.handles[idx].val
		okv := false
		switch resKind {
		case kStream:
			okv = eqSeq(hv.seq, want.seq)
		case kSet:
			okv = len(hv.set) == len(want.set)
			for k, v := range want.set {
				if hv.set[k] != v {
					okv = false
				}
			}
		default:
			okv = eqMapSeq(hv.ss, want.ss)
		}
		if !okv {
			return fmt.Sprintf("%s returned the existing object h%d whose value differs from the operation's result", st.op, idx)
		}
		return ""
	}
	if sameAsRecv {
		mv = m.handles[st.recv].val // a fresh object with the receiver's value is acceptable as well
	}
	m.handles = append(m.handles, &c04Handle{kind: resKind, obj: res, val: mv})
	return ""
}

// runProgram executes the steps and checks persistence after every step.
func (m *c04Machine) run(c *core.Ctx, steps []c04Step) bool {
	for _, st := range steps {
		var what string
		pv, where := core.Catch(func() {
			what = m.apply(st)
			if what == "" {
				what = m.verify()
			}
		})
		if pv != nil {
			c.Violationf(fmt.Sprintf("%s:%s:panic:%s", m.fam.name, st.op, core.NormalizePanic(fmt.Sprint(pv))), map[string]any{"family": m.fam.name, "program": m.trace},
				"[%s] program %v panics at %s: %v (%s)", m.fam.name, m.trace, st, pv, where)
			return false
		}
		if what != "" {
			c.Violationf(fmt.Sprintf("%s:%s:%s", m.fam.name, kindName(st.kind), st.op), map[string]any{"family": m.fam.name, "program": m.trace, "initial": m.initialDesc()},
				"[%s] after program %s: %s (initial handles: %s)", m.fam.name, strings.Join(m.trace, "; "), what, m.initialDesc())
			return false
		}
	}
	return true
}

func kindName(k c04Kind) string { return [...]string{"stream", "set", "streamset"}[k] }

func (m *c04Machine) initialDesc() string { return m.initDesc }

type c04Init struct {
	streams [][]int
	sets    [][]int
	sss     []map[int][]int
}

func (m *c04Machine) setup(in c04Init) {
	var d []string
	for _, l := range in.streams {
		m.handles = append(m.handles, &c04Handle{kind: kStream, obj: m.fam.newStream(l, 3), val: c04Val{seq: copyInts(l)}})
		d = append(d, fmt.Sprintf("h%d=stream%v", len(m.handles)-1, l))
	}
	for _, ks := range in.sets {
		mv := map[int]any{}
		for _, k := range ks {
			mv[k] = m.fam.setDefault
		}
		h := &c04Handle{kind: kSet, obj: m.fam.newSet(ks), val: c04Val{set: mv}}
		m.handles = append(m.handles, h)
		d = append(d, fmt.Sprintf("h%d=set%v", len(m.handles)-1, ks))
	}
	for _, sm := range in.sss {
		ss, ssn := map[int][]int{}, map[int]bool{}
		for k, v := range sm {
			ss[k] = copyInts(v)
			if v == nil {
				ssn[k] = true
			}
		}
		m.handles = append(m.handles, &c04Handle{kind: kSS, obj: m.fam.newSS(sm, ssn), val: c04Val{ss: ss, ssn: ssn}})
		d = append(d, fmt.Sprintf("h%d=streamset%v", len(m.handles)-1, sm))
	}
	m.initDesc = strings.Join(d, " ")
}

// stepsFor enumerates every step applicable to the current handles (stream operations only when
// streamsOnly is set).
func (m *c04Machine) stepsFor(full bool) []c04Step {
	var out []c04Step
	for ri, h := range m.handles {
		var sameKind []int
		for oi, o := range m.handles {
			if o.kind == h.kind {
				sameKind = append(sameKind, oi)
			}
		}
		switch h.kind {
		case kStream:
			n := len(h.val.seq)
			add := func(op string, k int, xs []int, others []int) {
				out = append(out, c04Step{kind: kStream, op: op, recv: ri, k: k, xs: xs, others: others})
			}
			add("Map", 1, nil, nil)
			add("Filter", 0, nil, nil)
			add("Reject", 0, nil, nil)
			add("Distinct", 0, nil, nil)
			add("Append", 0, []int{2}, nil)
			add("Concat", 0, nil, nil)
			add("Concat", 1, []int{1, 0}, nil)
			add("Reverse", 0, nil, nil)
			add("Sort", 0, nil, nil)
			add("SortByIndex", 0, nil, nil)
			add("Clone", 0, nil, nil)
			add("RemoveItem", 0, []int{1}, nil)
			for i := -1; i <= n; i++ {
				add("Remove", i, nil, nil)
			}
			if full {
				add("Map", 0, nil, nil)
				add("Filter", 1, nil, nil)
				add("FilterNotNil", 0, nil, nil)
				add("Append", 0, nil, nil)
				add("Append", 0, []int{0, 1}, nil)
				add("Sort", 1, nil, nil)
				add("RemoveItem", 0, nil, nil)
				add("RemoveItem", 0, []int{0, 2}, nil)
				add("Remove", -2, nil, nil)
				add("Remove", n+1, nil, nil)
				add("Extend", 0, nil, nil)
			}
			for _, oi := range sameKind {
				add("Minus", 0, nil, []int{oi})
				add("Intersection", 0, nil, []int{oi})
				add("Extend", 0, nil, []int{oi})
				if full {
					add("Extend", 0, nil, []int{oi, -1, ri})
				}
			}
			if full {
				add("Minus", 0, nil, []int{-1})
				add("Intersection", 0, nil, []int{-1})
			}
		case kSet:
			add := func(op string, xs []int, others []int) {
				out = append(out, c04Step{kind: kSet, op: op, recv: ri, xs: xs, others: others})
			}
			add("Add", []int{3}, nil)
			add("Add", []int{0, 1}, nil)
			add("Add", nil, nil)
			add("RemoveKeys", []int{1}, nil)
			add("RemoveKeys", nil, nil)
			add("RemoveValues", []int{0}, nil)
			add("RemoveValues", []int{7, 10}, nil)
			add("RemoveValues", nil, nil)
			add("MapKey", nil, nil)
			add("MapValue", nil, nil)
			add("Clone", nil, nil)
			add("Set", []int{2, 7}, nil)
			add("Set", []int{0, 0}, nil)
			for _, oi := range sameKind {
				add("Union", nil, []int{oi})
				add("Intersection", nil, []int{oi})
				add("Minus", nil, []int{oi})
			}
			add("Union", nil, []int{-1})
			add("Intersection", nil, []int{-1})
			add("Minus", nil, []int{-1})
		case kSS:
			add := func(op string, others []int) { out = append(out, c04Step{kind: kSS, op: op, recv: ri, others: others}) }
			add("Clone", nil)
			for _, oi := range sameKind {
				add("Union", []int{oi})
				add("Intersection", []int{oi})
				add("MinusStreams", []int{oi})
				add("Minus", []int{oi})
			}
			add("Union", []int{-1})
			add("Intersection", []int{-1})
			add("MinusStreams", []int{-1})
			add("Minus", []int{-1})
		}
	}
	return out
}

func ptrOf[T any](p *T) uintptr { return uintptr(unsafe.Pointer(p)) }

func runC04(c *core.Ctx) {
	fams := []func() *c04Fam{genericFam, ifaceFam}
	// initial configurations
	lists := allLists([]int{0, 1, 2}, 3)
	var inits []c04Init
	for i := 0; i < len(lists); i += 3 {
		for j := 1; j < len(lists); j += 7 {
			inits = append(inits, c04Init{streams: [][]int{lists[i], lists[j]}})
		}
	}
	inits = append(inits,
		c04Init{streams: [][]int{{1, 2, 0, 1}, {}}},
		c04Init{streams: [][]int{{0, 1, 2, 0}, {2, 1, 1}}},
		c04Init{sets: [][]int{{0, 1}, {1, 2}}},
		c04Init{sets: [][]int{{}, {0, 1, 2}}},
		c04Init{sets: [][]int{{3}, {3}}},
		c04Init{sss: []map[int][]int{{0: {0, 1}, 1: {2}}, {0: {1}, 2: {0}}}},
		c04Init{sss: []map[int][]int{{0: {}, 1: nil}, {0: {1, 1}, 1: {0}}}},
		c04Init{sss: []map[int][]int{{}, {0: {1}}}},
		c04Init{sss: []map[int][]int{{0: {1, 2, 1}}, {0: {}}}},
	)
	depth := c.Pick(2, 3)
	type job struct {
		fam  int
		init int
	}
	var jobs []job
	for fi := range fams {
		for ii := range inits {
			jobs = append(jobs, job{fi, ii})
		}
	}
	parallelFor(len(jobs), func(w, ji int) {
		j := jobs[ji]
		// DFS over programs: re-execute the prefix for each extension (objects are mutable)
		var rec func(prefix []c04Step, d int)
		rec = func(prefix []c04Step, d int) {
			m := &c04Machine{fam: fams[j.fam]()}
			m.setup(inits[j.init])
			if !m.run(c, prefix) {
				return
			}
			if d == 0 {
				return
			}
			steps := m.stepsFor(d == depth || depth <= 2)
			for _, st := range steps {
				next := append(append([]c04Step(nil), prefix...), st)
				if d == 1 {
					m2 := &c04Machine{fam: fams[j.fam]()}
					m2.setup(inits[j.init])
					c.Eval(1)
					c.DistinctAdd(1)
					if !m2.run(c, next) {
						continue
					}
				} else {
					rec(next, d-1)
				}
			}
		}
		rec(nil, depth)
	})
	c.Note("exhaustive_programs", fmt.Sprintf("every program of depth <= %d over the operation table, from %d initial configurations, both families", depth, len(inits)))
	// PRNG programs
	nprog := c.Pick(20000, 400000)
	plen := c.Pick(10, 24)
	seedBase := c.Seed
	parallelFor(nprog, func(w, pi int) {
		rng := rand.New(rand.NewSource(seedBase*7919 + int64(pi)))
		fam := fams[pi%2]()
		m := &c04Machine{fam: fam}
		in := inits[rng.Intn(len(inits))]
		// mixed initial configuration
		mix := c04Init{streams: [][]int{randList(rng, 5), randList(rng, 3)}, sets: [][]int{randList(rng, 3), randList(rng, 2)}}
		mix.sss = in.sss
		if len(mix.sss) == 0 {
			mix.sss = []map[int][]int{{0: randList(rng, 3), 1: randList(rng, 2)}, {0: randList(rng, 2), 2: randList(rng, 2)}}
		}
		m.setup(mix)
		var steps []c04Step
		c.Eval(1)
		c.DistinctHash(uint64(seedBase*7919 + int64(pi)))
		for s := 0; s < plen; s++ {
			cand := m.stepsFor(true)
			st := cand[rng.Intn(len(cand))]
			steps = append(steps, st)
			if !m.run(c, []c04Step{st}) {
				return
			}
			if len(m.handles) > 14 {
				break
			}
		}
		if pi < 3 {
			c.Sample(map[string]any{"family": fam.name, "initial": m.initDesc, "program": m.trace})
		}
	})
	c.Count("random_programs", int64(nprog))
	c04Direct(c)
}

func randList(rng *rand.Rand, maxLen int) []int {
	l := make([]int, rng.Intn(maxLen+1))
	for i := range l {
		l[i] = rng.Intn(3)
	}
	return l
}

func init() {
	core.Register(&core.Check{
		ID: "C04",
		Meta: func(c *core.Ctx) core.Meta {
			return core.Meta{
				Level: "exploration",
				Rule: "program-level reference model: every program of depth <= D (D=2 quick, 3 thorough) over the operation table (Map, Filter, Reject, FilterNotNil, Distinct, Append, Concat, Extend, Remove(i in [-2,len+1]), RemoveItem, Reverse, Sort, SortByIndex, Minus, Intersection, Clone; Add, RemoveKeys, RemoveValues, Union, Intersection, Minus, MapKey, MapValue, Set, Clone; StreamSet Clone, Union, Intersection, MinusStreams, Minus) from a grid of initial collections, for the generic and the interface{} family, plus PRNG programs of length 10 (24) over mixed stream/set/stream-set handles; after EVERY step every live handle is re-read (ToArray, Len, Get(i), Contains, Keys/Values/Get/Size, per-key streams) and compared with the model, and the slice returned by ToArray is overwritten to test detachment; direct probes: Sort / Map / Filter / Reject whose callback panics at its k-th invocation (every k; the caller recovers: receiver and earlier results must be untouched), and Concat / Extend / Append with arguments spread from a slice the caller keeps (empty and nil parts in every position; argument list compared before/after, the same call repeated), Filter / Reject with a predicate that remembers (first occurrence; call log once per element), Sort of 2..100 records that tie on the key (the stable order is the prescribed one), SortByIndex with comparators reading the elements through Get / the receiver's slice / a slice header taken before the call, interface{} streams whose elements are rows ([]interface{} values) through From / Append / Concat. " +
					"distinct_nontrivial = distinct programs (exhaustive ones are distinct by construction, PRNG ones by generator index)",
				Assumptions: []string{"handle identity = pointer identity (an operation that returns an existing object is that handle)",
					"in-place mutators: Set on sets and Remove on the interface{} stream (must return the receiver)",
					"streams stored inside a StreamSet are not handles and are never mutated in place (sharing them between a set and its results is by design)",
					"degenerate StreamSet cases (empty/nil argument or per-key stream) follow the code's explicit guards",
					"every constructed stream gets a fresh backing array with sentinel-filled spare capacity"},
				Exhaustive: true,
			}
		},
		Run: runC04,
	})
}
