package props

import (
	"fmt"
	"math"
	"sort"

	fpgo "github.com/TeaEntityLab/fpGo/v2"

	"verifharness/internal/core"
)

// C03 extras: (a) callbacks with memory. The documented definitions apply the callback once per element, in order;
// a callback that counts or remembers (first occurrence, budget) makes a second or re-ordered application visible.
// (b) maps whose keys cannot be looked up again (NaN): copying helpers must carry the VALUES over, not re-read them.

func c03Extra(c *core.Ctx) {
	viol := func(helper, what string, format string, args ...any) {
		c.Violationf(helper+":"+what, map[string]any{"helper": helper}, "%s: %s", helper, fmt.Sprintf(format, args...))
	}
	lists := [][]int{{}, {7}, {1, 1}, {1, 1, 2, 3, 2, 4}, {10, 20, 30, 40, 50}, {3, 3, 3, 3}, {5, 4, 3, 2, 1, 5, 4, 3, 2, 1, 0, 9, 8}}
	long := make([]int, 1500)
	for i := range long {
		long[i] = (i * 7) % 23
	}
	lists = append(lists, long)
	for _, l := range lists {
		l := l
		n := len(l)
		name := fmt.Sprint(l)
		if n > 20 {
			name = fmt.Sprintf("list of %d elements", n)
		}
		// call logs: exactly one application per element, in order
		type logged struct {
			helper string
			run    func(note func(x int, idx int)) // idx < 0 when the callback has no index argument
		}
		for _, lg := range []logged{
			{"Map", func(note func(int, int)) { fpgo.Map(func(x int) int { note(x, -1); return x }, l...) }},
			{"MapIndexed", func(note func(int, int)) { fpgo.MapIndexed(func(x int, i int) int { note(x, i); return x }, l...) }},
			{"Filter", func(note func(int, int)) { fpgo.Filter(func(x int, i int) bool { note(x, i); return x%2 == 0 }, l...) }},
			{"Reject", func(note func(int, int)) { fpgo.Reject(func(x int, i int) bool { note(x, i); return x%2 == 0 }, l...) }},
			{"Partition", func(note func(int, int)) { fpgo.Partition(func(x int) bool { note(x, -1); return x%2 == 0 }, l...) }},
			{"Reduce", func(note func(int, int)) { fpgo.Reduce(func(a int, x int) int { note(x, -1); return a + x }, 0, l...) }},
			{"ReduceIndexed", func(note func(int, int)) {
				fpgo.ReduceIndexed(func(a int, x int, i int) int { note(x, i); return a + x }, 0, l...)
			}},
			{"GroupBy", func(note func(int, int)) { fpgo.GroupBy(func(x int) int { note(x, -1); return x % 3 }, l...) }},
			{"UniqBy", func(note func(int, int)) { fpgo.UniqBy(func(x int) int { note(x, -1); return x % 3 }, l...) }},
			{"Stream.Map", func(note func(int, int)) {
				fpgo.StreamFromArray(append([]int(nil), l...)).Map(func(x int, i int) int { note(x, i); return x })
			}},
			{"Stream.Filter", func(note func(int, int)) {
				fpgo.StreamFromArray(append([]int(nil), l...)).Filter(func(x int, i int) bool { note(x, i); return x%2 == 1 })
			}},
			{"Stream.Reject", func(note func(int, int)) {
				fpgo.StreamFromArray(append([]int(nil), l...)).Reject(func(x int, i int) bool { note(x, i); return x%2 == 1 })
			}},
			{"StreamForInterface.Filter", func(note func(int, int)) {
				fpgo.StreamForInterface.FromArrayInt(append([]int(nil), l...)).Filter(func(x interface{}, i int) bool { note(x.(int), i); return x.(int)%2 == 1 })
			}},
		} {
			c.Eval(1)
			c.DistinctAdd(1)
			var xs, is []int
			pv, where := core.Catch(func() { lg.run(func(x, i int) { xs = append(xs, x); is = append(is, i) }) })
			if pv != nil {
				viol(lg.helper, "panic", "panics on %s: %v at %s", name, pv, where)
				continue
			}
			ok := len(xs) == n
			for k := 0; ok && k < n; k++ {
				if xs[k] != l[k] || (is[k] >= 0 && is[k] != k) {
					ok = false
				}
			}
			if !ok {
				show := fmt.Sprint(xs)
				if len(xs) > 24 {
					show = fmt.Sprintf("%d calls", len(xs))
				}
				viol(lg.helper, "callback-not-once-per-element-in-order", "on %s the callback was applied to %s (indices %v); the definition applies it once per element, in order", name, show, trunc(is, 24))
			}
		}
		// callbacks with memory: results against a sequential model
		c.Eval(1)
		c.DistinctAdd(1)
		firstOcc := func() func(int) bool {
			seen := map[int]bool{}
			return func(x int) bool {
				if seen[x] {
					return false
				}
				seen[x] = true
				return true
			}
		}
		budget := func(k int) func(int) bool {
			left := k
			return func(int) bool { left--; return left >= 0 }
		}
		model := func(p func(int) bool) (yes, no []int) {
			yes, no = []int{}, []int{}
			for _, x := range l {
				if p(x) {
					yes = append(yes, x)
				} else {
					no = append(no, x)
				}
			}
			return
		}
		for _, mk := range []struct {
			name string
			f    func() func(int) bool
		}{{"first occurrence", firstOcc}, {"budget of 3", func() func(int) bool { return budget(3) }}} {
			wy, wn := model(mk.f())
			p1 := mk.f()
			if got := fpgo.Filter(func(x int, _ int) bool { return p1(x) }, l...); !eqSeq(got, wy) {
				viol("Filter", "stateful-predicate", "on %s with the predicate '%s' gives %v, want %v", name, mk.name, trunc(got, 30), trunc(wy, 30))
			}
			p2 := mk.f()
			if got := fpgo.Reject(func(x int, _ int) bool { return p2(x) }, l...); !eqSeq(got, wn) {
				viol("Reject", "stateful-predicate", "on %s with the predicate '%s' gives %v, want %v", name, mk.name, trunc(got, 30), trunc(wn, 30))
			}
			p3 := mk.f()
			if got := fpgo.Partition(p3, l...); len(got) != 2 || !eqSeq(got[0], wy) || !eqSeq(got[1], wn) {
				viol("Partition", "stateful-predicate", "on %s with the predicate '%s' gives %v, want [%v %v]", name, mk.name, got, trunc(wy, 30), trunc(wn, 30))
			}
			p4 := mk.f()
			if got := fpgo.StreamFromArray(append([]int(nil), l...)).Filter(func(x int, _ int) bool { return p4(x) }).ToArray(); !eqSeq(got, wy) {
				viol("Stream.Filter", "stateful-predicate", "on %s with the predicate '%s' gives %v, want %v", name, mk.name, trunc(got, 30), trunc(wy, 30))
			}
			p5 := mk.f()
			if got := fpgo.StreamForInterface.FromArrayInt(append([]int(nil), l...)).Reject(func(x interface{}, _ int) bool { return p5(x.(int)) }).ToArray(); len(got) != len(wn) {
				viol("StreamForInterface.Reject", "stateful-predicate", "on %s with the predicate '%s' gives %d elements, want %d", name, mk.name, len(got), len(wn))
			}
		}
	}
	// ---- maps with NaN keys (every NaN key is a distinct entry that cannot be looked up again)
	nan := math.NaN()
	type row struct {
		name string
		m1   map[float64]int
		m2   map[float64]int
	}
	mk := func(nans int, base int, rest map[float64]int) map[float64]int {
		m := map[float64]int{}
		for i := 0; i < nans; i++ {
			m[nan] = base + i
		}
		for k, v := range rest {
			m[k] = v
		}
		return m
	}
	sortedVals := func(m map[float64]int) []int {
		var out []int
		for _, v := range m {
			out = append(out, v)
		}
		sort.Ints(out)
		return out
	}
	for _, r := range []row{
		{"2 NaN keys + 1.5", mk(2, 10, map[float64]int{1.5: 30}), mk(0, 0, map[float64]int{2.5: 40})},
		{"NaN keys on both sides", mk(2, 10, map[float64]int{1: 1}), mk(3, 20, map[float64]int{1: 2, 2: 3})},
		{"only NaN keys", mk(3, 100, nil), mk(1, 200, nil)},
	} {
		c.Eval(1)
		c.DistinctAdd(1)
		pv, where := core.Catch(func() {
			if got := fpgo.DuplicateMap(r.m1); !eqSeq(sortedVals(got), sortedVals(r.m1)) {
				viol("DuplicateMap", "nan-keys", "%s: the copy holds values %v, the map holds %v", r.name, sortedVals(got), sortedVals(r.m1))
			}
			want := map[float64]int{}
			var wantVals []int
			for k, v := range r.m1 {
				if k == k {
					want[k] = v
				} else {
					wantVals = append(wantVals, v)
				}
			}
			for k, v := range r.m2 {
				if k == k {
					want[k] = v
				} else {
					wantVals = append(wantVals, v)
				}
			}
			for _, v := range want {
				wantVals = append(wantVals, v)
			}
			sort.Ints(wantVals)
			if got := fpgo.Merge(r.m1, r.m2); !eqSeq(sortedVals(got), wantVals) {
				viol("Merge", "nan-keys", "%s: the merged map holds values %v, want %v", r.name, sortedVals(got), wantVals)
			}
			vals := fpgo.Values(r.m1)
			sort.Ints(vals)
			if !eqSeq(vals, sortedVals(r.m1)) || len(fpgo.Keys(r.m1)) != len(r.m1) {
				viol("Values/Keys", "nan-keys", "%s: Values gives %v, Keys %d entries; the map has %d entries with values %v", r.name, vals, len(fpgo.Keys(r.m1)), len(r.m1), sortedVals(r.m1))
			}
			// interface{} twins
			mi := map[interface{}]int{}
			for k, v := range r.m1 {
				mi[k] = v
			}
			di := fpgo.DuplicateMapForInterface(mi)
			var dv []int
			for _, v := range di {
				dv = append(dv, v)
			}
			sort.Ints(dv)
			if !eqSeq(dv, sortedVals(r.m1)) {
				viol("DuplicateMapForInterface", "nan-keys", "%s: the copy holds values %v, the map holds %v", r.name, dv, sortedVals(r.m1))
			}
			mg := fpgo.MergeForInterface(mi, map[interface{}]int{"x": 7})
			var mv []int
			for _, v := range mg {
				mv = append(mv, v)
			}
			sort.Ints(mv)
			if wantI := append(append([]int(nil), sortedVals(r.m1)...), 7); func() bool { sort.Ints(wantI); return !eqSeq(mv, wantI) }() {
				viol("MergeForInterface", "nan-keys", "%s: the merged map holds values %v", r.name, mv)
			}
		})
		if pv != nil {
			viol("map helpers", "panic:nan-keys", "%s: panics: %v at %s", r.name, pv, where)
		}
	}
}

func trunc[T any](l []T, n int) string {
	if len(l) <= n {
		return fmt.Sprint(l)
	}
	return fmt.Sprintf("%v... (%d elements)", l[:n], len(l))
}
