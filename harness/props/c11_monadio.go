package props

import (
	"fmt"
	"sync"
	"sync/atomic"
	"time"

	fpgo "github.com/TeaEntityLab/fpGo/v2"

	"verifharness/internal/core"
)

// C11 — MonadIO is lazy, runs its effect once per evaluation, and obeys the monad laws.
// Programs are trees over {Just(c), New(effect_i), FlatMap(f_j)}; every effect appends its id to a log;
// a pure interpreter of the same tree yields the expected (value, log).

type c11Log struct {
	mu   sync.Mutex
	ev   []int
	goid []int64
}

func (l *c11Log) add(id int) {
	l.mu.Lock()
	l.ev = append(l.ev, id)
	l.goid = append(l.goid, core.Goid())
	l.mu.Unlock()
}

func (l *c11Log) snapshot() ([]int, []int64) {
	l.mu.Lock()
	defer l.mu.Unlock()
	return append([]int(nil), l.ev...), append([]int64(nil), l.goid...)
}

// a program: leaf + chain of continuation ids
type c11Prog struct {
	leaf  int   // 0: Just(1)  1: New(e10)  2: New(e11)
	conts []int // continuation kinds
}

func (p c11Prog) String() string { return fmt.Sprintf("leaf%d>>=%v", p.leaf, p.conts) }

const c11NConts = 6

// handlers that continuation kind 5 pre-configures on the monad it returns (another live handler, the chain's own
// observe handler, a closed handler): the composed chain runs as ONE effect where the chain is observed, the inner
// monad's own configuration plays no role
var c11Inner []*fpgo.HandlerDef

// real continuation j at chain position pos (effect ids encode both)
func c11Cont(l *c11Log, j, pos int) func(int) *fpgo.MonadIODef[int] {
	id := 100*(pos+1) + j*10
	switch j {
	case 0: // pure Just
		return func(x int) *fpgo.MonadIODef[int] { return fpgo.MonadIOJustGenerics(x*2 + 1) }
	case 1: // New with its own effect
		return func(x int) *fpgo.MonadIODef[int] {
			return fpgo.MonadIONewGenerics(func() int { l.add(id); return x + 3 })
		}
	case 2: // nested FlatMap inside the continuation
		return func(x int) *fpgo.MonadIODef[int] {
			return fpgo.MonadIONewGenerics(func() int { l.add(id); return x }).FlatMap(func(y int) *fpgo.MonadIODef[int] {
				return fpgo.MonadIONewGenerics(func() int { l.add(id + 1); return y * 3 })
			})
		}
	case 3: // continuation that itself logs when it is *called* (composition order is observable)
		return func(x int) *fpgo.MonadIODef[int] {
			l.add(id + 5)
			return fpgo.MonadIOJustGenerics(x - 1)
		}
	case 5: // returns a monad that was pre-configured with ObserveOn / SubscribeOn of its own
		return func(x int) *fpgo.MonadIODef[int] {
			m := fpgo.MonadIONewGenerics(func() int { l.add(id); return x + 7 })
			if len(c11Inner) > 0 {
				h := c11Inner[((pos+x)%len(c11Inner)+len(c11Inner))%len(c11Inner)]
				m = m.ObserveOn(h)
				if pos%2 == 1 {
					m = m.SubscribeOn(h)
				}
			}
			return m
		}
	default: // two effects in sequence via FlatMap(Just)
		return func(x int) *fpgo.MonadIODef[int] {
			return fpgo.MonadIONewGenerics(func() int { l.add(id); return x + 1 }).FlatMap(func(y int) *fpgo.MonadIODef[int] { return fpgo.MonadIOJustGenerics(y) })
		}
	}
}

// model of continuation j: value transformer and the effects it appends
func c11ContModel(j, pos int, x int) (int, []int) {
	id := 100*(pos+1) + j*10
	switch j {
	case 0:
		return x*2 + 1, nil
	case 1:
		return x + 3, []int{id}
	case 2:
		return x * 3, []int{id, id + 1}
	case 3:
		return x - 1, []int{id + 5}
	case 5:
		return x + 7, []int{id}
	default:
		return x + 1, []int{id}
	}
}

func c11Build(l *c11Log, p c11Prog) *fpgo.MonadIODef[int] {
	var m *fpgo.MonadIODef[int]
	switch p.leaf {
	case 0:
		m = fpgo.MonadIOJustGenerics(1)
	case 1:
		m = fpgo.MonadIONewGenerics(func() int { l.add(10); return 4 })
	default:
		var dummy fpgo.MonadIODef[int]
		m = dummy.New(func() int { l.add(11); return 7 })
	}
	for pos, j := range p.conts {
		m = m.FlatMap(c11Cont(l, j, pos))
	}
	return m
}

func c11Model(p c11Prog) (int, []int) {
	var v int
	var log []int
	switch p.leaf {
	case 0:
		v = 1
	case 1:
		v, log = 4, []int{10}
	default:
		v, log = 7, []int{11}
	}
	for pos, j := range p.conts {
		var e []int
		v, e = c11ContModel(j, pos, v)
		log = append(log, e...)
	}
	return v, log
}

type c11Env struct {
	c      *core.Ctx
	h1, h2 *fpgo.HandlerDef
	g1, g2 int64
}

func handlerGoid(h *fpgo.HandlerDef) int64 {
	ch := make(chan int64, 1)
	h.Post(func() { ch <- core.Goid() })
	return <-ch
}

func (e *c11Env) viol(key string, p c11Prog, format string, args ...any) {
	e.c.Violationf(key, map[string]any{"program": p.String()}, "program %s: %s", p, fmt.Sprintf(format, args...))
}

// await waits for done with a generous watchdog; a watchdog expiry with no active library goroutine
// is a violation (nothing can ever deliver), otherwise inconclusive.
func (e *c11Env) await(done <-chan struct{}, p c11Prog, what string) bool {
	select {
	case <-done:
		return true
	case <-time.After(15 * time.Second):
	}
	gs, _ := core.Dump()
	if len(core.ActiveRepoGoroutines(gs)) == 0 {
		e.viol("subscribe:never-delivered", p, "%s: OnNext was not called within 15 s and no library goroutine can still make progress", what)
	} else {
		e.c.Inconclusive(fmt.Sprintf("watchdog while waiting for %s of %s", what, p))
	}
	return false
}

func (e *c11Env) checkProgram(p c11Prog) {
	c := e.c
	wantV, wantLog := c11Model(p)
	nontrivial := len(wantLog) > 0
	count := func() {
		c.Eval(1)
		if nontrivial {
			c.DistinctAdd(1)
		}
	}
	// --- laziness + Eval n times
	count()
	pv, where := core.Catch(func() {
		l := &c11Log{}
		m := c11Build(l, p)
		if ev, _ := l.snapshot(); len(ev) != 0 {
			e.viol("lazy:effect-at-construction", p, "effects %v ran while the MonadIO was only built", ev)
		}
		for n := 1; n <= 3; n++ {
			before, _ := l.snapshot()
			v := m.Eval()
			after, _ := l.snapshot()
			if v != wantV {
				e.viol("eval:wrong-value", p, "Eval #%d returned %d, want %d", n, v, wantV)
			}
			if !eqSeq(after[len(before):], wantLog) {
				e.viol("eval:effects", p, "Eval #%d ran effects %v, want exactly %v (each once, in composition order)", n, after[len(before):], wantLog)
			}
		}
	})
	if pv != nil {
		e.viol("panic:"+core.NormalizePanic(fmt.Sprint(pv)), p, "panics: %v at %s", pv, where)
		return
	}
	// --- Subscribe, all four handler combinations
	for combo := 0; combo < 4; combo++ {
		count()
		combo := combo
		pv, where := core.Catch(func() {
			l := &c11Log{}
			m := c11Build(l, p)
			var ob, sub *fpgo.HandlerDef
			wantEffG, wantNextG := core.Goid(), core.Goid()
			if combo&1 != 0 {
				ob = e.h1
				wantEffG, wantNextG = e.g1, e.g1 // OnNext runs where the effect ran unless SubscribeOn moves it
			}
			if combo&2 != 0 {
				sub = e.h2
				wantNextG = e.g2
			}
			m = m.ObserveOn(ob).SubscribeOn(sub)
			if ev, _ := l.snapshot(); len(ev) != 0 {
				e.viol("lazy:effect-at-ObserveOn/SubscribeOn", p, "effects %v ran at ObserveOn/SubscribeOn", ev)
			}
			for n := 1; n <= 2; n++ {
				var mu sync.Mutex
				var got []int
				var gotG []int64
				done := make(chan struct{}, 4)
				before, _ := l.snapshot()
				m.Subscribe(fpgo.Subscription[int]{OnNext: func(v int) {
					mu.Lock()
					got = append(got, v)
					gotG = append(gotG, core.Goid())
					mu.Unlock()
					done <- struct{}{}
				}})
				if !e.await(done, p, fmt.Sprintf("Subscribe #%d (observeOn=%v subscribeOn=%v)", n, ob != nil, sub != nil)) {
					return
				}
				// give a duplicate delivery the chance to show up: a marker posted behind it on both handlers
				if ob != nil {
					handlerGoid(ob)
				}
				if sub != nil {
					handlerGoid(sub)
				}
				mu.Lock()
				gv, gg := append([]int(nil), got...), append([]int64(nil), gotG...)
				mu.Unlock()
				after, afterG := l.snapshot()
				if len(gv) != 1 {
					e.viol("subscribe:onnext-count", p, "Subscribe #%d delivered %d values %v, want exactly one", n, len(gv), gv)
					continue
				}
				if gv[0] != wantV {
					e.viol("subscribe:wrong-value", p, "Subscribe #%d delivered %d, want %d", n, gv[0], wantV)
				}
				if !eqSeq(after[len(before):], wantLog) {
					e.viol("subscribe:effects", p, "Subscribe #%d ran effects %v, want exactly %v", n, after[len(before):], wantLog)
				}
				for _, g := range afterG[len(before):] {
					if g != wantEffG {
						e.viol("subscribe:effect-goroutine", p, "an effect ran on goroutine %d, want %d (observeOn=%v)", g, wantEffG, ob != nil)
						break
					}
				}
				if gg[0] != wantNextG {
					e.viol("subscribe:onnext-goroutine", p, "OnNext ran on goroutine %d, want %d (observeOn=%v subscribeOn=%v)", gg[0], wantNextG, ob != nil, sub != nil)
				}
			}
			// a Subscription without OnNext runs nothing
			before, _ := l.snapshot()
			m.Subscribe(fpgo.Subscription[int]{})
			if ob != nil {
				handlerGoid(ob)
			}
			if after, _ := l.snapshot(); len(after) != len(before) {
				e.viol("subscribe:nil-onnext-ran-effects", p, "a Subscription without OnNext ran effects %v", after[len(before):])
			}
		})
		if pv != nil {
			e.viol("panic:"+core.NormalizePanic(fmt.Sprint(pv)), p, "Subscribe panics: %v at %s", pv, where)
		}
	}
	// --- laws by observational equivalence of (value, log)
	count()
	pv, where = core.Catch(func() {
		run := func(build func(l *c11Log) *fpgo.MonadIODef[int]) (int, []int) {
			l := &c11Log{}
			m := build(l)
			v := m.Eval()
			ev, _ := l.snapshot()
			return v, ev
		}
		// right identity: m.FlatMap(Just) == m
		v1, l1 := run(func(l *c11Log) *fpgo.MonadIODef[int] {
			return c11Build(l, p).FlatMap(func(x int) *fpgo.MonadIODef[int] { return fpgo.MonadIOJustGenerics(x) })
		})
		if v1 != wantV || !eqSeq(l1, wantLog) {
			e.viol("law:right-identity", p, "m.FlatMap(Just) gives (%d,%v), m gives (%d,%v)", v1, l1, wantV, wantLog)
		}
		if len(p.conts) >= 1 {
			// left identity on the first continuation: Just(x).FlatMap(f) == f(x)
			f0 := p.conts[0]
			x := 5
			va, la := run(func(l *c11Log) *fpgo.MonadIODef[int] { return fpgo.MonadIOJustGenerics(x).FlatMap(c11Cont(l, f0, 0)) })
			vb, lb := run(func(l *c11Log) *fpgo.MonadIODef[int] { return c11Cont(l, f0, 0)(x) })
			// calling f directly logs a "called" effect (kind 3) at call time, which is part of f(x)'s behaviour
			if va != vb || !eqSeq(la, lb) {
				e.viol("law:left-identity", p, "Just(x).FlatMap(f) gives (%d,%v), f(x) gives (%d,%v)", va, la, vb, lb)
			}
		}
		if len(p.conts) >= 2 {
			// associativity on the last two continuations
			k := len(p.conts) - 2
			head := c11Prog{leaf: p.leaf, conts: p.conts[:k]}
			f, g := p.conts[k], p.conts[k+1]
			va, la := run(func(l *c11Log) *fpgo.MonadIODef[int] {
				return c11Build(l, head).FlatMap(c11Cont(l, f, k)).FlatMap(c11Cont(l, g, k+1))
			})
			vb, lb := run(func(l *c11Log) *fpgo.MonadIODef[int] {
				return c11Build(l, head).FlatMap(func(x int) *fpgo.MonadIODef[int] { return c11Cont(l, f, k)(x).FlatMap(c11Cont(l, g, k+1)) })
			})
			if va != vb || !eqSeq(la, lb) {
				e.viol("law:associativity", p, "(m>>=f)>>=g gives (%d,%v), m>>=(x->f x>>=g) gives (%d,%v)", va, la, vb, lb)
			}
		}
	})
	if pv != nil {
		e.viol("panic:"+core.NormalizePanic(fmt.Sprint(pv)), p, "law evaluation panics: %v at %s", pv, where)
	}
}

func runC11(c *core.Ctx) {
	// the package-level default Handler used as observe / subscribe handler, as the very first thing this process does
	// with the library (nothing may depend on some other call having happened before)
	{
		c.Eval(1)
		c.DistinctAdd(1)
		type where struct{ eff, next int64 }
		got := make(chan where, 1)
		var effG int64
		var pv any
		var loc string
		returned := make(chan struct{})
		go func() {
			defer close(returned)
			pv, loc = core.Catch(func() {
				fpgo.MonadIONewGenerics(func() int { effG = core.Goid(); return 1 }).ObserveOn(&fpgo.Handler).Subscribe(fpgo.Subscription[int]{OnNext: func(int) { got <- where{effG, core.Goid()} }})
			})
		}()
		if v, dump := core.AwaitOrStuck(returned, 2*time.Second, 60*time.Second, func() int64 { return 0 }); v == "stuck" {
			c.Violationf("subscribe:never-returns", map[string]any{"handler": "the package-level default Handler, first use in the process", "goroutines": core.RepoGoroutineSummary(dump)}, "Subscribe of a MonadIO observed on the package-level default Handler (fpgo.Handler), as the first library call of the process, never returns")
			return
		} else if v != "done" {
			c.Inconclusive("default handler probe: watchdog")
			return
		}
		if pv != nil {
			c.Violationf("default-handler:panic", nil, "ObserveOn(&fpgo.Handler) panics: %v at %s", pv, loc)
		} else {
			select {
			case w := <-got:
				if w.eff == core.Goid() || w.eff != w.next {
					c.Violationf("default-handler:goroutine", nil, "ObserveOn(&fpgo.Handler): effect ran on goroutine %d, OnNext on %d, the caller is %d", w.eff, w.next, core.Goid())
				}
			case <-time.After(15 * time.Second):
				if quiet, _ := core.QuietNow(); quiet {
					c.Violationf("subscribe:never-delivered", map[string]any{"handler": "the package-level default Handler, first use in the process"}, "a MonadIO observed on the package-level default Handler (fpgo.Handler), subscribed as the first library call of the process, never ran its effect")
				} else {
					c.Inconclusive("default handler probe still in progress after 15 s")
				}
			}
		}
	}
	e := &c11Env{c: c}
	e.h1 = fpgo.Handler.New()
	e.h2 = fpgo.Handler.NewByCh(make(chan func(), 2))
	e.g1, e.g2 = handlerGoid(e.h1), handlerGoid(e.h2)
	hOther, hClosed := fpgo.Handler.New(), fpgo.Handler.New()
	hClosed.Close()
	c11Inner = []*fpgo.HandlerDef{hOther, e.h1, hClosed}
	defer hOther.Close()
	depth := c.Pick(3, 5)
	var progs []c11Prog
	for leaf := 0; leaf < 3; leaf++ {
		for d := 0; d <= depth; d++ {
			// sequential enumeration (cheap)
			cur := make([]int, d)
			var rec func(i int)
			rec = func(i int) {
				if i == d {
					progs = append(progs, c11Prog{leaf: leaf, conts: append([]int(nil), cur...)})
					return
				}
				for j := 0; j < c11NConts; j++ {
					cur[i] = j
					rec(i + 1)
				}
			}
			rec(0)
		}
	}
	// PRNG: long chains
	rng := c.Rng("c11")
	for i := 0; i < c.Pick(200, 20000); i++ {
		p := c11Prog{leaf: rng.Intn(3)}
		for k := 0; k < 6+rng.Intn(25); k++ {
			p.conts = append(p.conts, rng.Intn(c11NConts))
		}
		progs = append(progs, p)
	}
	// handlers are shared: run sequentially (the property is about compositions, not schedules)
	// (each program under the stuck detector: an Eval / Subscribe that waits for itself never returns)
	for pi, p := range progs {
		done := make(chan struct{})
		go func() { defer close(done); e.checkProgram(p) }()
		if v, dump := core.AwaitOrStuck(done, 2*time.Second, 120*time.Second, func() int64 { return int64(pi) }); v == "stuck" {
			e.viol("eval-or-subscribe:never-returns", p, "evaluating / subscribing the program never returns and nothing can make progress: %v", core.RepoGoroutineSummary(dump))
			return
		} else if v != "done" {
			c.Inconclusive("watchdog while checking " + p.String())
			return
		}
	}
	// handlers are bound at Subscribe time: re-configuring the same MonadIO (SubscribeOn / ObserveOn) while an
	// earlier subscription's effect is still in flight must not move that subscription's OnNext
	h3 := fpgo.Handler.NewByCh(make(chan func(), 2))
	g3 := handlerGoid(h3)
	for variant := 0; variant < 4; variant++ {
		c.Eval(1)
		c.DistinctAdd(1)
		variant := variant
		pv, where := core.Catch(func() {
			gate := make(chan struct{})
			entered := make(chan struct{})
			m := fpgo.MonadIONewGenerics(func() int { close(entered); <-gate; return 9 }).
				FlatMap(func(x int) *fpgo.MonadIODef[int] { return fpgo.MonadIOJustGenerics(x + 1) }).
				ObserveOn(e.h1).SubscribeOn(e.h2)
			got := make(chan int64, 2)
			m.Subscribe(fpgo.Subscription[int]{OnNext: func(v int) { got <- core.Goid() }})
			<-entered // the effect is running on h1 now
			switch variant {
			case 0:
				m.SubscribeOn(h3)
			case 1:
				m.SubscribeOn(nil)
			case 2:
				m.ObserveOn(h3).SubscribeOn(h3)
			default:
				m.ObserveOn(nil)
			}
			close(gate)
			select {
			case g := <-got:
				if g != e.g2 {
					name := map[int64]string{e.g1: "the observe handler", g3: "the handler configured AFTER Subscribe"}[g]
					c.Violationf("subscribe:handlers-not-bound-at-subscribe-time", map[string]any{"variant": variant},
						"Subscribe() was called with ObserveOn(h1)/SubscribeOn(h2); while the effect was in flight the MonadIO was re-configured (variant %d); OnNext ran on goroutine %d (%s) instead of h2's %d", variant, g, name, e.g2)
				}
			case <-time.After(20 * time.Second):
				if quiet, _ := core.QuietNow(); quiet {
					c.Violationf("subscribe:never-delivered", map[string]any{"variant": variant}, "OnNext was not delivered after a re-configuration in flight (variant %d)", variant)
				} else {
					c.Inconclusive("re-configuration probe still in progress after 20 s")
				}
			}
		})
		if pv != nil {
			c.Violationf("panic:reconfigure-in-flight", nil, "re-configuring a MonadIO in flight panics: %v at %s", pv, where)
		}
	}
	// the handlers also bind when the MonadIO is evaluated by a coroutine (Cor.YieldFromIO subscribes to it): the effect
	// runs on the ObserveOn handler's goroutine - not before the handler is free to run it - exactly once
	for variant := 0; variant < 3; variant++ {
		c.Eval(1)
		c.DistinctAdd(1)
		variant := variant
		pv, where := core.Catch(func() {
			var effG atomic.Int64
			var effects atomic.Int32
			busy := make(chan struct{})
			started := make(chan struct{})
			e.h1.Post(func() { close(started); <-busy }) // h1 is busy: an effect observed on h1 cannot have run yet
			<-started
			io := fpgo.MonadIO.New(func() interface{} { effG.Store(core.Goid()); effects.Add(1); return 77 })
			switch variant {
			case 0:
				io = io.ObserveOn(e.h1)
			case 1:
				io = io.ObserveOn(e.h1).SubscribeOn(e.h2)
			default:
				io = io.FlatMap(func(v interface{}) *fpgo.MonadIODef[interface{}] { return fpgo.MonadIO.Just(v) }).ObserveOn(e.h1)
			}
			done := make(chan struct{})
			var got interface{}
			go func() {
				defer close(done)
				got = fpgo.Cor.DoNotation(func(self *fpgo.CorDef[interface{}]) interface{} { return self.YieldFromIO(io) })
			}()
			time.Sleep(3 * time.Millisecond)
			early := effects.Load()
			close(busy)
			v, dump := core.AwaitOrStuck(done, 2*time.Second, 60*time.Second, func() int64 { return 0 })
			rep := map[string]any{"variant": variant}
			if v == "stuck" {
				rep["goroutines"] = core.RepoGoroutineSummary(dump)
				c.Violationf("YieldFromIO:never-returns", rep, "Cor.YieldFromIO of a MonadIO observed on a (temporarily busy) handler never returns")
				return
			} else if v != "done" {
				c.Inconclusive("YieldFromIO handler probe: watchdog")
				return
			}
			if early != 0 || effG.Load() != e.g1 || effects.Load() != 1 || fmt.Sprint(got) != "77" {
				c.Violationf("YieldFromIO:effect-not-on-ObserveOn-handler", rep, "Cor.YieldFromIO(io.ObserveOn(h1)) while h1 was busy: %d effects had run before h1 was free, the effect ran on goroutine %d (h1 is %d), %d effects in total, value %v (want 0, h1, 1, 77)", early, effG.Load(), e.g1, effects.Load(), got)
			}
		})
		if pv != nil {
			c.Violationf("panic:YieldFromIO-handlers", nil, "YieldFromIO with handlers panics: %v at %s", pv, where)
		}
	}
	h3.Close()
	// a composed MonadIO is a value: two (or more) MonadIOs derived from the SAME parent are independent of each other.
	// parent depths 0..18 x all ordered pairs of continuation kinds, each branch extended once more afterwards
	for d := 0; d <= c.Pick(18, 40); d++ {
		for ja := 0; ja < c11NConts; ja++ {
			for jb := 0; jb < c11NConts; jb++ {
				c.Eval(1)
				c.DistinctAdd(1)
				parent := c11Prog{leaf: 1 + d%2}
				for k := 0; k < d; k++ {
					parent.conts = append(parent.conts, (k+ja+jb)%c11NConts)
				}
				pa := c11Prog{leaf: parent.leaf, conts: append(append([]int(nil), parent.conts...), ja)}
				pb := c11Prog{leaf: parent.leaf, conts: append(append([]int(nil), parent.conts...), jb)}
				pa2 := c11Prog{leaf: parent.leaf, conts: append(append([]int(nil), pa.conts...), jb)}
				pb2 := c11Prog{leaf: parent.leaf, conts: append(append([]int(nil), pb.conts...), ja)}
				pv, where := core.Catch(func() {
					l := &c11Log{}
					mp := c11Build(l, parent)
					ma := mp.FlatMap(c11Cont(l, ja, d))
					mb := mp.FlatMap(c11Cont(l, jb, d))
					ma2 := ma.FlatMap(c11Cont(l, jb, d+1))
					mb2 := mb.FlatMap(c11Cont(l, ja, d+1))
					for round := 0; round < 2; round++ {
						for _, t := range []struct {
							name string
							m    *fpgo.MonadIODef[int]
							p    c11Prog
						}{{"first child a = p.FlatMap(f)", ma, pa}, {"second child b = p.FlatMap(g)", mb, pb}, {"the parent p", mp, parent}, {"a.FlatMap(g)", ma2, pa2}, {"b.FlatMap(f)", mb2, pb2}} {
							wantV, wantLog := c11Model(t.p)
							before, _ := l.snapshot()
							v := t.m.Eval()
							after, _ := l.snapshot()
							if v != wantV || !eqSeq(after[len(before):], wantLog) {
								c.Violationf("branch:children-of-one-parent-interfere", map[string]any{"parent": parent.String(), "f": ja, "g": jb, "which": t.name},
									"parent %s (depth %d) with two children a = p.FlatMap(f%d), b = p.FlatMap(f%d): evaluating %s gave (%d, effects %v), want (%d, %v)", parent, d, ja, jb, t.name, v, after[len(before):], wantV, wantLog)
								return
							}
						}
					}
				})
				if pv != nil {
					c.Violationf("panic:branching", nil, "branching composition panics: %v at %s", pv, where)
				}
			}
		}
	}
	// each Subscribe delivers the value of ITS evaluation, also when earlier deliveries are still pending on a busy
	// subscribe handler and the effect's value differs between evaluations
	for variant := 0; variant < 4; variant++ {
		c.Eval(1)
		c.DistinctAdd(1)
		variant := variant
		pv, where := core.Catch(func() {
			hb := fpgo.Handler.NewByCh(make(chan func(), 8))
			defer hb.Close()
			gate := make(chan struct{})
			hb.Post(func() { <-gate }) // the subscribe handler is busy
			n := 0
			m := fpgo.MonadIONewGenerics(func() int { n++; return n })
			if variant&1 != 0 {
				m = m.FlatMap(func(x int) *fpgo.MonadIODef[int] { return fpgo.MonadIOJustGenerics(x * 10) })
			}
			if variant&2 != 0 {
				m = m.ObserveOn(e.h1)
			}
			m = m.SubscribeOn(hb)
			const subs = 5
			var mu sync.Mutex
			got := make([]int, subs)
			done := make(chan struct{}, subs)
			for k := 0; k < subs; k++ {
				k := k
				m.Subscribe(fpgo.Subscription[int]{OnNext: func(v int) { mu.Lock(); got[k] = v; mu.Unlock(); done <- struct{}{} }})
				if variant&2 != 0 {
					handlerGoid(e.h1) // the k-th effect has run before the next Subscribe (values are 1..subs in Subscribe order)
				}
			}
			close(gate)
			for k := 0; k < subs; k++ {
				select {
				case <-done:
				case <-time.After(20 * time.Second):
					if quiet, _ := core.QuietNow(); quiet {
						c.Violationf("subscribe:never-delivered", map[string]any{"variant": variant}, "pending deliveries on a busy subscribe handler never arrived")
					} else {
						c.Inconclusive("pending-delivery probe still in progress after 20 s")
					}
					return
				}
			}
			want := make([]int, subs)
			for k := range want {
				want[k] = k + 1
				if variant&1 != 0 {
					want[k] *= 10
				}
			}
			mu.Lock()
			defer mu.Unlock()
			if !eqSeq(got, want) {
				c.Violationf("subscribe:value-of-another-evaluation", map[string]any{"variant": variant},
					"%d Subscribes of one MonadIO whose effect counts its evaluations, deliveries pending on a busy SubscribeOn handler (observeOn=%v, FlatMap=%v): the subscriptions received %v, want %v (each the value of its own evaluation)", subs, variant&2 != 0, variant&1 != 0, got, want)
			}
		})
		if pv != nil {
			c.Violationf("panic:pending-deliveries", nil, "Subscribe with pending deliveries panics: %v at %s", pv, where)
		}
	}
	// interface{} entry points
	c.Eval(1)
	pv, where := core.Catch(func() {
		n := 0
		m := fpgo.MonadIO.New(func() interface{} { n++; return n }).FlatMap(func(x interface{}) *fpgo.MonadIODef[interface{}] { return fpgo.MonadIO.Just(x.(int) + 10) })
		if n != 0 {
			c.Violation("lazy:effect-at-construction", "MonadIO.New/FlatMap (interface{}) ran the effect at construction", nil)
		}
		if v := m.Eval(); v != 11 || n != 1 {
			c.Violationf("eval:wrong-value", nil, "interface{} MonadIO Eval gave %v after %d effects", v, n)
		}
		if v := m.Eval(); v != 12 || n != 2 {
			c.Violationf("eval:effects", nil, "interface{} MonadIO second Eval gave %v after %d effects", v, n)
		}
	})
	if pv != nil {
		c.Violationf("panic:interface-family", nil, "interface{} MonadIO panics: %v at %s", pv, where)
	}
	// the monad is parametric in the carried value: values that are themselves MonadIOs / Maybes / funcs / nil travel
	// through Just, New, FlatMap, Eval and Subscribe untouched (interface{} entry points and the generic ones)
	{
		innerRuns := 0
		inner := fpgo.MonadIO.New(func() interface{} { innerRuns++; return 42 })
		innerJust := fpgo.MonadIO.Just(7)
		type carried struct {
			name string
			v    interface{}
		}
		vals := []carried{{"a *MonadIODef[interface{}] built by New", inner}, {"a *MonadIODef[interface{}] built by Just", innerJust},
			{"a (*MonadIODef[interface{}])(nil)", (*fpgo.MonadIODef[interface{}])(nil)}, {"a Maybe", fpgo.Maybe.Just(3)}, {"nil", nil}, {"a *MonadIODef[int]", fpgo.MonadIOJustGenerics(5)}}
		same := func(a, b interface{}) bool {
			defer func() { recover() }()
			return a == b
		}
		for _, cv := range vals {
			cv := cv
			c.Eval(1)
			c.DistinctAdd(1)
			pv, where := core.Catch(func() {
				rep := map[string]any{"carried_value": cv.name}
				if got := fpgo.MonadIO.Just(cv.v).Eval(); !same(got, cv.v) {
					c.Violationf("carried-value:Just.Eval", rep, "MonadIO.Just(x).Eval() with x = %s returned %v (%T), want x itself", cv.name, got, got)
				}
				if got := fpgo.MonadIO.New(func() interface{} { return cv.v }).Eval(); !same(got, cv.v) {
					c.Violationf("carried-value:New.Eval", rep, "MonadIO.New(func() x).Eval() with x = %s returned %v (%T), want x itself", cv.name, got, got)
				}
				var fGot interface{} = "f not called"
				f := func(x interface{}) *fpgo.MonadIODef[interface{}] { fGot = x; return fpgo.MonadIO.Just("f-result") }
				if got := fpgo.MonadIO.Just(cv.v).FlatMap(f).Eval(); got != "f-result" || !same(fGot, cv.v) {
					c.Violationf("carried-value:left-identity", rep, "MonadIO.Just(x).FlatMap(f).Eval() with x = %s: f received %v (%T) and the result is %v; f(x) receives x itself", cv.name, fGot, fGot, got)
				}
				m := fpgo.MonadIO.New(func() interface{} { return cv.v })
				if got := m.FlatMap(func(x interface{}) *fpgo.MonadIODef[interface{}] { return fpgo.MonadIO.Just(x) }).Eval(); !same(got, cv.v) {
					c.Violationf("carried-value:right-identity", rep, "m.FlatMap(Just).Eval() with m yielding x = %s returned %v (%T), want x itself", cv.name, got, got)
				}
				var delivered interface{} = "nothing"
				fpgo.MonadIO.Just(cv.v).Subscribe(fpgo.Subscription[interface{}]{OnNext: func(v interface{}) { delivered = v }})
				if !same(delivered, cv.v) {
					c.Violationf("carried-value:Subscribe", rep, "MonadIO.Just(x).Subscribe delivered %v (%T) with x = %s, want x itself", delivered, delivered, cv.name)
				}
			})
			if pv != nil {
				c.Violationf("panic:carried-value", map[string]any{"carried_value": cv.name}, "a MonadIO carrying %s panics: %v at %s", cv.name, pv, where)
			}
		}
		if innerRuns != 0 {
			c.Violationf("carried-value:effect-of-the-value-ran", nil, "the effect of a MonadIO that was only CARRIED as a value by another MonadIO ran %d times", innerRuns)
		}
		// generic family: MonadIODef[*MonadIODef[int]]
		c.Eval(1)
		in2Runs := 0
		in2 := fpgo.MonadIONewGenerics(func() int { in2Runs++; return 1 })
		outer := fpgo.MonadIOJustGenerics(in2)
		if got := outer.FlatMap(func(x *fpgo.MonadIODef[int]) *fpgo.MonadIODef[*fpgo.MonadIODef[int]] { return fpgo.MonadIOJustGenerics(x) }).Eval(); got != in2 || in2Runs != 0 {
			c.Violationf("carried-value:generic", nil, "MonadIOJustGenerics(m).FlatMap(Just).Eval() returned %p (want %p), the carried MonadIO's effect ran %d times", got, in2, in2Runs)
		}
	}
	// one MonadIO value evaluated by several goroutines at once, and two compositions sharing a first step: every
	// evaluation is complete and independent (value, number of effects), nothing panics
	for variant := 0; variant < 3; variant++ {
		c.Eval(1)
		c.DistinctAdd(1)
		var effects atomic.Int64
		first := fpgo.MonadIONewGenerics(func() int { effects.Add(1); time.Sleep(time.Millisecond); return 5 })
		a := first.FlatMap(func(x int) *fpgo.MonadIODef[int] {
			return fpgo.MonadIONewGenerics(func() int { effects.Add(1); time.Sleep(500 * time.Microsecond); return x * 2 })
		})
		b := first.FlatMap(func(x int) *fpgo.MonadIODef[int] { return fpgo.MonadIOJustGenerics(x + 100) })
		const evaluators = 8
		results := make([]int, evaluators)
		panics := make([]any, evaluators)
		var wg sync.WaitGroup
		start := make(chan struct{})
		for g := 0; g < evaluators; g++ {
			wg.Add(1)
			go func(g int) {
				defer wg.Done()
				<-start
				panics[g], _ = core.Catch(func() {
					switch {
					case variant == 0 || g%2 == 0:
						results[g] = a.Eval()
					case variant == 1:
						results[g] = b.Eval()
					default:
						done := make(chan int, 1)
						b.Subscribe(fpgo.Subscription[int]{OnNext: func(v int) { done <- v }})
						results[g] = <-done
					}
				})
			}(g)
		}
		close(start)
		wg.Wait()
		wantEffects := int64(0)
		for g := 0; g < evaluators; g++ {
			want := 10
			wantEffects += 2
			if variant != 0 && g%2 == 1 {
				want = 105
				wantEffects--
			}
			if panics[g] != nil {
				c.Violationf("concurrent-evaluations:panic:"+core.NormalizePanic(fmt.Sprint(panics[g])), map[string]any{"variant": variant}, "%d goroutines evaluate compositions that share their first step at the same time: evaluator %d panics: %v", evaluators, g, panics[g])
				break
			}
			if results[g] != want {
				c.Violationf("concurrent-evaluations:wrong-value", map[string]any{"variant": variant}, "concurrent evaluation %d returned %d, want %d", g, results[g], want)
				break
			}
		}
		if effects.Load() != wantEffects {
			c.Violationf("concurrent-evaluations:effects", map[string]any{"variant": variant}, "%d concurrent evaluations ran %d effects, want %d", evaluators, effects.Load(), wantEffects)
		}
	}
	c.Count("programs", int64(len(progs)))
	c.Note("exhaustive_programs", fmt.Sprintf("all chains of depth <= %d over 3 leaves x %d continuation kinds", depth, c11NConts))
	c.Sample(map[string]any{"program": progs[17].String(), "modes": "construct; Eval x3; Subscribe x2 under 4 handler combinations; nil OnNext; laws"})
	c.Sample(map[string]any{"program": progs[len(progs)-1].String()})
	e.h1.Close()
	e.h2.Close()
}

func init() {
	core.Register(&core.Check{
		ID: "C11",
		Meta: func(c *core.Ctx) core.Meta {
			return core.Meta{
				Level: "exploration",
				Rule: "programs = Just/New leaves followed by a FlatMap chain of depth <= D (D=3 quick, 5 thorough; all chains enumerated) over 6 continuation kinds (pure Just, New with effect, nested FlatMap, continuation that logs when called, FlatMap(Just) tail, a monad pre-configured with its own ObserveOn/SubscribeOn on another / the chain's own / a closed handler) plus PRNG chains up to length 30; first of all a MonadIO observed on the package-level default Handler as the first library call of the process; each program: log empty after construction and after ObserveOn/SubscribeOn, Eval x3 and Subscribe x2 under all four nil/non-nil handler combinations each add exactly the expected effect sequence and deliver exactly one value, goroutine identity of effects and OnNext, nil OnNext runs nothing, handlers stay bound to a subscription when the MonadIO is re-configured while its effect is in flight, left/right identity and associativity by (value, effect log); carried values that are themselves MonadIOs / Maybes / nil (Just, New, FlatMap, Eval, Subscribe hand them on untouched and never run them); 8 goroutines evaluating one composition (or two compositions sharing their first step) at the same time; branching compositions (two children of one parent of depth 0..18 (thorough 40) x all 25 continuation pairs, each extended once more, evaluated twice in interleaved order); 5 Subscribes of one counting MonadIO whose deliveries are pending on a busy SubscribeOn handler (each must get the value of its own evaluation). " +
					"(round 7) evaluation by a coroutine (Cor.YieldFromIO) of a MonadIO observed on a temporarily busy handler: the effect waits for the handler, runs on its goroutine, once; " +
					"distinct_nontrivial = enumerated (program, mode) cases whose expected effect log is non-empty",
				Assumptions: []string{"observe and subscribe handlers are two distinct handlers (posting to an unbuffered handler from its own goroutine blocks by construction)",
					"with ObserveOn only, OnNext runs on the observe handler's goroutine", "mostly sequential driver (the property quantifies over compositions); overlapping evaluations only in the dedicated probe"},
				Exhaustive: true,
			}
		},
		Run: runC11,
	})
}
