package props

import (
	"errors"
	"fmt"
	"math/rand"
	"time"

	fpgo "github.com/TeaEntityLab/fpGo/v2"

	"verifharness/internal/core"
)

// C06 for OTHER element types, several of them alive in one process: interface element types (error, fmt.Stringer, any),
// a struct, a func-free pointer type and a string - each driven by PRNG histories against a slice model. Anything shared
// between instantiations (package-level pools or caches keyed by the element type) shows here.

type c06Named struct{ n int }

func (s c06Named) String() string { return fmt.Sprint("named", s.n) }
func (s c06Named) Error() string  { return fmt.Sprint("err", s.n) }

func c06Instantiation[T any](c *core.Ctx, tname string, mk func(i int) T, id func(T) int, steps int, seed int64) {
	q := fpgo.NewLinkedListQueue[T]()
	var model []int
	rng := rand.New(rand.NewSource(seed))
	next := 1
	var trace []string
	viol := func(key, format string, args ...any) {
		tail := trace
		if len(tail) > 14 {
			tail = tail[len(tail)-14:]
		}
		c.Violationf("instantiation["+tname+"]:"+key, map[string]any{"element_type": tname, "last_operations": tail}, "LinkedListQueue[%s] (other instantiations are alive in this process): %s; last operations %v", tname, fmt.Sprintf(format, args...), tail)
	}
	for s := 0; s < steps; s++ {
		op := rng.Intn(10)
		bad := false
		pv, where := core.Catch(func() {
			switch op {
			case 0, 1, 2:
				trace = append(trace, fmt.Sprintf("Offer(%d)", next))
				q.Offer(mk(next))
				model = append(model, next)
				next++
			case 3:
				trace = append(trace, fmt.Sprintf("Unshift(%d)", next))
				q.Unshift(mk(next))
				model = append([]int{next}, model...)
				next++
			case 4:
				trace = append(trace, fmt.Sprintf("Push(%d)", next))
				q.Push(mk(next))
				model = append(model, next)
				next++
			case 5, 6:
				trace = append(trace, "Poll")
				v, err := q.Poll()
				if len(model) == 0 {
					if err != fpgo.ErrQueueIsEmpty {
						viol("wrong-error", "Poll on an empty queue returned (%v, %v)", v, err)
						bad = true
					}
					return
				}
				if err != nil || id(v) != model[0] {
					viol("wrong-value", "Poll returned (%v, %v), want element %d", v, err, model[0])
					bad = true
				}
				model = model[1:]
			case 7:
				trace = append(trace, "Pop")
				v, err := q.Pop()
				if len(model) == 0 {
					if err != fpgo.ErrStackIsEmpty {
						viol("wrong-error", "Pop on an empty queue returned (%v, %v)", v, err)
						bad = true
					}
					return
				}
				if err != nil || id(v) != model[len(model)-1] {
					viol("wrong-value", "Pop returned (%v, %v), want element %d", v, err, model[len(model)-1])
					bad = true
				}
				model = model[:len(model)-1]
			case 8:
				k := rng.Intn(5)
				trace = append(trace, fmt.Sprintf("KeepNodePoolCount(%d)", k))
				q.KeepNodePoolCount(k)
			default:
				if rng.Intn(6) == 0 {
					trace = append(trace, "Clear")
					q.Clear()
					model = nil
				} else {
					trace = append(trace, "Peek")
					v, err := q.Peek()
					if len(model) == 0 {
						if err == nil {
							viol("wrong-error", "Peek on an empty queue returned (%v, nil)", v)
							bad = true
						}
					} else if err != nil || id(v) != model[0] {
						viol("wrong-value", "Peek returned (%v, %v), want element %d", v, err, model[0])
						bad = true
					}
				}
			}
			if q.Count() != len(model) {
				viol("count", "Count()=%d, model holds %d", q.Count(), len(model))
				bad = true
			}
		})
		if pv != nil {
			viol("panic:"+core.NormalizePanic(fmt.Sprint(pv)), "%s panics: %v at %s", trace[len(trace)-1], pv, where)
			return
		}
		if bad {
			return
		}
	}
}

func c06Generic(c *core.Ctx) {
	steps := c.Pick(3000, 40000)
	start := time.Now()
	for round := 0; round < 2; round++ {
		c.Eval(8)
		c.DistinctAdd(8)
		sd := c.Seed*17 + int64(round)
		c06Instantiation[fmt.Stringer](c, "fmt.Stringer", func(i int) fmt.Stringer { return c06Named{i} }, func(v fmt.Stringer) int { return v.(c06Named).n }, steps, sd)
		c06Instantiation[error](c, "error", func(i int) error { return c06Named{i} }, func(v error) int { return v.(c06Named).n }, steps, sd+1)
		c06Instantiation[any](c, "any", func(i int) any { return i }, func(v any) int { return v.(int) }, steps, sd+2)
		c06Instantiation[interface{ Error() string }](c, "anonymous interface", func(i int) interface{ Error() string } { return errors.New(fmt.Sprint(i)) }, func(v interface{ Error() string }) int {
			n := 0
			fmt.Sscan(v.Error(), &n)
			return n
		}, steps, sd+3)
		c06Instantiation[c06Named](c, "struct", func(i int) c06Named { return c06Named{i} }, func(v c06Named) int { return v.n }, steps, sd+4)
		c06Instantiation[*c06Named](c, "*struct", func(i int) *c06Named { return &c06Named{i} }, func(v *c06Named) int { return v.n }, steps, sd+5)
		c06Instantiation[string](c, "string", func(i int) string { return fmt.Sprint(i) }, func(v string) int {
			n := 0
			fmt.Sscan(v, &n)
			return n
		}, steps, sd+6)
		c06Instantiation[func() int](c, "func", func(i int) func() int { return func() int { return i } }, func(v func() int) int { return v() }, steps, sd+7)
	}
	c.Count("instantiation_probe_ms", time.Since(start).Milliseconds())
}
