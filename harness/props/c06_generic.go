package props

import (
	"errors"
	"fmt"
	"math/rand"
	"runtime"
	"time"

	fpgo "github.com/TeaEntityLab/fpGo/v2"

	"verifharness/internal/core"
)

// C06 for OTHER element types, several of them alive in one process: interface element types (error, fmt.Stringer, any),
// a struct, a func-free pointer type and a string - each driven by PRNG histories against a slice model. Anything shared
// between instantiations (package-level pools or caches keyed by the element type) shows here.

type c06Named struct{ n int }

func (s c06Named) String() string { return fmt.Sprint("named", s.n) }
func (s c06Named) Error() string  { return fmt.Sprint("err", s.n) }

func c06Instantiation[T any](c *core.Ctx, tname string, mk func(i int) T, id func(T) int, steps int, seed int64) {
	q := fpgo.NewLinkedListQueue[T]()
	var model []int
	rng := rand.New(rand.NewSource(seed))
	next := 1
	var trace []string
	viol := func(key, format string, args ...any) {
		tail := trace
		if len(tail) > 14 {
			tail = tail[len(tail)-14:]
		}
		c.Violationf("instantiation["+tname+"]:"+key, map[string]any{"element_type": tname, "last_operations": tail}, "LinkedListQueue[%s] (other instantiations are alive in this process): %s; last operations %v", tname, fmt.Sprintf(format, args...), tail)
	}
	for s := 0; s < steps; s++ {
		op := rng.Intn(10)
		bad := false
		pv, where := core.Catch(func() {
			switch op {
			case 0, 1, 2:
				trace = append(trace, fmt.Sprintf("Offer(%d)", next))
				q.Offer(mk(next))
				model = append(model, next)
				next++
			case 3:
				trace = append(trace, fmt.Sprintf("Unshift(%d)", next))
				q.Unshift(mk(next))
				model = append([]int{next}, model...)
				next++
			case 4:
				trace = append(trace, fmt.Sprintf("Push(%d)", next))
				q.Push(mk(next))
				model = append(model, next)
				next++
			case 5, 6:
				trace = append(trace, "Poll")
				v, err := q.Poll()
				if len(model) == 0 {
					if err != fpgo.ErrQueueIsEmpty {
						viol("wrong-error", "Poll on an empty queue returned (%v, %v)", v, err)
						bad = true
					}
					return
				}
				if err != nil || id(v) != model[0] {
					viol("wrong-value", "Poll returned (%v, %v), want element %d", v, err, model[0])
					bad = true
				}
				model = model[1:]
			case 7:
				trace = append(trace, "Pop")
				v, err := q.Pop()
				if len(model) == 0 {
					if err != fpgo.ErrStackIsEmpty {
						viol("wrong-error", "Pop on an empty queue returned (%v, %v)", v, err)
						bad = true
					}
					return
				}
				if err != nil || id(v) != model[len(model)-1] {
					viol("wrong-value", "Pop returned (%v, %v), want element %d", v, err, model[len(model)-1])
					bad = true
				}
				model = model[:len(model)-1]
			case 8:
				k := rng.Intn(5)
				trace = append(trace, fmt.Sprintf("KeepNodePoolCount(%d)", k))
				q.KeepNodePoolCount(k)
			default:
				if rng.Intn(6) == 0 {
					trace = append(trace, "Clear")
					q.Clear()
					model = nil
				} else {
					trace = append(trace, "Peek")
					v, err := q.Peek()
					if len(model) == 0 {
						if err == nil {
							viol("wrong-error", "Peek on an empty queue returned (%v, nil)", v)
							bad = true
						}
					} else if err != nil || id(v) != model[0] {
						viol("wrong-value", "Peek returned (%v, %v), want element %d", v, err, model[0])
						bad = true
					}
				}
			}
			if q.Count() != len(model) {
				viol("count", "Count()=%d, model holds %d", q.Count(), len(model))
				bad = true
			}
		})
		if pv != nil {
			viol("panic:"+core.NormalizePanic(fmt.Sprint(pv)), "%s panics: %v at %s", trace[len(trace)-1], pv, where)
			return
		}
		if bad {
			return
		}
	}
}

// spare nodes given back in bulk (ClearNodePool / KeepNodePoolCount after a large drain) while the owner carries on at
// once, with and without a short pause: whatever the release does, it does it before the call returns
func c06ReleaseThenCarryOn(c *core.Ctx) {
	for round := 0; round < 900; round++ {
		c.Eval(1)
		c.DistinctAdd(1)
		bad := ""
		pv, where := core.Catch(func() {
			q := fpgo.NewLinkedListQueue[int]()
			next, head := 0, 0
			offer := func(n int) {
				for i := 0; i < n; i++ {
					q.Offer(next)
					next++
				}
			}
			poll := func(n int) {
				for i := 0; i < n && bad == ""; i++ {
					v, err := q.Poll()
					if err != nil || v != head {
						bad = fmt.Sprintf("Poll returned (%d, %v), want %d", v, err, head)
					}
					head++
				}
			}
			offer(200 + round%50)
			poll(150)
			switch round % 3 {
			case 0:
				q.ClearNodePool()
			case 1:
				q.KeepNodePoolCount(1)
			default:
				q.KeepNodePoolCount(0)
			}
			// the owner carries on AT ONCE (a few items come and go: their nodes are the new spare list), then is busy
			// elsewhere for a moment
			offer(8)
			poll(8)
			switch round % 4 {
			case 1:
				runtime.Gosched()
			case 2:
				time.Sleep(200 * time.Microsecond)
			case 3:
				time.Sleep(2 * time.Millisecond)
			}
			for k := 0; k < 6 && bad == ""; k++ {
				poll(20)
				offer(30)
				if k == 2 {
					time.Sleep(300 * time.Microsecond)
				}
			}
			poll(next - head)
			if bad == "" && q.Count() != 0 {
				bad = fmt.Sprintf("Count()=%d after a complete drain", q.Count())
			}
		})
		if pv != nil {
			bad = fmt.Sprintf("panics: %v at %s", pv, where)
		}
		if bad != "" {
			c.Violationf("release-then-carry-on", map[string]any{"round": round}, "200+ Offers, 150 Polls, then %s, a pause of %s, then Polls and Offers again: %s", [...]string{"ClearNodePool()", "KeepNodePoolCount(1)", "KeepNodePoolCount(0)"}[round%3], [...]string{"nothing", "one Gosched", "200 us", "2 ms"}[round%4], bad)
			return
		}
	}
	// a queue held BY VALUE (a copy of the freshly constructed, unused queue, e.g. as a struct field)
	c.Eval(1)
	c.DistinctAdd(1)
	pv, where := core.Catch(func() {
		type holder struct{ items fpgo.LinkedListQueue[int] }
		h := holder{items: *fpgo.NewLinkedListQueue[int]()}
		q := &h.items
		if _, err := q.Peek(); err == nil {
			c.Violationf("held-by-value", nil, "Peek on an empty queue held by value returned no error")
		}
		if _, err := q.Pop(); err != fpgo.ErrStackIsEmpty {
			c.Violationf("held-by-value", nil, "Pop on an empty queue held by value returned %v", err)
		}
		for i := 1; i <= 5; i++ {
			q.Offer(i)
		}
		q.Unshift(0)
		for want := 0; want <= 5; want++ {
			if v, err := q.Poll(); err != nil || v != want {
				c.Violationf("held-by-value", nil, "a LinkedListQueue held by value (copy of the freshly constructed queue): Poll returned (%d, %v), want %d", v, err, want)
				return
			}
		}
		if _, err := q.Poll(); err != fpgo.ErrQueueIsEmpty || q.Count() != 0 {
			c.Violationf("held-by-value", nil, "drained queue held by value: Poll error %v, Count %d", err, q.Count())
		}
	})
	if pv != nil {
		c.Violationf("held-by-value:panic", nil, "a LinkedListQueue held by value (copy of the freshly constructed, unused queue) panics: %v at %s", pv, where)
	}
}

func c06Generic(c *core.Ctx) {
	c06ReleaseThenCarryOn(c)
	steps := c.Pick(3000, 40000)
	start := time.Now()
	for round := 0; round < 2; round++ {
		c.Eval(8)
		c.DistinctAdd(8)
		sd := c.Seed*17 + int64(round)
		c06Instantiation[fmt.Stringer](c, "fmt.Stringer", func(i int) fmt.Stringer { return c06Named{i} }, func(v fmt.Stringer) int { return v.(c06Named).n }, steps, sd)
		c06Instantiation[error](c, "error", func(i int) error { return c06Named{i} }, func(v error) int { return v.(c06Named).n }, steps, sd+1)
		c06Instantiation[any](c, "any", func(i int) any { return i }, func(v any) int { return v.(int) }, steps, sd+2)
		c06Instantiation[interface{ Error() string }](c, "anonymous interface", func(i int) interface{ Error() string } { return errors.New(fmt.Sprint(i)) }, func(v interface{ Error() string }) int {
			n := 0
			fmt.Sscan(v.Error(), &n)
			return n
		}, steps, sd+3)
		c06Instantiation[c06Named](c, "struct", func(i int) c06Named { return c06Named{i} }, func(v c06Named) int { return v.n }, steps, sd+4)
		c06Instantiation[*c06Named](c, "*struct", func(i int) *c06Named { return &c06Named{i} }, func(v *c06Named) int { return v.n }, steps, sd+5)
		c06Instantiation[string](c, "string", func(i int) string { return fmt.Sprint(i) }, func(v string) int {
			n := 0
			fmt.Sscan(v, &n)
			return n
		}, steps, sd+6)
		c06Instantiation[func() int](c, "func", func(i int) func() int { return func() int { return i } }, func(v func() int) int { return v() }, steps, sd+7)
	}
	c.Count("instantiation_probe_ms", time.Since(start).Milliseconds())
}
