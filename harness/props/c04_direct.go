package props

import (
	"fmt"
	"sort"

	fpgo "github.com/TeaEntityLab/fpGo/v2"

	"verifharness/internal/core"
)

// Direct probes of C04 that the handle machine cannot express: callbacks that fail half way (the caller recovers and
// goes on using the receiver), and variadic arguments spread from a slice the caller keeps (`op(parts...)`).

type c04Boom struct{ at int }

func c04Direct(c *core.Ctx) {
	lists := [][]int{{5, 3, 4, 9, 1, 2}, {2, 1}, {1, 2, 3, 4, 5, 6, 7, 8}, {8, 7, 6, 5, 4, 3, 2, 1, 0}, {3, 3, 1, 1, 2, 2, 0}}
	toAny := func(l []int) []interface{} {
		out := make([]interface{}, len(l))
		for i, v := range l {
			out[i] = v
		}
		return out
	}
	fromAny := func(l []interface{}) []int {
		out := make([]int, len(l))
		for i, v := range l {
			out[i], _ = v.(int)
		}
		return out
	}
	// ---- 1. a callback that panics at its k-th invocation
	for _, fam := range []string{"generic", "interface{}"} {
		for _, op := range []string{"Sort", "Map", "Filter", "Reject"} {
			for li, l := range lists {
				for k := 1; k <= 3*len(l); k++ {
					c.Eval(1)
					c.DistinctAdd(1)
					calls := 0
					tick := func() {
						calls++
						if calls == k {
							panic(c04Boom{k})
						}
					}
					var readRecv, readEarlier func() []int
					var run func()
					if fam == "generic" {
						s := fpgo.StreamFromArray(append(make([]int, 0, len(l)+3), l...))
						earlier := s.Reverse()
						readRecv = func() []int { return s.ToArray() }
						readEarlier = func() []int { return earlier.ToArray() }
						run = func() {
							switch op {
							case "Sort":
								s.Sort(func(a, b int) bool { tick(); return a < b })
							case "Map":
								s.Map(func(v int, _ int) int { tick(); return v + 1 })
							case "Filter":
								s.Filter(func(v int, _ int) bool { tick(); return v%2 == 0 })
							default:
								s.Reject(func(v int, _ int) bool { tick(); return v%2 == 0 })
							}
						}
					} else {
						s := fpgo.StreamForInterface.FromArray(append(make([]interface{}, 0, len(l)+3), toAny(l)...))
						earlier := s.Reverse()
						readRecv = func() []int { return fromAny(s.ToArray()) }
						readEarlier = func() []int { return fromAny(earlier.ToArray()) }
						run = func() {
							switch op {
							case "Sort":
								s.Sort(func(a, b interface{}) bool { tick(); return a.(int) < b.(int) })
							case "Map":
								s.Map(func(v interface{}, _ int) interface{} { tick(); return v.(int) + 1 })
							case "Filter":
								s.Filter(func(v interface{}, _ int) bool { tick(); return v.(int)%2 == 0 })
							default:
								s.Reject(func(v interface{}, _ int) bool { tick(); return v.(int)%2 == 0 })
							}
						}
					}
					pv, where := core.Catch(run)
					if pv != nil {
						if _, mine := pv.(c04Boom); !mine {
							c.Violationf("direct:"+fam+":"+op+":foreign-panic", map[string]any{"list": fmt.Sprint(l), "k": k}, "%s stream %v: %s with a callback that panics at its call #%d raised another panic: %v at %s", fam, l, op, k, pv, where)
							continue
						}
					}
					rev := make([]int, len(l))
					for i, v := range l {
						rev[len(l)-1-i] = v
					}
					if got := readRecv(); !eqSeq(got, l) {
						c.Violationf("direct:"+fam+":"+op+":receiver-changed-after-failed-callback", map[string]any{"list": fmt.Sprint(l), "k": k},
							"%s stream %v: %s (not an in-place operation) whose callback panicked at its call #%d (the caller recovered) left the RECEIVER holding %v", fam, l, op, k, got)
						break
					}
					if got := readEarlier(); !eqSeq(got, rev) {
						c.Violationf("direct:"+fam+":"+op+":earlier-result-changed-after-failed-callback", map[string]any{"list": fmt.Sprint(l), "k": k},
							"%s stream %v: %s whose callback panicked at its call #%d changed the earlier result Reverse() to %v", fam, l, op, k, got)
						break
					}
					_ = li
				}
			}
		}
	}
	// ---- 2. variadic arguments spread from a slice the caller keeps
	partSets := [][][]int{
		{{1, 2}, {}, {3}, nil, {4, 5}},
		{nil, {7}},
		{{}, {}, {1}},
		{{1}, {2}, {3}},
		{nil, nil},
		{{9, 9}, nil, nil, {8}, {}, {7, 6, 5}},
	}
	for pi, parts := range partSets {
		for _, fam := range []string{"generic", "interface{}"} {
			c.Eval(1)
			c.DistinctAdd(1)
			rep := map[string]any{"family": fam, "parts": fmt.Sprint(parts)}
			var flat []int
			for _, p := range parts {
				flat = append(flat, p...)
			}
			base := []int{100, 101}
			want := append(append([]int(nil), base...), flat...)
			describe := func(ps [][]int) string {
				out := "["
				for _, p := range ps {
					if p == nil {
						out += "nil "
					} else {
						out += fmt.Sprint(p) + " "
					}
				}
				return out + "]"
			}
			if fam == "generic" {
				mine := make([][]int, len(parts), len(parts)+2)
				for i, p := range parts {
					if p != nil {
						mine[i] = append(make([]int, 0, len(p)+2), p...)
					}
				}
				before := describe(mine)
				s := fpgo.StreamFromArray(append([]int(nil), base...))
				r1 := s.Concat(mine...)
				if after := describe(mine); after != before {
					c.Violationf("direct:generic:Concat:argument-list-rewritten", rep, "s.Concat(parts...) rewrote the caller's slice of slices: before %s after %s", before, after)
					continue
				}
				r2 := s.Concat(mine...)
				direct := fpgo.Concat(append([]int(nil), base...), mine...)
				if after := describe(mine); after != before {
					c.Violationf("direct:generic:Concat:argument-list-rewritten", rep, "Concat(first, parts...) rewrote the caller's slice of slices: before %s after %s", before, after)
					continue
				}
				if !eqSeq(r1.ToArray(), want) || !eqSeq(r2.ToArray(), want) || !eqSeq(direct, want) || !eqSeq(s.ToArray(), base) {
					c.Violationf("direct:generic:Concat:wrong", rep, "Concat of %s onto %v gave %v, then %v (direct helper %v), receiver now %v; want %v", before, base, r1.ToArray(), r2.ToArray(), direct, s.ToArray(), want)
				}
				// Extend(streams...) and Append(items...) with caller-kept argument slices that have spare capacity
				var streams []*fpgo.StreamDef[int]
				for _, p := range parts {
					if p == nil {
						streams = append(streams, nil)
					} else {
						streams = append(streams, fpgo.StreamFromArray(append([]int(nil), p...)))
					}
				}
				keep := append([]*fpgo.StreamDef[int](nil), streams...)
				e1 := s.Extend(streams...)
				e2 := s.Extend(streams...)
				for i := range keep {
					if keep[i] != streams[i] {
						c.Violationf("direct:generic:Extend:argument-list-rewritten", rep, "s.Extend(streams...) rewrote the caller's slice of streams at index %d", i)
					}
				}
				if !eqSeq(e1.ToArray(), want) || !eqSeq(e2.ToArray(), want) {
					c.Violationf("direct:generic:Extend:wrong", rep, "Extend of %s onto %v gave %v then %v, want %v", before, base, e1.ToArray(), e2.ToArray(), want)
				}
				items := append(make([]int, 0, len(flat)+4), flat...)
				a1 := s.Append(items...)
				a2 := s.Append(items...)
				if !eqSeq(items, flat) || !eqSeq(a1.ToArray(), want) || !eqSeq(a2.ToArray(), want) {
					c.Violationf("direct:generic:Append:wrong", rep, "Append(items...) twice: items now %v (were %v), results %v and %v, want %v", items, flat, a1.ToArray(), a2.ToArray(), want)
				}
			} else {
				mine := make([][]interface{}, len(parts), len(parts)+2)
				for i, p := range parts {
					if p != nil {
						mine[i] = append(make([]interface{}, 0, len(p)+2), toAny(p)...)
					}
				}
				desc := func() string {
					ps := make([][]int, len(mine))
					for i, p := range mine {
						if p != nil {
							ps[i] = fromAny(p)
							if ps[i] == nil {
								ps[i] = []int{}
							}
						}
					}
					return describe(ps)
				}
				before := desc()
				s := fpgo.StreamForInterface.FromArray(toAny(base))
				r1 := s.Concat(mine...)
				if after := desc(); after != before {
					c.Violationf("direct:interface{}:Concat:argument-list-rewritten", rep, "s.Concat(parts...) rewrote the caller's slice of slices: before %s after %s", before, after)
					continue
				}
				r2 := s.Concat(mine...)
				if !eqSeq(fromAny(r1.ToArray()), want) || !eqSeq(fromAny(r2.ToArray()), want) || !eqSeq(fromAny(s.ToArray()), base) {
					c.Violationf("direct:interface{}:Concat:wrong", rep, "Concat of %s onto %v gave %v, then %v, receiver now %v; want %v", before, base, r1.ToArray(), r2.ToArray(), s.ToArray(), want)
				}
			}
			_ = pi
		}
	}
	// ---- 3. callbacks with memory, and sorts of elements that tie but can be told apart
	for _, l := range [][]int{{1, 1, 2, 3, 2, 4}, {5}, {2, 2, 2}, {9, 8, 7, 9, 8, 7, 1}, {}} {
		c.Eval(1)
		c.DistinctAdd(1)
		var want []int
		seenW := map[int]bool{}
		for _, x := range l {
			if !seenW[x] {
				seenW[x] = true
				want = append(want, x)
			}
		}
		var calls []int
		seen := map[int]bool{}
		firstOcc := func(x int, i int) bool {
			calls = append(calls, i)
			if seen[x] {
				return false
			}
			seen[x] = true
			return true
		}
		sg := fpgo.StreamFromArray(append([]int(nil), l...))
		if got := sg.Filter(firstOcc).ToArray(); !eqSeq(got, want) || len(calls) != len(l) {
			c.Violationf("direct:generic:Filter:stateful-predicate", map[string]any{"list": fmt.Sprint(l)}, "generic stream %v: Filter(first occurrence) gives %v, want %v; the predicate was asked at indices %v (once per element, in order)", l, got, want, calls)
		}
		calls, seen = nil, map[int]bool{}
		si := fpgo.StreamForInterface.FromArray(toAny(l))
		if got := fromAny(si.Filter(func(x interface{}, i int) bool { return firstOcc(x.(int), i) }).ToArray()); !eqSeq(got, want) || len(calls) != len(l) {
			c.Violationf("direct:interface{}:Filter:stateful-predicate", map[string]any{"list": fmt.Sprint(l)}, "interface{} stream %v: Filter(first occurrence) gives %v, want %v; the predicate was asked at indices %v", l, got, want, calls)
		}
		calls, seen = nil, map[int]bool{}
		var wantRej []int
		{
			s2 := map[int]bool{}
			for _, x := range l {
				if s2[x] {
					wantRej = append(wantRej, x)
				}
				s2[x] = true
			}
		}
		if got := sg.Reject(firstOcc).ToArray(); !eqSeq(got, wantRej) || len(calls) != len(l) {
			c.Violationf("direct:generic:Reject:stateful-predicate", map[string]any{"list": fmt.Sprint(l)}, "generic stream %v: Reject(first occurrence) gives %v, want %v; the predicate was asked at indices %v", l, got, wantRej, calls)
		}
		if !eqSeq(sg.ToArray(), l) {
			c.Violationf("direct:generic:Filter:receiver-changed", map[string]any{"list": fmt.Sprint(l)}, "receiver changed to %v", sg.ToArray())
		}
	}
	type rec struct{ key, id int }
	for _, n := range []int{2, 5, 12, 13, 16, 20, 26, 40, 100} {
		c.Eval(1)
		c.DistinctAdd(1)
		in := make([]rec, n)
		for i := range in {
			in[i] = rec{key: (i * 7) % 4, id: i}
		}
		ref := append([]rec(nil), in...)
		sort.SliceStable(ref, func(a, b int) bool { return ref[a].key < ref[b].key })
		sg := fpgo.StreamFromArray(append([]rec(nil), in...))
		got := sg.Sort(func(a, b rec) bool { return a.key < b.key }).ToArray()
		same := len(got) == n
		for i := 0; same && i < n; i++ {
			same = got[i] == ref[i]
		}
		if !same {
			c.Violationf("direct:generic:Sort:not-the-stable-order", map[string]any{"elements": n}, "generic stream of %d records with 4 distinct keys: Sort returns %v, the stable order is %v", n, got, ref)
		}
		ia := make([]interface{}, n)
		for i := range in {
			ia[i] = in[i]
		}
		gi := fpgo.StreamForInterface.FromArray(ia).Sort(func(a, b interface{}) bool { return a.(rec).key < b.(rec).key }).ToArray()
		same = len(gi) == n
		for i := 0; same && i < n; i++ {
			same = gi[i].(rec) == ref[i]
		}
		if !same {
			c.Violationf("direct:interface{}:Sort:not-the-stable-order", map[string]any{"elements": n}, "interface{} stream of %d records with 4 distinct keys: Sort returns %v, the stable order is %v", n, gi, ref)
		}
		for i, r := range sg.ToArray() {
			if r != in[i] {
				c.Violationf("direct:generic:Sort:receiver-changed", map[string]any{"elements": n}, "Sort changed the receiver")
				break
			}
		}
	}
	// ---- 4. SortByIndex: the index comparator addresses the elements as they are being sorted, whichever way it reads them
	// (through the receiver's Get, through the receiver's slice, through a slice header taken before the call)
	for _, l := range [][]int{{5, 3, 9, 1, 7, 2, 8}, {2, 1}, {3, 1, 2}, {9, 8, 7, 6, 5, 4, 3, 2, 1, 0, 11, 10}, {1, 2, 3}} {
		want := append([]int(nil), l...)
		sort.Ints(want)
		for _, how := range []string{"receiver.Get(i)", "(*receiver)[i]", "a slice header of the receiver taken before the call"} {
			c.Eval(1)
			c.DistinctAdd(1)
			sg := fpgo.StreamFromArray(append([]int(nil), l...))
			view := *sg
			var cmp func(i, j int) bool
			switch how {
			case "receiver.Get(i)":
				cmp = func(i, j int) bool { return sg.Get(i) < sg.Get(j) }
			case "(*receiver)[i]":
				cmp = func(i, j int) bool { return (*sg)[i] < (*sg)[j] }
			default:
				cmp = func(i, j int) bool { return view[i] < view[j] }
			}
			var got []int
			pv, where := core.Catch(func() { got = sg.SortByIndex(cmp).ToArray() })
			if pv != nil {
				c.Violationf("direct:generic:SortByIndex:panic", map[string]any{"list": fmt.Sprint(l), "comparator": how}, "generic SortByIndex on %v with a comparator reading %s panics: %v at %s", l, how, pv, where)
			} else if !eqSeq(got, want) {
				c.Violationf("direct:generic:SortByIndex:not-sorted", map[string]any{"list": fmt.Sprint(l), "comparator": how}, "generic stream %v: SortByIndex with a comparator reading %s returns %v, want %v", l, how, got, want)
			}
			si := fpgo.StreamForInterface.FromArray(toAny(l))
			viewI := *si
			var cmpI func(i, j int) bool
			switch how {
			case "receiver.Get(i)":
				cmpI = func(i, j int) bool { return si.Get(i).(int) < si.Get(j).(int) }
			case "(*receiver)[i]":
				cmpI = func(i, j int) bool { return (*si)[i].(int) < (*si)[j].(int) }
			default:
				cmpI = func(i, j int) bool { return viewI[i].(int) < viewI[j].(int) }
			}
			var gotI []int
			pv, where = core.Catch(func() { gotI = fromAny(si.SortByIndex(cmpI).ToArray()) })
			if pv != nil {
				c.Violationf("direct:interface{}:SortByIndex:panic", map[string]any{"list": fmt.Sprint(l), "comparator": how}, "interface{} SortByIndex on %v with a comparator reading %s panics: %v at %s", l, how, pv, where)
			} else if !eqSeq(gotI, want) {
				c.Violationf("direct:interface{}:SortByIndex:not-sorted", map[string]any{"list": fmt.Sprint(l), "comparator": how}, "interface{} stream %v: SortByIndex with a comparator reading %s returns %v, want %v", l, how, gotI, want)
			}
		}
	}
	// ---- 5. elements that are themselves slices (rows): an element is an element, however many arguments there are
	{
		rowA, rowB, rowC, empty := []interface{}{"alice", 1}, []interface{}{"bob", 2}, []interface{}{"carol", 3}, []interface{}{}
		type tc struct {
			name string
			s    *fpgo.StreamForInterfaceDef
			n    int
		}
		base := fpgo.StreamForInterface.From(rowA, rowB)
		cases := []tc{
			{"From(row)", fpgo.StreamForInterface.From(rowA), 1},
			{"From(emptyRow)", fpgo.StreamForInterface.From(empty), 1},
			{"From(rowA, rowB)", base, 2},
			{"From(rowA, rowB).Append(rowC)", base.Append(rowC), 3},
			{"From(rowA, rowB).Append(rowC, rowA)", base.Append(rowC, rowA), 4},
			{"From(rowA, rowB).Append(emptyRow)", base.Append(empty), 3},
			{"From().Append(rowA)", fpgo.StreamForInterface.From().Append(rowA), 1},
			{"FromArray([]interface{}{rowA})", fpgo.StreamForInterface.FromArray([]interface{}{rowA}), 1},
			{"From(rowA).Concat([]interface{}{rowB})", fpgo.StreamForInterface.From(rowA).Concat([]interface{}{rowB}), 2},
		}
		for _, t := range cases {
			c.Eval(1)
			c.DistinctAdd(1)
			bad := t.s.Len() != t.n || len(t.s.ToArray()) != t.n
			for i := 0; !bad && i < t.n; i++ {
				if _, isRow := t.s.Get(i).([]interface{}); !isRow {
					bad = true
				}
			}
			if bad {
				c.Violationf("direct:interface{}:rows-as-elements", map[string]any{"case": t.name}, "interface{} stream whose elements are rows ([]interface{} values): %s has Len %d and holds %v, want %d rows", t.name, t.s.Len(), t.s.ToArray(), t.n)
			}
		}
	}
	c.Count("direct_probes.failing_callbacks_and_spread_arguments", 1)
}
