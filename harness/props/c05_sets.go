package props

import (
	"fmt"
	"sort"

	fpgo "github.com/TeaEntityLab/fpGo/v2"

	"verifharness/internal/core"
)

// C05 — set algebra laws (non-empty operands) and generic / interface{} twin agreement (all operands).

func box(l []int) []interface{} {
	if l == nil {
		return nil
	}
	o := make([]interface{}, len(l))
	for i, v := range l {
		o[i] = v
	}
	return o
}

func unbox(l []interface{}) ([]int, bool) {
	o := make([]int, len(l))
	for i, v := range l {
		x, ok := v.(int)
		if !ok {
			return nil, false
		}
		o[i] = x
	}
	return o, true
}

func has(l []int, x int) bool {
	for _, v := range l {
		if v == x {
			return true
		}
	}
	return false
}

func noDup(l []int) bool {
	m := map[int]bool{}
	for _, v := range l {
		if m[v] {
			return false
		}
		m[v] = true
	}
	return true
}

// subsequenceOrder: the elements of res appear in the order of their first occurrence in first
func followsOrder(res, first []int) bool {
	pos := map[int]int{}
	for i, v := range first {
		if _, ok := pos[v]; !ok {
			pos[v] = i
		}
	}
	last := -1
	for _, v := range res {
		p, ok := pos[v]
		if !ok || p < last {
			return false
		}
		last = p
	}
	return true
}

// isSubsequence: res can be obtained from first by deleting elements (order and multiplicity kept)
func isSubsequence(res, first []int) bool {
	j := 0
	for _, v := range first {
		if j < len(res) && res[j] == v {
			j++
		}
	}
	return j == len(res)
}

func sortedInts(l []int) []int {
	o := append([]int(nil), l...)
	sort.Ints(o)
	return o
}

func keysOfAny(m map[interface{}]interface{}) ([]int, bool) {
	var o []int
	for k := range m {
		x, ok := k.(int)
		if !ok {
			return nil, false
		}
		o = append(o, x)
	}
	sort.Ints(o)
	return o, true
}

func keysOf[V any](m map[int]V) []int {
	var o []int
	for k := range m {
		o = append(o, k)
	}
	sort.Ints(o)
	return o
}

type c05Env struct {
	c *core.Ctx
}

func (e *c05Env) law(op string, operands any, nonEmpty bool, fn func() string) {
	e.c.Eval(1)
	if nonEmpty {
		e.c.DistinctAdd(1)
	}
	var msg string
	pv, where := core.Catch(func() { msg = fn() })
	if pv != nil {
		e.c.Violationf("panic:"+op+":"+core.NormalizePanic(fmt.Sprint(pv)), map[string]any{"op": op, "operands": fmt.Sprint(operands)}, "%s panics on %v: %v at %s", op, operands, pv, where)
		return
	}
	if msg != "" {
		e.c.Violationf(op, map[string]any{"op": op, "operands": fmt.Sprint(operands)}, "%s on %v: %s", op, operands, msg)
	}
}

// twin compares a generic call with its interface{} twin; both may panic, but then both must.
func (e *c05Env) twin(op string, operands any, g func() any, t func() any, eq func(a, b any) bool) {
	e.c.Eval(1)
	e.c.DistinctAdd(1)
	var ga, ta any
	pg, _ := core.Catch(func() { ga = g() })
	pt, _ := core.Catch(func() { ta = t() })
	if pg != nil || pt != nil {
		if (pg != nil) != (pt != nil) {
			e.c.Violationf("twin:"+op+":panic-one-side", map[string]any{"op": op, "operands": fmt.Sprint(operands)}, "%s on %v: generic panic=%v, interface{} twin panic=%v", op, operands, pg, pt)
		}
		return
	}
	if !eq(ga, ta) {
		e.c.Violationf("twin:"+op, map[string]any{"op": op, "operands": fmt.Sprint(operands)}, "%s on %v: generic returns %v, interface{} twin returns %v", op, operands, ga, ta)
	}
}

func eqSeqTwin(a, b any) bool {
	x := a.([]int)
	y, ok := unbox(b.([]interface{}))
	return ok && eqSeq(x, y)
}

func eqMultisetTwin(a, b any) bool {
	x := a.([]int)
	y, ok := unbox(b.([]interface{}))
	return ok && eqSeq(sortedInts(x), sortedInts(y))
}

func eqBool(a, b any) bool { return a.(bool) == b.(bool) }

func c05Lists(maxLen int) [][]int {
	l := allLists([]int{0, 1, 2}, maxLen)
	l = append(l, nil)
	return l
}

func c05SliceLevel(e *c05Env, lists [][]int) {
	n := len(lists)
	// pairs
	parallelFor(n*n, func(w, pi int) {
		a, b := lists[pi/n], lists[pi%n]
		ne := len(a) > 0 && len(b) > 0
		ops := []any{a, b}
		if ne {
			e.law("law:Minus", ops, true, func() string {
				r := fpgo.Minus(a, b)
				for x := -1; x <= 3; x++ {
					if has(r, x) != (has(a, x) && !has(b, x)) {
						return fmt.Sprintf("membership of %d wrong in %v", x, r)
					}
				}
				if !isSubsequence(r, a) { // Minus keeps the duplicates of its first operand
					return fmt.Sprintf("%v is not a subsequence of the first operand", r)
				}
				return ""
			})
			e.law("law:IsSubset/IsSuperset", ops, true, func() string {
				want := true
				for _, x := range a {
					if !has(b, x) {
						want = false
					}
				}
				if fpgo.IsSubset(a, b) != want {
					return fmt.Sprintf("IsSubset=%v, want %v", !want, want)
				}
				if fpgo.IsSuperset(b, a) != want {
					return fmt.Sprintf("IsSuperset(b,a)=%v, want %v", !want, want)
				}
				return ""
			})
			e.law("law:derived-identities", ops, true, func() string {
				// A = (A\B) u (A n B) as sets;  A subset B  <=>  A\B empty
				u := fpgo.Union(fpgo.Minus(a, b), fpgo.Intersection(a, b))
				if !eqSeq(sortedInts(u), sortedInts(fpgo.Distinct(a...))) {
					return fmt.Sprintf("(A\\B) u (AnB) = %v, but A = %v", u, a)
				}
				if fpgo.IsSubset(a, b) != (len(fpgo.Minus(a, b)) == 0) {
					return "IsSubset(A,B) disagrees with Minus(A,B) being empty"
				}
				return ""
			})
			// Stream level laws
			sa, sb := fpgo.StreamFromArray(append([]int(nil), a...)), fpgo.StreamFromArray(append([]int(nil), b...))
			e.law("law:Stream.Intersection/Minus/IsSubset", ops, true, func() string {
				ri, rm := sa.Intersection(sb).ToArray(), sa.Minus(sb).ToArray()
				for x := -1; x <= 3; x++ {
					if has(ri, x) != (has(a, x) && has(b, x)) {
						return fmt.Sprintf("Intersection membership of %d wrong in %v", x, ri)
					}
					if has(rm, x) != (has(a, x) && !has(b, x)) {
						return fmt.Sprintf("Minus membership of %d wrong in %v", x, rm)
					}
				}
				if !noDup(ri) || !followsOrder(ri, a) || !isSubsequence(rm, a) {
					return fmt.Sprintf("Intersection %v / Minus %v: duplicates or order", ri, rm)
				}
				want := true
				for _, x := range a {
					if !has(b, x) {
						want = false
					}
				}
				if sa.IsSubset(sb) != want || sb.IsSuperset(sa) != want {
					return fmt.Sprintf("IsSubset=%v IsSuperset=%v want %v", sa.IsSubset(sb), sb.IsSuperset(sa), want)
				}
				return ""
			})
			// MapSet by key
			ma, mb := fpgo.SetFrom[int, int](a...), fpgo.SetFrom[int, int](b...)
			e.law("law:MapSet.Union/Intersection/Minus/IsSubsetByKey", ops, true, func() string {
				ru, ri, rm := ma.Union(mb).Keys(), ma.Intersection(mb).Keys(), ma.Minus(mb).Keys()
				for x := -1; x <= 3; x++ {
					if has(ru, x) != (has(a, x) || has(b, x)) || has(ri, x) != (has(a, x) && has(b, x)) || has(rm, x) != (has(a, x) && !has(b, x)) {
						return fmt.Sprintf("membership of %d wrong: union %v intersection %v minus %v", x, ru, ri, rm)
					}
				}
				if !noDup(ru) || !noDup(ri) || !noDup(rm) {
					return "duplicate keys"
				}
				want := true
				for _, x := range a {
					if !has(b, x) {
						want = false
					}
				}
				if ma.IsSubsetByKey(mb) != want || mb.IsSupersetByKey(ma) != want {
					return fmt.Sprintf("IsSubsetByKey=%v IsSupersetByKey=%v want %v", ma.IsSubsetByKey(mb), mb.IsSupersetByKey(ma), want)
				}
				return ""
			})
		}
		// twins (all operands)
		ba, bb := box(a), box(b)
		e.twin("Minus", ops, func() any { return fpgo.Minus(a, b) }, func() any { return fpgo.MinusForInterface(ba, bb) }, eqSeqTwin)
		e.twin("IsSubset", ops, func() any { return fpgo.IsSubset(a, b) }, func() any { return fpgo.IsSubsetForInterface(ba, bb) }, eqBool)
		e.twin("IsSuperset", ops, func() any { return fpgo.IsSuperset(a, b) }, func() any { return fpgo.IsSupersetForInterface(ba, bb) }, eqBool)
		e.twin("Intersection/2", ops, func() any { return fpgo.Intersection(a, b) }, func() any { return fpgo.IntersectionForInterface(ba, bb) }, eqSeqTwin)
		// streams (fresh copies; nil list => nil *Stream for the argument side as well as an empty-list stream)
		mkS := func(l []int) (*fpgo.StreamDef[int], *fpgo.StreamForInterfaceDef) {
			return fpgo.StreamFromArray(append([]int(nil), l...)), fpgo.StreamForInterface.FromArray(box(append([]int(nil), l...)))
		}
		sa, ia := mkS(a)
		sb, ib := mkS(b)
		var nsb *fpgo.StreamDef[int]
		var nib *fpgo.StreamForInterfaceDef
		if b != nil {
			nsb, nib = sb, ib
		}
		arr := func(s *fpgo.StreamDef[int]) any { return s.ToArray() }
		iarr := func(s *fpgo.StreamForInterfaceDef) any { return s.ToArray() }
		e.twin("Stream.Intersection", ops, func() any { return arr(sa.Intersection(nsb)) }, func() any { return iarr(ia.Intersection(nib)) }, eqSeqTwin)
		e.twin("Stream.Minus", ops, func() any { return arr(sa.Minus(nsb)) }, func() any { return iarr(ia.Minus(nib)) }, eqSeqTwin)
		e.twin("Stream.IsSubset", ops, func() any { return sa.IsSubset(nsb) }, func() any { return ia.IsSubset(nib) }, eqBool)
		e.twin("Stream.IsSuperset", ops, func() any { return sa.IsSuperset(nsb) }, func() any { return ia.IsSuperset(nib) }, eqBool)
		e.twin("Stream.RemoveItem", ops, func() any { return arr(sa.RemoveItem(b...)) }, func() any { return iarr(ia.RemoveItem(bb...)) }, eqSeqTwin)
		e.twin("Stream.Append", ops, func() any { return arr(sa.Append(b...)) }, func() any { return iarr(ia.Append(bb...)) }, eqSeqTwin)
		e.twin("Stream.Concat", ops, func() any { return arr(sa.Concat(b, nil, a)) }, func() any { return iarr(ia.Concat(bb, nil, ba)) }, eqSeqTwin)
		e.twin("Stream.Extend", ops, func() any { return arr(sa.Extend(nsb, nil, sa)) }, func() any { return iarr(ia.Extend(nib, nil, ia)) }, eqSeqTwin)
		// sets by key
		ga, gb := fpgo.SetFrom[int, int](a...), fpgo.SetFrom[int, int](b...)
		ta, tb := fpgo.SetForInterfaceFrom(ba...), fpgo.SetForInterfaceFrom(bb...)
		var gbi fpgo.SetDef[int, int] = gb
		tbp := tb
		if b == nil { // nil operand: untyped nil interface for the generic family, nil pointer for the twin
			gbi, tbp = nil, nil
		}
		gkeys := func(s fpgo.SetDef[int, int]) any { return sortedInts(s.Keys()) }
		tkeys := func(s *fpgo.SetForInterfaceDef) any { return s.Keys() }
		e.twin("Set.Union", ops, func() any { return gkeys(ga.Union(gbi)) }, func() any { return tkeys(ta.Union(tbp)) }, eqMultisetTwin)
		e.twin("Set.Intersection", ops, func() any { return gkeys(ga.Intersection(gbi)) }, func() any { return tkeys(ta.Intersection(tbp)) }, eqMultisetTwin)
		e.twin("Set.Minus", ops, func() any { return gkeys(ga.Minus(gbi)) }, func() any { return tkeys(ta.Minus(tbp)) }, eqMultisetTwin)
		e.twin("Set.IsSubsetByKey", ops, func() any { return ga.IsSubsetByKey(gb) }, func() any { return ta.IsSubsetByKey(tb) }, eqBool)
		e.twin("Set.IsSupersetByKey", ops, func() any { return ga.IsSupersetByKey(gb) }, func() any { return ta.IsSupersetByKey(tb) }, eqBool)
		e.twin("Set.Add", ops, func() any { return gkeys(ga.Add(b...)) }, func() any { return tkeys(ta.Add(bb...)) }, eqMultisetTwin)
		e.twin("Set.RemoveKeys", ops, func() any { return gkeys(ga.RemoveKeys(b...)) }, func() any { return tkeys(ta.RemoveKeys(bb...)) }, eqMultisetTwin)
		// same values on both sides, then the value-level methods
		gv, tv := ga.Clone(), ta.Clone()
		for i, k := range a {
			gv.Set(k, i%2)
			tv.Set(k, i%2)
		}
		e.twin("Set.RemoveValues", ops, func() any { return gkeys(gv.RemoveValues(b...)) }, func() any { return tkeys(tv.RemoveValues(bb...)) }, eqMultisetTwin)
		e.twin("Set.Values", ops, func() any { return gv.Values() }, func() any { return tv.Values() }, eqMultisetTwin)
		e.twin("Set.MapValue", ops, func() any { return gv.MapValue(func(v int) int { return v + 5 }).Values() },
			func() any { return tv.MapValue(func(v interface{}) interface{} { return v.(int) + 5 }).Values() }, eqMultisetTwin)
		e.twin("Set.MapKey", ops, func() any { return gkeys(gv.MapKey(func(k int) int { return k % 2 })) },
			func() any { return tkeys(tv.MapKey(func(k interface{}) interface{} { return k.(int) % 2 })) }, eqMultisetTwin)
		for x := 0; x <= 3; x++ {
			x := x
			e.twin("Set.ContainsKey/ContainsValue/Get", []any{a, x}, func() any { return fmt.Sprint(gv.ContainsKey(x), gv.ContainsValue(x), gv.Get(x)) },
				func() any {
					g := tv.Get(x)
					if g == nil {
						g = 0 // a missing key yields the zero value of the value type in both families
					}
					return fmt.Sprint(tv.ContainsKey(x), tv.ContainsValue(x), g)
				}, func(p, q any) bool { return p.(string) == q.(string) })
		}
	})
	// single lists
	for _, a := range lists {
		a := a
		ba := box(a)
		if len(a) > 0 {
			e.law("law:Distinct", a, true, func() string {
				r := fpgo.Distinct(a...)
				if !noDup(r) || !followsOrder(r, a) {
					return fmt.Sprintf("%v has duplicates or wrong order", r)
				}
				for x := -1; x <= 3; x++ {
					if has(r, x) != has(a, x) {
						return fmt.Sprintf("membership of %d wrong in %v", x, r)
					}
				}
				return ""
			})
		}
		e.twin("Distinct", a, func() any { return fpgo.Distinct(a...) }, func() any { return fpgo.DistinctForInterface(ba...) }, eqSeqTwin)
		e.twin("Intersection/1", a, func() any { return fpgo.Intersection(a) }, func() any { return fpgo.IntersectionForInterface(ba) }, eqSeqTwin)
		e.twin("SliceToMap", a, func() any { return keysOf(fpgo.SliceToMap(1, a...)) }, func() any {
			m := fpgo.SliceToMapForInterface(1, ba...)
			var ks []interface{}
			for k := range m {
				ks = append(ks, k)
			}
			return ks
		}, eqMultisetTwin)
		for x := 0; x <= 3; x++ {
			x := x
			e.twin("Exists", []any{a, x}, func() any { return fpgo.Exists(x, a...) }, func() any { return fpgo.ExistsForInterface(x, ba...) }, eqBool)
		}
		sa, ia := fpgo.StreamFromArray(append([]int(nil), a...)), fpgo.StreamForInterface.FromArray(box(append([]int(nil), a...)))
		arr := func(s *fpgo.StreamDef[int]) any { return s.ToArray() }
		iarr := func(s *fpgo.StreamForInterfaceDef) any { return s.ToArray() }
		e.twin("Stream.Distinct", a, func() any { return arr(sa.Distinct()) }, func() any { return iarr(ia.Distinct()) }, eqSeqTwin)
		e.twin("Stream.Reverse", a, func() any { return arr(sa.Reverse()) }, func() any { return iarr(ia.Reverse()) }, eqSeqTwin)
		e.twin("Stream.Clone", a, func() any { return arr(sa.Clone()) }, func() any { return iarr(ia.Clone()) }, eqSeqTwin)
		e.twin("Stream.FilterNotNil", a, func() any { return arr(sa.FilterNotNil()) }, func() any { return iarr(ia.FilterNotNil()) }, eqSeqTwin)
		e.twin("Stream.Map", a, func() any { return arr(sa.Map(func(v, i int) int { return v*3 + i })) },
			func() any { return iarr(ia.Map(func(v interface{}, i int) interface{} { return v.(int)*3 + i })) }, eqSeqTwin)
		e.twin("Stream.Filter", a, func() any { return arr(sa.Filter(func(v, i int) bool { return (v+i)%2 == 0 })) },
			func() any { return iarr(ia.Filter(func(v interface{}, i int) bool { return (v.(int)+i)%2 == 0 })) }, eqSeqTwin)
		e.twin("Stream.Reject", a, func() any { return arr(sa.Reject(func(v, i int) bool { return (v+i)%2 == 0 })) },
			func() any { return iarr(ia.Reject(func(v interface{}, i int) bool { return (v.(int)+i)%2 == 0 })) }, eqSeqTwin)
		e.twin("Stream.Sort", a, func() any { return arr(sa.Sort(func(x, y int) bool { return x > y })) },
			func() any { return iarr(ia.Sort(func(x, y interface{}) bool { return x.(int) > y.(int) })) }, eqSeqTwin)
		e.twin("Stream.SortByIndex", a, func() any {
			cp := sa.Clone()
			return arr(cp.SortByIndex(func(i, j int) bool { return (*cp)[i] < (*cp)[j] }))
		}, func() any {
			cp := ia.Clone()
			return iarr(cp.SortByIndex(func(i, j int) bool { return (*cp)[i].(int) < (*cp)[j].(int) }))
		}, eqSeqTwin)
		e.twin("Stream.Len", a, func() any { return []int{sa.Len()} }, func() any { return []interface{}{ia.Len()} }, eqSeqTwin)
		for x := 0; x <= 3; x++ {
			x := x
			e.twin("Stream.Contains", []any{a, x}, func() any { return sa.Contains(x) }, func() any { return ia.Contains(x) }, eqBool)
		}
		for i := -1; i <= len(a); i++ {
			i := i
			// Remove: the interface{} twin mutates its receiver by design, so both sides work on clones
			e.twin("Stream.Remove", []any{a, i}, func() any { return arr(sa.Clone().Remove(i)) }, func() any { return iarr(ia.Clone().Remove(i)) }, eqSeqTwin)
			if i >= 0 && i < len(a) {
				e.twin("Stream.Get", []any{a, i}, func() any { return []int{sa.Get(i)} }, func() any { return []interface{}{ia.Get(i)} }, eqSeqTwin)
			}
		}
	}
}

func c05Triples(e *c05Env, lists [][]int) {
	n := len(lists)
	parallelFor(n*n*n, func(w, ti int) {
		a, b, cc := lists[ti/(n*n)], lists[(ti/n)%n], lists[ti%n]
		ops := []any{a, b, cc}
		if len(a) > 0 && len(b) > 0 && len(cc) > 0 {
			e.law("law:Union/Intersection/Difference", ops, true, func() string {
				u, in, d := fpgo.Union(a, b, cc), fpgo.Intersection(a, b, cc), fpgo.Difference(a, b, cc)
				for x := -1; x <= 3; x++ {
					ia, ib, ic := has(a, x), has(b, x), has(cc, x)
					if has(u, x) != (ia || ib || ic) {
						return fmt.Sprintf("Union membership of %d wrong in %v", x, u)
					}
					if has(in, x) != (ia && ib && ic) {
						return fmt.Sprintf("Intersection membership of %d wrong in %v", x, in)
					}
					if has(d, x) != (ia && !ib && !ic) {
						return fmt.Sprintf("Difference membership of %d wrong in %v", x, d)
					}
				}
				if !noDup(u) || !noDup(in) || !noDup(d) {
					return fmt.Sprintf("duplicates in union %v / intersection %v / difference %v", u, in, d)
				}
				if !followsOrder(in, a) || !followsOrder(d, a) {
					return fmt.Sprintf("intersection %v / difference %v do not follow the first operand's order", in, d)
				}
				return ""
			})
		}
		e.twin("Intersection/3", ops, func() any { return fpgo.Intersection(a, b, cc) }, func() any { return fpgo.IntersectionForInterface(box(a), box(b), box(cc)) }, eqSeqTwin)
	})
}

// ---- stream sets

type ssSpec [2]int // per key 0/1: 0 = key absent, 1 = nil stream pointer, 2.. = index into ssStreams+2

var ssStreams = [][]int{{}, {0}, {1}, {0, 0}, {0, 1}, {1, 0}, {1, 1}}

func ssBuild(sp ssSpec) (map[int]*fpgo.StreamDef[int], map[interface{}]*fpgo.StreamForInterfaceDef, map[int][]int, bool) {
	g := map[int]*fpgo.StreamDef[int]{}
	t := map[interface{}]*fpgo.StreamForInterfaceDef{}
	model := map[int][]int{}
	allNonEmpty := true
	for k := 0; k < 2; k++ {
		switch {
		case sp[k] == 0:
		case sp[k] == 1:
			g[k] = nil
			t[k] = nil
			model[k] = nil
			allNonEmpty = false
		default:
			l := ssStreams[sp[k]-2]
			g[k] = fpgo.StreamFromArray(append([]int(nil), l...))
			t[k] = fpgo.StreamForInterface.FromArray(box(append([]int{}, l...)))
			model[k] = l
			if len(l) == 0 {
				allNonEmpty = false
			}
		}
	}
	if len(model) == 0 {
		allNonEmpty = false
	}
	return g, t, model, allNonEmpty
}

func ssGeneric(s *fpgo.StreamSetDef[int, int]) map[int][]int {
	o := map[int][]int{}
	for k, v := range s.MapSetDef {
		if v == nil {
			o[k] = nil
		} else {
			o[k] = v.ToArray()
		}
	}
	return o
}

func ssTwin(s *fpgo.StreamSetForInterfaceDef) (map[int][]int, bool) {
	o := map[int][]int{}
	for k, v := range s.SetForInterfaceDef {
		ki, ok := k.(int)
		if !ok {
			return nil, false
		}
		if v == nil {
			o[ki] = nil
			continue
		}
		sp, ok := v.(*fpgo.StreamForInterfaceDef)
		if !ok {
			return nil, false
		}
		if sp == nil {
			o[ki] = nil
			continue
		}
		l, ok := unbox(sp.ToArray())
		if !ok {
			return nil, false
		}
		o[ki] = l
	}
	return o, true
}

func eqSS(a, b any) bool {
	x := a.(map[int][]int)
	y := b.(map[int][]int)
	return eqMapSeq(x, y)
}

func c05StreamSets(e *c05Env) {
	var specs []ssSpec
	for i := 0; i < 9; i++ {
		for j := 0; j < 9; j++ {
			specs = append(specs, ssSpec{i, j})
		}
	}
	n := len(specs)
	parallelFor(n*n, func(w, pi int) {
		spA, spB := specs[pi/n], specs[pi%n]
		ga, ta, ma, neA := ssBuild(spA)
		gb, tb, mb, neB := ssBuild(spB)
		A, B := fpgo.StreamSetFromMap(ga), fpgo.StreamSetFromMap(gb)
		TA, TB := fpgo.StreamSetForInterfaceFromMap(ta), fpgo.StreamSetForInterfaceFromMap(tb)
		ops := []any{ma, mb}
		if neA && neB {
			e.law("law:StreamSet.Union/Intersection/MinusStreams/Minus", ops, true, func() string {
				u, in, ms, mk := ssGeneric(A.Union(B)), ssGeneric(A.Intersection(B)), ssGeneric(A.MinusStreams(B)), ssGeneric(fpgo.StreamSetFromMap(A.Minus(&B.MapSetDef).AsMap()))
				for k := 0; k < 2; k++ {
					la, inA := ma[k]
					lb, inB := mb[k]
					if _, ok := u[k]; ok != (inA || inB) {
						return fmt.Sprintf("Union key %d presence wrong: %v", k, u)
					}
					if _, ok := in[k]; ok != (inA && inB) {
						return fmt.Sprintf("Intersection key %d presence wrong: %v", k, in)
					}
					if _, ok := ms[k]; ok != inA {
						return fmt.Sprintf("MinusStreams key %d presence wrong: %v", k, ms)
					}
					if _, ok := mk[k]; ok != (inA && !inB) {
						return fmt.Sprintf("Minus key %d presence wrong: %v", k, mk)
					}
					for x := 0; x <= 2; x++ {
						if inA || inB {
							if has(u[k], x) != (has(la, x) || has(lb, x)) {
								return fmt.Sprintf("Union[%d] membership of %d wrong: %v", k, x, u[k])
							}
						}
						if inA && inB {
							if has(in[k], x) != (has(la, x) && has(lb, x)) {
								return fmt.Sprintf("Intersection[%d] membership of %d wrong: %v", k, x, in[k])
							}
						}
						if inA {
							if has(ms[k], x) != (has(la, x) && !has(lb, x)) {
								return fmt.Sprintf("MinusStreams[%d] membership of %d wrong: %v", k, x, ms[k])
							}
						}
					}
				}
				wantSub := true
				for k := range ma {
					if _, ok := mb[k]; !ok {
						wantSub = false
					}
				}
				if A.IsSubsetByKey(&B.MapSetDef) != wantSub || B.IsSupersetByKey(&A.MapSetDef) != wantSub {
					return fmt.Sprintf("IsSubsetByKey=%v IsSupersetByKey=%v want %v", A.IsSubsetByKey(&B.MapSetDef), B.IsSupersetByKey(&A.MapSetDef), wantSub)
				}
				return ""
			})
		}
		tw := func(s *fpgo.StreamSetForInterfaceDef) any {
			m, ok := ssTwin(s)
			if !ok {
				return map[int][]int{-999: nil}
			}
			return m
		}
		e.twin("StreamSet.Union", ops, func() any { return ssGeneric(A.Union(B)) }, func() any { return tw(TA.Union(TB)) }, eqSS)
		e.twin("StreamSet.Intersection", ops, func() any { return ssGeneric(A.Intersection(B)) }, func() any { return tw(TA.Intersection(TB)) }, eqSS)
		e.twin("StreamSet.MinusStreams", ops, func() any { return ssGeneric(A.MinusStreams(B)) }, func() any { return tw(TA.MinusStreams(TB)) }, eqSS)
		e.twin("StreamSet.Minus", ops, func() any { return keysOf(A.Minus(&B.MapSetDef).AsMap()) }, func() any { k, _ := keysOfAny(TA.Minus(TB).SetForInterfaceDef); return k },
			func(p, q any) bool { return eqSeq(p.([]int), q.([]int)) })
		e.twin("StreamSet.IsSubsetByKey", ops, func() any { return A.IsSubsetByKey(&B.MapSetDef) }, func() any { return TA.IsSubsetByKey(TB) }, eqBool)
		e.twin("StreamSet.IsSupersetByKey", ops, func() any { return A.IsSupersetByKey(&B.MapSetDef) }, func() any { return TA.IsSupersetByKey(TB) }, eqBool)
		if pi%n == 0 {
			e.twin("StreamSet.Clone", ma, func() any { return ssGeneric(A.Clone()) }, func() any { return tw(TA.Clone()) }, eqSS)
			e.twin("StreamSet.Union(nil)", ma, func() any { return ssGeneric(A.Union(nil)) }, func() any { return tw(TA.Union(nil)) }, eqSS)
			e.twin("StreamSet.Intersection(nil)", ma, func() any { return ssGeneric(A.Intersection(nil)) }, func() any { return tw(TA.Intersection(nil)) }, eqSS)
			e.twin("StreamSet.MinusStreams(nil)", ma, func() any { return ssGeneric(A.MinusStreams(nil)) }, func() any { return tw(TA.MinusStreams(nil)) }, eqSS)
		}
	})
}

func c05Maps(e *c05Env, lists [][]int) {
	// map-level helper twins
	n := len(lists)
	parallelFor(n*n, func(w, pi int) {
		a, b := lists[pi/n], lists[pi%n]
		mk := func(l []int, mul int) (map[int]int, map[interface{}]int) {
			if l == nil {
				return nil, nil
			}
			g, t := map[int]int{}, map[interface{}]int{}
			for i, k := range l {
				g[k] = i * mul
				t[k] = i * mul
			}
			return g, t
		}
		ga, ta := mk(a, 1)
		gb, tb := mk(b, 10)
		ops := []any{ga, gb}
		eqM := func(p, q any) bool {
			x := p.(map[int]int)
			y := q.(map[interface{}]int)
			if len(x) != len(y) {
				return false
			}
			for k, v := range x {
				if w, ok := y[k]; !ok || w != v {
					return false
				}
			}
			return true
		}
		e.twin("Merge", ops, func() any { return fpgo.Merge(ga, gb) }, func() any { return fpgo.MergeForInterface(ta, tb) }, eqM)
		e.twin("IntersectionMapByKey", ops, func() any { return fpgo.IntersectionMapByKey(ga, gb) }, func() any { return fpgo.IntersectionMapByKeyForInterface(ta, tb) }, eqM)
		e.twin("IsSubsetMapByKey", ops, func() any { return fpgo.IsSubsetMapByKey(ga, gb) }, func() any { return fpgo.IsSubsetMapByKeyForInterface(ta, tb) }, eqBool)
		e.twin("IsSupersetMapByKey", ops, func() any { return fpgo.IsSupersetMapByKey(ga, gb) }, func() any { return fpgo.IsSupersetMapByKeyForInterface(ta, tb) }, eqBool)
		if pi%n == 0 {
			e.twin("DuplicateMap", ga, func() any { return fpgo.DuplicateMap(ga) }, func() any { return fpgo.DuplicateMapForInterface(ta) }, eqM)
			e.twin("Keys", ga, func() any { return fpgo.Keys(ga) }, func() any { return fpgo.KeysForInterface(ta) }, eqMultisetTwin)
			e.twin("Values", ga, func() any { return fpgo.Values(ga) }, func() any { return box(fpgo.ValuesForInterface(ta)) }, eqMultisetTwin)
			e.twin("IntersectionMapByKey/1", ga, func() any { return fpgo.IntersectionMapByKey(ga) }, func() any { return fpgo.IntersectionMapByKeyForInterface(ta) }, eqM)
		}
		if len(a) > 0 && len(b) > 0 {
			e.law("law:IntersectionMapByKey/MinusMapByKey/Merge", ops, true, func() string {
				in, mi, me := fpgo.IntersectionMapByKey(ga, gb), fpgo.MinusMapByKey(ga, gb), fpgo.Merge(ga, gb)
				for x := -1; x <= 3; x++ {
					_, ia := ga[x]
					_, ib := gb[x]
					if _, ok := in[x]; ok != (ia && ib) {
						return fmt.Sprintf("intersection key %d wrong", x)
					}
					if _, ok := mi[x]; ok != (ia && !ib) {
						return fmt.Sprintf("minus key %d wrong", x)
					}
					if _, ok := me[x]; ok != (ia || ib) {
						return fmt.Sprintf("merge key %d wrong", x)
					}
				}
				return ""
			})
		}
	})
}

// c05Recheck: the laws must still hold for an EARLIER result after a second operation on the same receiver (a
// receiver with spare capacity, as every Minus/Distinct/Filter result has)
func c05Recheck(e *c05Env, lists [][]int) {
	n := len(lists)
	parallelFor(n*n, func(w, pi int) {
		a, b := lists[pi/n], lists[pi%n]
		if len(a) == 0 || len(b) == 0 {
			return
		}
		third := lists[(pi*7+3)%n]
		ops := []any{a, b, third}
		e.law("law:Stream.Extend(result re-checked after a second Extend on the same receiver)", ops, true, func() string {
			for fam := 0; fam < 2; fam++ {
				var r1, want []int
				if fam == 0 {
					recv := fpgo.StreamFromArray(spareSlice(a, 6))
					x1 := recv.Extend(fpgo.StreamFromArray(copyInts(b)))
					_ = recv.Extend(fpgo.StreamFromArray(copyInts(third)), fpgo.StreamFromArray([]int{7, 7, 7}))
					r1 = x1.ToArray()
				} else {
					sp := make([]interface{}, len(a), len(a)+6)
					for i, v := range a {
						sp[i] = v
					}
					recv := fpgo.StreamForInterface.FromArray(sp)
					x1 := recv.Extend(fpgo.StreamForInterface.FromArray(box(b)))
					_ = recv.Extend(fpgo.StreamForInterface.FromArray(box(third)), fpgo.StreamForInterface.FromArray([]interface{}{7, 7, 7}))
					r1, _ = unbox(x1.ToArray())
				}
				want = append(copyInts(a), b...)
				if !eqSeq(r1, want) {
					return fmt.Sprintf("family %d: the first Extend result reads %v after a second Extend on the same receiver, want %v", fam, r1, want)
				}
			}
			return ""
		})
		e.law("law:StreamSet.Union(result re-checked after a second Union on the same receiver)", ops, true, func() string {
			for fam := 0; fam < 2; fam++ {
				var u1 map[int][]int
				if fam == 0 {
					A := fpgo.StreamSetFromMap(map[int]*fpgo.StreamDef[int]{0: fpgo.StreamFromArray(spareSlice(a, 6))})
					B := fpgo.StreamSetFromMap(map[int]*fpgo.StreamDef[int]{0: fpgo.StreamFromArray(copyInts(b))})
					C := fpgo.StreamSetFromMap(map[int]*fpgo.StreamDef[int]{0: fpgo.StreamFromArray(append(copyInts(third), 8, 8))})
					x := A.Union(B)
					_ = A.Union(C)
					u1 = ssGeneric(x)
				} else {
					sp := make([]interface{}, len(a), len(a)+6)
					for i, v := range a {
						sp[i] = v
					}
					A := fpgo.StreamSetForInterfaceFromMap(map[interface{}]*fpgo.StreamForInterfaceDef{0: fpgo.StreamForInterface.FromArray(sp)})
					B := fpgo.StreamSetForInterfaceFromMap(map[interface{}]*fpgo.StreamForInterfaceDef{0: fpgo.StreamForInterface.FromArray(box(b))})
					C := fpgo.StreamSetForInterfaceFromMap(map[interface{}]*fpgo.StreamForInterfaceDef{0: fpgo.StreamForInterface.FromArray(box(append(copyInts(third), 8, 8)))})
					x := A.Union(B)
					_ = A.Union(C)
					u1, _ = ssTwin(x)
				}
				for xv := -1; xv <= 9; xv++ {
					if has(u1[0], xv) != (has(a, xv) || has(b, xv)) {
						return fmt.Sprintf("family %d: after a second Union on the same receiver the first result's stream reads %v: membership of %d is wrong (operands %v, %v)", fam, u1[0], xv, a, b)
					}
				}
			}
			return ""
		})
	})
}

// c05Large: operands big enough for any size-dependent fast path (hundreds of elements, duplicates inside one
// operand, elements missing from another one)
func c05Large(e *c05Env, c *core.Ctx) {
	rng := c.Rng("c05-large")
	mk := func(n, alpha int) []int {
		l := make([]int, n)
		for i := range l {
			l[i] = rng.Intn(alpha)
			if i > 0 && rng.Intn(4) == 0 {
				l[i] = l[rng.Intn(i)] // duplicates
			}
		}
		return l
	}
	for t := 0; t < c.Pick(24, 400); t++ {
		n := []int{260, 300, 700, 1500}[t%4]
		a, b, cc := mk(n, n+40), mk(n, n+40), mk(n/2+20, n+40)
		ops := fmt.Sprintf("three PRNG lists of %d/%d/%d elements over %d symbols", len(a), len(b), len(cc), n+40)
		e.law("law:Intersection/Difference(large operands)", ops, true, func() string {
			in, d := fpgo.Intersection(a, b, cc), fpgo.Difference(a, b, cc)
			inb, ok := unbox(fpgo.IntersectionForInterface(box(a), box(b), box(cc)))
			sa, sb, sc := map[int]bool{}, map[int]bool{}, map[int]bool{}
			for _, x := range a {
				sa[x] = true
			}
			for _, x := range b {
				sb[x] = true
			}
			for _, x := range cc {
				sc[x] = true
			}
			for x := 0; x < n+40; x++ {
				if has(in, x) != (sa[x] && sb[x] && sc[x]) {
					return fmt.Sprintf("Intersection membership of %d wrong (in a:%v b:%v c:%v)", x, sa[x], sb[x], sc[x])
				}
				if has(d, x) != (sa[x] && !sb[x] && !sc[x]) {
					return fmt.Sprintf("Difference membership of %d wrong", x)
				}
			}
			if !noDup(in) || !followsOrder(in, a) || !noDup(d) {
				return "duplicates or wrong order in a large Intersection/Difference"
			}
			if !ok || !eqSeq(in, inb) {
				return "the interface{} twin of Intersection disagrees on large operands"
			}
			u := fpgo.Union(a, b)
			for x := 0; x < n+40; x++ {
				if has(u, x) != (sa[x] || sb[x]) {
					return fmt.Sprintf("Union membership of %d wrong", x)
				}
			}
			if !eqSeq(fpgo.Minus(a, b), func() []int {
				o := []int{}
				for _, x := range a {
					if !sb[x] {
						o = append(o, x)
					}
				}
				return o
			}()) {
				return "Minus wrong on large operands"
			}
			return ""
		})
	}
}

func init() {
	core.Register(&core.Check{
		ID: "C05",
		Meta: func(c *core.Ctx) core.Meta {
			return core.Meta{
				Level: "exploration",
				Rule: "all pairs (and all triples for the n-ary slice functions) of lists of length 0..L over 3 symbols plus nil (L=3 quick, 4 thorough; triples one shorter), all 81x81 pairs of key->stream maps with <=2 keys and streams of length <=2 (incl. nil stream pointers and empty streams), plus PRNG operand tuples, plus all pairs of lists of length <= 2 (and a few longer) whose elements are POINTERS, among them distinct pointers with equal contents and a nil pointer (element equality is identity in both families; oracle = the same operation on the element ids), plus MapSet operations whose operand is ANOTHER implementation of SetDef, plus n-ary calls with 3..300 operands where one element is missing from exactly one operand, plus lists of MIXED dynamic types (1, int64(1), 1.0, the string 1, nil, ...) through the interface{} family; " +
					"(a) membership/no-duplicate/order laws evaluated through the API for non-empty operands at every level, (b) every generic function/method against its interface{} twin on the same data for all operands incl. nil and empty. distinct_nontrivial = enumerated (operation, operand tuple) cases, distinct by construction (law cases: non-empty operands only)",
				Assumptions: []string{"laws are only required for non-empty operands (statement); Minus keeps duplicates of its first operand (not a set-valued result)",
					"twin comparison ignores set values that differ by design (zero vs true/nil) and map iteration order; nil and empty sequences are equal",
					"a nil collection is passed as an untyped nil interface to the generic Set methods and as a nil pointer to the twin; a panic on both sides is not a disagreement"},
				Exhaustive: true,
			}
		},
		Run: func(c *core.Ctx) {
			e := &c05Env{c: c}
			L := c.Pick(3, 4)
			lists := c05Lists(L)
			c05SliceLevel(e, lists)
			c05Maps(e, lists)
			c05Triples(e, c05Lists(L-1))
			c05StreamSets(e)
			c05Recheck(e, lists)
			c05Large(e, c)
			c05Pointers(e)
			c05MixedTypes(e)
			c05ForeignOperands(e, c05Lists(3))
			c05ManyOperands(e)
			// PRNG operands, longer lists
			rng := c.Rng("c05")
			var rl [][]int
			for i := 0; i < c.Pick(40, 300); i++ {
				l := make([]int, rng.Intn(33))
				for j := range l {
					l[j] = rng.Intn(3 + rng.Intn(6))
				}
				rl = append(rl, l)
			}
			c05SliceLevel(e, rl)
			c.Sample(map[string]any{"operands": "[[0 1] [1 1 2]]", "ops": "Minus, IsSubset, Intersection, Stream.*, Set.* laws and twins"})
			c.Sample(map[string]any{"operands": "{0:[0 1], 1:nil} x {0:[1]}", "ops": "StreamSet Union/Intersection/MinusStreams/Minus/IsSubsetByKey twins"})
			c.Sample(map[string]any{"operands": fmt.Sprint(rl[0], rl[1]), "ops": "PRNG pair"})
		},
	})
}
