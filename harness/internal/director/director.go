// Package director is the harness side of the verif hooks: every hit of a hook point is counted and
// traced; a scenario may park the n-th arrival at a point until it releases it (directed
// interleavings), or sprinkle PRNG yields/delays at chosen points.
package director

import (
	"fmt"
	"hash/fnv"
	"math/rand"
	"runtime"
	"sync"
	"sync/atomic"
	"time"

	fpgo "github.com/TeaEntityLab/fpGo/v2"
)

// Gate blocks one arrival at a hook point.
type Gate struct {
	point   string
	left    int
	only    func() bool
	arrived chan struct{}
	release chan struct{}
	once    sync.Once
}

// Arrived is closed when the chosen arrival reached the point (it is then blocked).
func (g *Gate) Arrived() <-chan struct{} { return g.arrived }

// Release lets the parked goroutine continue (idempotent; also disarms a gate nobody reached).
func (g *Gate) Release() { g.once.Do(func() { close(g.release) }) }

// WaitArrived waits until the gate was reached; false on timeout.
func (g *Gate) WaitArrived(d time.Duration) bool {
	select {
	case <-g.arrived:
		return true
	case <-time.After(d):
		return false
	}
}

// Director is the process-wide hook controller.
type Director struct {
	mu     sync.Mutex
	counts map[string]int64
	gates  map[string][]*Gate
	trace  []string
	recent [256]string // ring of the latest events (hook arrivals and harness notes), for witnesses
	rpos   int
	t0     time.Time
	rng    *rand.Rand
	delay  map[string]int // point -> max yields (PRNG 0..n)
	sleep  map[string]time.Duration
	total  atomic.Int64
}

var global = &Director{}

func init() {
	global.Reset(1)
	fpgo.VerifSetHook(global.at)
}

// Get returns the process-wide director (installed at start-up).
func Get() *Director { return global }

// Reset clears counters, traces, gates and delays.
func (d *Director) Reset(seed int64) {
	d.mu.Lock()
	for _, gs := range d.gates {
		for _, g := range gs {
			g.Release()
		}
	}
	d.counts = map[string]int64{}
	d.gates = map[string][]*Gate{}
	d.trace = nil
	d.recent, d.rpos, d.t0 = [256]string{}, 0, time.Now()
	d.rng = rand.New(rand.NewSource(seed))
	d.delay = map[string]int{}
	d.sleep = map[string]time.Duration{}
	d.mu.Unlock()
}

func (d *Director) at(point string) {
	d.total.Add(1)
	d.mu.Lock()
	d.counts[point]++
	if len(d.trace) < 4096 {
		d.trace = append(d.trace, point)
	}
	d.recent[d.rpos%len(d.recent)] = fmt.Sprintf("%d %s", time.Since(d.t0).Microseconds(), point)
	d.rpos++
	var hit *Gate
	gs := d.gates[point]
	for i, g := range gs {
		if g.only != nil && !g.only() {
			continue
		}
		g.left--
		if g.left == 0 {
			hit = g
			d.gates[point] = append(append([]*Gate(nil), gs[:i]...), gs[i+1:]...)
		}
		break
	}
	yields := 0
	if n := d.delay[point]; n > 0 {
		yields = d.rng.Intn(n + 1)
	}
	var sl time.Duration
	if s := d.sleep[point]; s > 0 {
		sl = time.Duration(d.rng.Int63n(int64(s) + 1))
	}
	d.mu.Unlock()
	if hit != nil {
		close(hit.arrived)
		<-hit.release
	}
	for i := 0; i < yields; i++ {
		runtime.Gosched()
	}
	if sl > 0 {
		time.Sleep(sl)
	}
}

// Note records a harness-side event in the ring of recent events.
func (d *Director) Note(ev string) {
	d.mu.Lock()
	d.recent[d.rpos%len(d.recent)] = fmt.Sprintf("%d %s", time.Since(d.t0).Microseconds(), ev)
	d.rpos++
	d.mu.Unlock()
}

// Recent returns the latest events, oldest first.
func (d *Director) Recent() []string {
	d.mu.Lock()
	defer d.mu.Unlock()
	var out []string
	for i := 0; i < len(d.recent); i++ {
		if e := d.recent[(d.rpos+i)%len(d.recent)]; e != "" {
			out = append(out, e)
		}
	}
	return out
}

// Park arms a gate for the nth next arrival at point (1 = the next one).
func (d *Director) Park(point string, nth int) *Gate {
	return d.ParkIf(point, nth, nil)
}

// ParkIf is Park restricted to arrivals for which only() (evaluated on the arriving goroutine) is true.
func (d *Director) ParkIf(point string, nth int, only func() bool) *Gate {
	g := &Gate{point: point, left: nth, only: only, arrived: make(chan struct{}), release: make(chan struct{})}
	d.mu.Lock()
	d.gates[point] = append(d.gates[point], g)
	d.mu.Unlock()
	return g
}

// Yield makes every arrival at the points yield a PRNG-chosen number of times (0..max).
func (d *Director) Yield(max int, points ...string) {
	d.mu.Lock()
	for _, p := range points {
		d.delay[p] = max
	}
	d.mu.Unlock()
}

// Sleep makes every arrival at the points sleep a PRNG-chosen duration (0..max).
func (d *Director) Sleep(max time.Duration, points ...string) {
	d.mu.Lock()
	for _, p := range points {
		d.sleep[p] = max
	}
	d.mu.Unlock()
}

// Count returns the hits of one point.
func (d *Director) Count(point string) int64 {
	d.mu.Lock()
	defer d.mu.Unlock()
	return d.counts[point]
}

// Counts returns a copy of all hit counters.
func (d *Director) Counts() map[string]int64 {
	d.mu.Lock()
	defer d.mu.Unlock()
	o := make(map[string]int64, len(d.counts))
	for k, v := range d.counts {
		o[k] = v
	}
	return o
}

// Total is the number of hook hits since process start (progress beacon).
func (d *Director) Total() int64 { return d.total.Load() }

// Signature hashes the sequence of points hit since the last Reset (an interleaving signature).
func (d *Director) Signature() uint64 {
	d.mu.Lock()
	defer d.mu.Unlock()
	h := fnv.New64a()
	for _, p := range d.trace {
		h.Write([]byte(p))
		h.Write([]byte{0})
	}
	return h.Sum64()
}

// Trace returns the first points hit since the last Reset.
func (d *Director) Trace(max int) []string {
	d.mu.Lock()
	defer d.mu.Unlock()
	if len(d.trace) < max {
		max = len(d.trace)
	}
	return append([]string(nil), d.trace[:max]...)
}
