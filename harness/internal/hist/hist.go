// Package hist records client-boundary histories and checks them: exactly-once / conservation /
// per-producer order (O(n log n)) and linearizability against small sequential models (porcupine).
package hist

import (
	"fmt"
	"sort"
	"time"

	"github.com/anishathalye/porcupine"
)

// Op is one client call.
type Op struct {
	Proc   int
	Kind   string // "offer", "take" (any removal), "count"
	Arg    int64  // value offered
	Ret    int64  // value removed / count
	Res    string // "ok", "empty", "full", "timeout", "closed", "other"
	Call   int64
	Return int64 // 0 = never returned (stays open to the end of the history)
}

// Recorder keeps per-process slices (no shared lock on the hot path: the recorder must not add
// happens-before edges between the processes it observes).
type Recorder struct {
	t0  time.Time
	per [][]Op
}

// NewRecorder makes a recorder for n processes.
func NewRecorder(n int) *Recorder { return &Recorder{t0: time.Now(), per: make([][]Op, n)} }

// Now is the recorder's monotonic clock.
func (r *Recorder) Now() int64 { return int64(time.Since(r.t0)) + 1 }

// Begin logs the call event and returns the index of the open operation.
func (r *Recorder) Begin(proc int, kind string, arg int64) int {
	r.per[proc] = append(r.per[proc], Op{Proc: proc, Kind: kind, Arg: arg, Call: r.Now()})
	return len(r.per[proc]) - 1
}

// End logs the return event.
func (r *Recorder) End(proc, idx int, ret int64, res string) {
	o := &r.per[proc][idx]
	o.Ret, o.Res, o.Return = ret, res, r.Now()
}

// Retag changes the kind of a recorded operation (e.g. a timed operation that gave up becomes a no-op).
func (r *Recorder) Retag(proc, idx int, kind string) { r.per[proc][idx].Kind = kind }

// Ops returns all operations (after the processes were joined).
func (r *Recorder) Ops() []Op {
	var out []Op
	for _, p := range r.per {
		out = append(out, p...)
	}
	return out
}

// Value encodes (producer, seq) into one unique value.
func Value(producer, seq int) int64 { return int64(producer)<<32 | int64(seq) }

// Producer / Seq decode a value.
func Producer(v int64) int { return int(v >> 32) }
func Seq(v int64) int      { return int(v & 0xffffffff) }

// ExactlyOnce checks: no invention, no duplication, (if drained) no loss, per-producer order per
// consumer, and the real-time FIFO necessary condition for pairs of one producer. It returns
// violation descriptions keyed by class.
func ExactlyOnce(ops []Op, drained bool, fifo bool) map[string]string {
	v := map[string]string{}
	accepted := map[int64]Op{}
	maybe := map[int64]bool{} // offers that never returned may still take effect
	for _, o := range ops {
		if o.Kind != "offer" {
			continue
		}
		if o.Return == 0 {
			maybe[o.Arg] = true
		} else if o.Res == "ok" {
			accepted[o.Arg] = o
		}
	}
	delivered := map[int64]Op{}
	for _, o := range ops {
		if o.Kind != "take" || o.Res != "ok" {
			continue
		}
		if _, ok := accepted[o.Ret]; !ok && !maybe[o.Ret] {
			v["invented"] = fmt.Sprintf("value %d (producer %d seq %d) was delivered but never accepted", o.Ret, Producer(o.Ret), Seq(o.Ret))
		}
		if prev, dup := delivered[o.Ret]; dup {
			v["duplicated"] = fmt.Sprintf("value (producer %d seq %d) was delivered twice (procs %d and %d)", Producer(o.Ret), Seq(o.Ret), prev.Proc, o.Proc)
		}
		delivered[o.Ret] = o
	}
	if drained {
		for val := range accepted {
			if _, ok := delivered[val]; !ok {
				v["lost"] = fmt.Sprintf("value (producer %d seq %d) was accepted but never delivered although the queue was drained", Producer(val), Seq(val))
				break
			}
		}
	}
	if fifo {
		// per consumer process: values of one producer arrive in increasing seq (consumer-local order)
		byConsumer := map[int][]Op{}
		for _, o := range ops {
			if o.Kind == "take" && o.Res == "ok" {
				byConsumer[o.Proc] = append(byConsumer[o.Proc], o)
			}
		}
		for cp, list := range byConsumer {
			sort.Slice(list, func(i, j int) bool { return list[i].Call < list[j].Call })
			last := map[int]int{}
			for _, o := range list {
				p, s := Producer(o.Ret), Seq(o.Ret)
				if l, ok := last[p]; ok && s < l {
					v["order"] = fmt.Sprintf("consumer %d received producer %d's seq %d after seq %d", cp, p, s, l)
				}
				last[p] = s
			}
		}
		// real-time condition across consumers: a accepted before b was offered (same producer, a<b) and
		// b's removal returned before a's removal was called
		type rem struct{ call, ret int64 }
		rm := map[int64]rem{}
		for val, o := range delivered {
			rm[val] = rem{o.Call, o.Return}
		}
		perProd := map[int][]int64{}
		for val := range accepted {
			perProd[Producer(val)] = append(perProd[Producer(val)], val)
		}
		for _, vals := range perProd {
			sort.Slice(vals, func(i, j int) bool { return vals[i] < vals[j] })
			// max removal-return time of later values seen so far, scanning from the end
			for i := 0; i+1 < len(vals); i++ {
				a, b := vals[i], vals[i+1]
				ra, oka := rm[a]
				rb, okb := rm[b]
				if oka && okb && accepted[a].Return < accepted[b].Call && rb.ret != 0 && rb.ret < ra.call {
					v["order"] = fmt.Sprintf("producer %d: seq %d was removed (returned) before the removal of the earlier seq %d was even called", Producer(a), Seq(b), Seq(a))
				}
			}
		}
	}
	return v
}

// ---------------------------------------------------------------------------------------------
// porcupine models

type qIn struct {
	Kind string
	Arg  int64
}

type qOut struct {
	Ret int64
	Res string
}

func eqState(a, b interface{}) bool {
	x, y := a.([]int64), b.([]int64)
	if len(x) != len(y) {
		return false
	}
	for i := range x {
		if x[i] != y[i] {
			return false
		}
	}
	return true
}

// ModelKind selects the sequential specification.
type ModelKind int

const (
	FIFO ModelKind = iota
	LIFO
	BoundedFIFO
	RelaxedBuffered
)

// Model builds the porcupine model. cap/buf only matter for the bounded kinds.
func Model(kind ModelKind, capacity, buf int) porcupine.Model {
	return porcupine.Model{
		Init:  func() interface{} { return []int64{} },
		Equal: eqState,
		Step: func(state, input, output interface{}) (bool, interface{}) {
			st := state.([]int64)
			in := input.(qIn)
			out := output.(qOut)
			switch in.Kind {
			case "offer":
				switch out.Res {
				case "ok":
					if kind == BoundedFIFO && len(st) >= capacity {
						return false, st
					}
					if kind == RelaxedBuffered && len(st) >= capacity+buf {
						return false, st
					}
					ns := append(append([]int64(nil), st...), in.Arg)
					return true, ns
				case "full":
					switch kind {
					case BoundedFIFO:
						return len(st) >= capacity, st
					case RelaxedBuffered:
						// Full is legal only when the overflow can be at its maximum: at least buf items
						// are held (buf >= 1), or the channel itself is full (buf == 0)
						need := buf
						if buf == 0 {
							need = capacity
						}
						return len(st) >= need, st
					}
					return false, st
				case "open": // never returned: may or may not have taken effect; modelled as ok
					ns := append(append([]int64(nil), st...), in.Arg)
					return true, ns
				}
				return false, st
			case "take":
				switch out.Res {
				case "ok":
					if len(st) == 0 {
						return false, st
					}
					if kind == LIFO {
						if st[len(st)-1] != out.Ret {
							return false, st
						}
						return true, append([]int64(nil), st[:len(st)-1]...)
					}
					if st[0] != out.Ret {
						return false, st
					}
					return true, append([]int64(nil), st[1:]...)
				case "empty", "timeout":
					if kind == RelaxedBuffered {
						return true, st // "nothing immediately available" is always legal
					}
					return len(st) == 0, st
				}
				return false, st
			case "noop": // an operation that gave up without touching the structure (a timed Put/Take that timed out)
				return true, st
			case "count":
				if kind == RelaxedBuffered || kind == BoundedFIFO {
					return true, st // Count is checked separately (bound / quiescence)
				}
				return int64(len(st)) == out.Ret, st
			}
			return false, st
		},
		DescribeOperation: func(input, output interface{}) string {
			in, out := input.(qIn), output.(qOut)
			return fmt.Sprintf("%s(%d) -> %d,%s", in.Kind, in.Arg, out.Ret, out.Res)
		},
	}
}

// Linearizable checks the history; "ok", "illegal" or "unknown" (checker timeout => inconclusive).
func Linearizable(m porcupine.Model, ops []Op, timeout time.Duration) string {
	var pops []porcupine.Operation
	var end int64
	for _, o := range ops {
		if o.Return > end {
			end = o.Return
		}
		if o.Call > end {
			end = o.Call
		}
	}
	for _, o := range ops {
		ret := o.Return
		res := o.Res
		if ret == 0 {
			// open operation: keep it open until the end of the history
			ret = end + 1
			if o.Kind == "offer" {
				res = "open"
			} else {
				continue // a removal that never returned observed nothing
			}
		}
		pops = append(pops, porcupine.Operation{ClientId: o.Proc, Input: qIn{o.Kind, o.Arg}, Call: o.Call, Output: qOut{o.Ret, res}, Return: ret})
	}
	switch porcupine.CheckOperationsTimeout(m, pops, timeout) {
	case porcupine.Ok:
		return "ok"
	case porcupine.Illegal:
		return "illegal"
	}
	return "unknown"
}

// Describe renders a short history for witnesses.
func Describe(ops []Op, max int) []string {
	s := append([]Op(nil), ops...)
	sort.Slice(s, func(i, j int) bool { return s[i].Call < s[j].Call })
	var out []string
	for i, o := range s {
		if i >= max {
			out = append(out, fmt.Sprintf("... %d more", len(s)-max))
			break
		}
		out = append(out, fmt.Sprintf("p%d %s(%d)->%d,%s [%d,%d]", o.Proc, o.Kind, o.Arg, o.Ret, o.Res, o.Call, o.Return))
	}
	return out
}
