package core

import (
	"bufio"
	"encoding/json"
	"fmt"
	"os"
	"os/exec"
	"path/filepath"
	"regexp"
	"sort"
	"strconv"
	"strings"
	"sync"
	"sync/atomic"
	"syscall"
	"time"
)

// Scenario is one isolated execution (workload + oracle) run inside a child process.
type Scenario struct {
	ID    string // stable identifier: enough to regenerate the scenario from (tier, seed)
	Class string // what a crash of the child during this scenario is attributed to
	Run   func(c *Ctx)
}

// Check is the registration of one property's monitor.
type Check struct {
	ID   string
	Meta func(c *Ctx) Meta

	// Run is used by in-process checks (sequential properties: every library call runs on a harness
	// goroutine under recover).
	Run func(c *Ctx)

	// Scenarios is used by isolated checks: the list is a deterministic function of (tier, seed, race).
	Scenarios func(c *Ctx, race bool) []Scenario
	Batch     int           // scenarios per child process (default 25)
	Par       int           // children in parallel (default 8)
	RaceToo   bool          // also run Scenarios(c, true) in the -race binary
	RaceBatch int           // scenarios per race child
	Timeout   time.Duration // watchdog per child (default 120 s)

	// RaceRelevant decides whether a race report signature refutes this property.
	RaceRelevant func(sig RaceSig) bool
	// NoEarlyExit keeps running all scenarios even after violations (every scenario has its own finding key).
	NoEarlyExit bool
	// Post runs in the parent after all scenarios were merged (aggregate verdicts).
	Post func(c *Ctx)
	// CrashKey may refine the violation key for a crashed child (default: class + panic + frame).
	CrashKey func(class, panicMsg, frame string) string
}

var registry = map[string]*Check{}

// Register adds a check.
func Register(ch *Check) { registry[ch.ID] = ch }

// Lookup finds a check.
func Lookup(id string) *Check { return registry[id] }

// IDs lists registered checks.
func IDs() []string {
	var ids []string
	for k := range registry {
		ids = append(ids, k)
	}
	sort.Strings(ids)
	return ids
}

type childLine struct {
	T     string `json:"t"`
	I     int    `json:"i"`
	ID    string `json:"id,omitempty"`
	Class string `json:"class,omitempty"`
	Delta *Delta `json:"delta,omitempty"`
}

// ChildMain executes scenarios [from,to) and appends begin/end records to outfile.
func ChildMain(ch *Check, tier string, seed int64, race bool, from, to int, only string, outfile string) int {
	c := NewCtx(ch.ID, tier, seed)
	scs := ch.Scenarios(c, race)
	f, err := os.OpenFile(outfile, os.O_CREATE|os.O_WRONLY|os.O_APPEND, 0o644)
	if err != nil {
		fmt.Fprintln(os.Stderr, "child: cannot open outfile:", err)
		return 3
	}
	defer f.Close()
	w := func(l childLine) {
		b, _ := json.Marshal(l)
		f.Write(append(b, '\n'))
		f.Sync()
	}
	if to < 0 || to > len(scs) {
		to = len(scs)
	}
	childHits := int64(0)
	for i := from; i < to; i++ {
		sc := scs[i]
		if only != "" && sc.ID != only {
			continue
		}
		// a batch that has already produced 4 violation witnesses stops early (a broken tree makes many scenarios wait
		// for their stuck detectors; the verdict is settled) - except for checks that want every scenario's own verdict
		if childHits >= 4 && !ch.NoEarlyExit {
			break
		}
		w(childLine{T: "begin", I: i, ID: sc.ID, Class: sc.Class})
		sctx := NewCtx(ch.ID, tier, seed)
		pv, where := Catch(func() { sc.Run(sctx) })
		if pv != nil {
			sctx.Violationf("panic:"+sc.Class+":"+NormalizePanic(fmt.Sprint(pv))+"@"+where, map[string]any{"scenario": sc.ID},
				"panic in the calling goroutine during scenario %s: %v at %s", sc.ID, pv, where)
		}
		childHits += sctx.ViolationHits()
		w(childLine{T: "end", I: i, ID: sc.ID, Delta: sctx.Export()})
	}
	return 0
}

// RunIsolated runs all scenarios of an isolated check in child processes and merges the results into c.
func RunIsolated(ch *Check, c *Ctx, onlyScenario string) {
	self, _ := os.Executable()
	raceBin := filepath.Join(filepath.Dir(self), "verifrun-race")
	runDir := filepath.Join(VerifDir, "run", fmt.Sprintf("%s-%d", ch.ID, os.Getpid()))
	os.RemoveAll(runDir)
	os.MkdirAll(runDir, 0o755)
	keep := false
	defer func() {
		if !keep {
			os.RemoveAll(runDir)
		}
	}()

	type job struct {
		race     bool
		from, to int
	}
	var jobs []job
	mk := func(race bool, n, batch int) {
		if batch <= 0 {
			batch = 25
		}
		for i := 0; i < n; i += batch {
			e := i + batch
			if e > n {
				e = n
			}
			jobs = append(jobs, job{race, i, e})
		}
	}
	normal := ch.Scenarios(c, false)
	mk(false, len(normal), ch.Batch)
	var raceScs []Scenario
	if ch.RaceToo {
		if _, err := os.Stat(raceBin); err != nil {
			c.Inconclusive("race binary missing: " + raceBin)
		} else {
			raceScs = ch.Scenarios(c, true)
			rb := ch.RaceBatch
			if rb <= 0 {
				rb = ch.Batch
			}
			mk(true, len(raceScs), rb)
		}
	}
	c.Count("scenarios.normal", int64(len(normal)))
	c.Count("scenarios.race", int64(len(raceScs)))

	par := ch.Par
	if par <= 0 {
		par = 8
	}
	timeout := ch.Timeout
	if timeout <= 0 {
		timeout = 120 * time.Second
	}
	sem := make(chan struct{}, par)
	var wg sync.WaitGroup
	var keepMu sync.Mutex
	var sawWatchdog atomic.Bool
	for ji, j := range jobs {
		if !ch.NoEarlyExit && (c.NumViolations() >= 3 || c.ViolationHits() >= 12) {
			// enough witnesses: do not spend the remaining budget on a tree that is already refuted
			c.Count("jobs.skipped_after_3_violation_keys", 1)
			continue
		}
		if !ch.NoEarlyExit && sawWatchdog.Load() && c.NumViolations() >= 1 {
			// the tree is refuted AND makes scenarios hang until the child watchdog: every further hang costs a full
			// watchdog period and adds nothing to the verdict
			c.Count("jobs.skipped_after_watchdog_on_refuted_tree", 1)
			continue
		}
		wg.Add(1)
		sem <- struct{}{}
		go func(ji int, j job) {
			defer wg.Done()
			defer func() { <-sem }()
			scs := normal
			bin := self
			if j.race {
				scs = raceScs
				bin = raceBin
			}
			from := j.from
			attempt := 0
			for from < j.to {
				if attempt >= 1 && !ch.NoEarlyExit && sawWatchdog.Load() && c.NumViolations() >= 1 {
					c.Count("jobs.cut_after_watchdog_on_refuted_tree", 1)
					break
				}
				attempt++
				tag := fmt.Sprintf("j%d-a%d", ji, attempt)
				out := filepath.Join(runDir, tag+".out")
				errf := filepath.Join(runDir, tag+".err")
				raceLog := filepath.Join(runDir, tag+".race")
				cmd := exec.Command(bin, "child", ch.ID, c.Tier, strconv.FormatInt(c.Seed, 10), b2s(j.race),
					strconv.Itoa(from), strconv.Itoa(j.to), onlyScenario, out)
				ef, _ := os.Create(errf)
				cmd.Stdout = ef
				cmd.Stderr = ef
				cmd.Env = append(os.Environ(), "VERIF_CHILD=1", "GOTRACEBACK=all")
				if j.race {
					cmd.Env = append(cmd.Env, "GORACE=halt_on_error=0 exitcode=0 log_path="+raceLog)
				}
				timedOut := false
				if err := cmd.Start(); err != nil {
					c.Inconclusive("cannot start child: " + err.Error())
					ef.Close()
					return
				}
				done := make(chan error, 1)
				go func() { done <- cmd.Wait() }()
				var werr error
				select {
				case werr = <-done:
				case <-time.After(timeout):
					timedOut = true
					cmd.Process.Signal(syscall.SIGQUIT)
					select {
					case werr = <-done:
					case <-time.After(5 * time.Second):
						cmd.Process.Kill()
						werr = <-done
					}
				}
				ef.Close()
				// merge what the child reported
				lastBegun, lastEnded := -1, -1
				var begunLine childLine
				if fh, err := os.Open(out); err == nil {
					sc := bufio.NewScanner(fh)
					sc.Buffer(make([]byte, 1<<20), 1<<28)
					for sc.Scan() {
						var l childLine
						if json.Unmarshal(sc.Bytes(), &l) != nil {
							continue
						}
						if l.T == "begin" {
							lastBegun = l.I
							begunLine = l
						} else if l.T == "end" {
							lastEnded = l.I
							if l.Delta != nil {
								c.Merge(l.Delta)
							}
							if j.race {
								c.Count("scenarios.race.completed", 1)
							} else {
								c.Count("scenarios.completed", 1)
							}
						}
					}
					fh.Close()
				}
				if j.race {
					sigs := ParseRaceLogs(raceLog)
					for _, s := range sigs {
						c.Count("race.reports", 1)
						if !s.HasRepoFrame {
							c.Inconclusive("race report without any library frame (harness bug?): " + s.Sig)
							keepMu.Lock()
							keep = true
							keepMu.Unlock()
							continue
						}
						if ch.RaceRelevant != nil && !ch.RaceRelevant(s) {
							c.Count("race.ignored", 1)
							c.Note("race.ignored."+s.Sig, "pre-existing / outside the property (see DESIGN.md section 4)")
							continue
						}
						ids := []string{}
						for i := from; i < j.to && i < len(scs) && len(ids) < 8; i++ {
							ids = append(ids, scs[i].ID)
						}
						c.Violationf("race:"+s.Sig, map[string]any{"scenarios": ids, "report": Truncate(s.Text, 6000)},
							"data race reported by the Go race detector: %s", s.Sig)
					}
				}
				if werr == nil && !timedOut {
					break // batch complete
				}
				// child died or was killed
				crashed := lastBegun
				if lastBegun == lastEnded {
					// died between scenarios (e.g. a leaked library goroutine panicked later): attribute to the last one
					crashed = lastEnded
				}
				eb, _ := os.ReadFile(errf)
				etxt := string(eb)
				class, sid := "?", "?"
				if crashed >= 0 && crashed < len(scs) {
					class, sid = scs[crashed].Class, scs[crashed].ID
				} else if begunLine.ID != "" {
					class, sid = begunLine.Class, begunLine.ID
				}
				if timedOut {
					sawWatchdog.Store(true)
					c.Inconclusive(fmt.Sprintf("watchdog: child exceeded %v in scenario %s (goroutine dump in %s)", timeout, sid, errf))
					keepMu.Lock()
					keep = true
					keepMu.Unlock()
				} else {
					msg, frame := ExtractPanic(etxt)
					if msg == "" {
						c.Inconclusive(fmt.Sprintf("child exited abnormally (%v) without a panic message in scenario %s; stderr in %s", werr, sid, errf))
						keepMu.Lock()
						keep = true
						keepMu.Unlock()
					} else {
						key := "crash:" + class + ":" + NormalizePanic(msg) + "@" + frame
						if ch.CrashKey != nil {
							key = ch.CrashKey(class, NormalizePanic(msg), frame)
						}
						c.Violationf(key, map[string]any{"scenario": sid, "race_build": j.race, "stderr": Truncate(tailPanic(etxt), 5000)},
							"process-fatal panic during scenario %s: %s at %s", sid, msg, frame)
					}
				}
				if crashed < from {
					crashed = from
				}
				from = crashed + 1
			}
		}(ji, j)
	}
	wg.Wait()
	if c.NumViolations() > 0 {
		keep = true
	}
}

func b2s(b bool) string {
	if b {
		return "1"
	}
	return "0"
}

var (
	hexRe  = regexp.MustCompile(`0x[0-9a-fA-F]+`)
	numRe  = regexp.MustCompile(`\b\d+\b`)
	goroRe = regexp.MustCompile(`goroutine \d+`)
)

// NormalizePanic strips addresses and numbers so that a panic message can be used in a key.
func NormalizePanic(s string) string {
	s = strings.TrimSpace(s)
	if i := strings.Index(s, "\n"); i >= 0 {
		s = s[:i]
	}
	s = hexRe.ReplaceAllString(s, "0x?")
	s = goroRe.ReplaceAllString(s, "goroutine N")
	s = numRe.ReplaceAllString(s, "N")
	s = strings.TrimSuffix(s, " [recovered]")
	return truncate(s, 160)
}

// ExtractPanic finds the panic / fatal error line of a crashed Go process and the innermost
// library frame of the panicking goroutine.
func ExtractPanic(stderr string) (msg, frame string) {
	lines := strings.Split(stderr, "\n")
	start := -1
	for i, ln := range lines {
		if strings.HasPrefix(ln, "panic: ") || strings.HasPrefix(ln, "fatal error: ") {
			msg = ln
			start = i
			break
		}
	}
	if start < 0 {
		return "", ""
	}
	frame = "?"
	// first goroutine block after the panic line is the panicking goroutine
	inBlock := false
	for _, ln := range lines[start+1:] {
		if strings.HasPrefix(ln, "goroutine ") {
			if inBlock {
				break
			}
			inBlock = true
			continue
		}
		if inBlock && !strings.HasPrefix(ln, "\t") && strings.Contains(ln, repoPkg) {
			fn := ln[strings.LastIndex(ln, "/")+1:]
			if i := strings.LastIndex(fn, "("); i > 0 {
				fn = fn[:i]
			}
			frame = stripGenerics(fn)
			break
		}
		if inBlock && strings.TrimSpace(ln) == "" {
			break
		}
	}
	return msg, frame
}

func tailPanic(s string) string {
	if i := strings.Index(s, "panic: "); i >= 0 {
		return s[i:]
	}
	if i := strings.Index(s, "fatal error: "); i >= 0 {
		return s[i:]
	}
	return s
}
