package core

import (
	"os"
	"path/filepath"
	"sort"
	"strings"
)

// RaceSig is one deduplicated race report.
type RaceSig struct {
	Sig          string   // "<innermost library frame of access 1> <-> <... of access 2>"
	Inner        []string // innermost library function of each access stack ("" if none)
	Outer        []string // outermost library function of each access stack
	HasRepoFrame bool
	Text         string
}

// ParseRaceLogs reads every file written by GORACE log_path=<prefix> (prefix.<pid>) and returns the
// reports deduplicated by signature. Exit codes are not trusted; the report blocks are counted.
func ParseRaceLogs(prefix string) []RaceSig {
	files, _ := filepath.Glob(prefix + ".*")
	seen := map[string]bool{}
	var out []RaceSig
	for _, f := range files {
		b, err := os.ReadFile(f)
		if err != nil {
			continue
		}
		for _, blk := range strings.Split(string(b), "==================") {
			if !strings.Contains(blk, "WARNING: DATA RACE") {
				continue
			}
			s := parseRaceBlock(blk)
			if seen[s.Sig] {
				continue
			}
			seen[s.Sig] = true
			out = append(out, s)
		}
	}
	return out
}

func parseRaceBlock(blk string) RaceSig {
	// split into paragraphs; the first two paragraphs that start with an access header are the stacks
	var stacks [][]string
	for _, para := range strings.Split(blk, "\n\n") {
		lines := strings.Split(strings.TrimSpace(para), "\n")
		if len(lines) == 0 {
			continue
		}
		// the header may be preceded by the WARNING line
		hi := -1
		for i, ln := range lines {
			l := strings.TrimSpace(ln)
			if strings.HasPrefix(l, "Read at") || strings.HasPrefix(l, "Write at") || strings.HasPrefix(l, "Previous read at") ||
				strings.HasPrefix(l, "Previous write at") || strings.HasPrefix(l, "Atomic") || strings.HasPrefix(l, "Previous atomic") {
				hi = i
				break
			}
		}
		if hi < 0 {
			continue
		}
		var fns []string
		for _, ln := range lines[hi+1:] {
			if strings.HasPrefix(ln, "      ") || strings.TrimSpace(ln) == "" {
				continue // file:line
			}
			fns = append(fns, strings.TrimSpace(ln))
		}
		stacks = append(stacks, fns)
		if len(stacks) == 2 {
			break
		}
	}
	s := RaceSig{Text: strings.TrimSpace(blk)}
	var sigParts []string
	for _, st := range stacks {
		inner, outer, firstAny := "", "", ""
		for _, fn := range st {
			name := fn
			if i := strings.LastIndex(name, "("); i > 0 {
				name = name[:i]
			}
			if firstAny == "" {
				firstAny = name
			}
			if strings.Contains(fn, repoPkg) {
				short := stripGenerics(name[strings.LastIndex(name, "/")+1:])
				if inner == "" {
					inner = short
				}
				outer = short
			}
		}
		s.Inner = append(s.Inner, inner)
		s.Outer = append(s.Outer, outer)
		if inner != "" {
			s.HasRepoFrame = true
			sigParts = append(sigParts, inner)
		} else {
			if i := strings.LastIndex(firstAny, "/"); i >= 0 {
				firstAny = firstAny[i+1:]
			}
			sigParts = append(sigParts, "nonlib:"+stripGenerics(firstAny))
		}
	}
	sort.Strings(sigParts)
	s.Sig = strings.Join(sigParts, " <-> ")
	return s
}
