// Package core holds the shared machinery of the runtime monitors: the per-run context that
// collects what was observed (evaluations, distinct cases, samples, violations), the known-findings
// file, the evidence writer and the three-valued verdict.
package core

import (
	"encoding/json"
	"fmt"
	"hash/fnv"
	"math/rand"
	"os"
	"path/filepath"
	"sort"
	"strings"
	"sync"
	"sync/atomic"
	"time"
)

// VerifDir is the root of the verification tree (evidence, replays, known findings).
var VerifDir = func() string {
	if d := os.Getenv("VERIF_DIR"); d != "" {
		return d
	}
	return "/verif"
}()

// Violation is one refutation of a property. Key identifies the specific failing input / call site /
// history shape; it is what known_findings.json entries are matched against.
type Violation struct {
	Key    string `json:"key"`
	What   string `json:"what"`
	Replay any    `json:"replay,omitempty"`
	Count  int64  `json:"count"`
}

// Ctx collects the observations of one run (or of one scenario inside a child process).
type Ctx struct {
	Prop string
	Tier string
	Seed int64

	evals         atomic.Int64
	distinctExtra atomic.Int64 // distinct-by-construction cases (exhaustive enumerations)

	mu           sync.Mutex
	distinct     map[uint64]struct{}
	samples      []any
	maxSamples   int
	counters     map[string]int64
	notes        map[string]any
	violations   map[string]*Violation
	vorder       []string
	inconclusive []string
}

// NewCtx makes an empty context.
func NewCtx(prop, tier string, seed int64) *Ctx {
	return &Ctx{Prop: prop, Tier: tier, Seed: seed,
		distinct: map[uint64]struct{}{}, counters: map[string]int64{}, notes: map[string]any{},
		violations: map[string]*Violation{}, maxSamples: 12}
}

// Thorough reports whether the thorough tier was requested.
func (c *Ctx) Thorough() bool { return c.Tier == "thorough" }

// Pick returns q for the quick tier and t for the thorough tier.
func (c *Ctx) Pick(q, t int) int {
	if c.Thorough() {
		return t
	}
	return q
}

// Rng returns a PRNG that depends only on the seed and the given stream label.
func (c *Ctx) Rng(label string) *rand.Rand {
	h := fnv.New64a()
	h.Write([]byte(label))
	return rand.New(rand.NewSource(c.Seed*1000003 + int64(h.Sum64()>>1)))
}

// Eval counts n executed evaluations.
func (c *Ctx) Eval(n int64) { c.evals.Add(n) }

// Evals returns the evaluations counted so far.
func (c *Ctx) Evals() int64 { return c.evals.Load() }

// Distinct records a distinct non-trivial case identified by key.
func (c *Ctx) Distinct(key string) {
	h := fnv.New64a()
	h.Write([]byte(key))
	v := h.Sum64()
	c.mu.Lock()
	c.distinct[v] = struct{}{}
	c.mu.Unlock()
}

// DistinctHash records a distinct non-trivial case by a pre-computed hash.
func (c *Ctx) DistinctHash(v uint64) {
	c.mu.Lock()
	c.distinct[v] = struct{}{}
	c.mu.Unlock()
}

// DistinctAdd counts n cases that are distinct by construction (e.g. members of an exhaustive
// enumeration) without storing a key for each.
func (c *Ctx) DistinctAdd(n int64) { c.distinctExtra.Add(n) }

// DistinctCount returns the number of distinct cases recorded.
func (c *Ctx) DistinctCount() int {
	c.mu.Lock()
	defer c.mu.Unlock()
	return len(c.distinct) + int(c.distinctExtra.Load())
}

// Sample keeps a few actual cases for the evidence file.
func (c *Ctx) Sample(x any) {
	c.mu.Lock()
	if len(c.samples) < c.maxSamples {
		c.samples = append(c.samples, x)
	}
	c.mu.Unlock()
}

// WantSample reports whether more samples are wanted (to avoid building them needlessly).
func (c *Ctx) WantSample() bool {
	c.mu.Lock()
	defer c.mu.Unlock()
	return len(c.samples) < c.maxSamples
}

// Count adds n to a named observation counter.
func (c *Ctx) Count(name string, n int64) {
	c.mu.Lock()
	c.counters[name] += n
	c.mu.Unlock()
}

// CountMax keeps the maximum of a named observation.
func (c *Ctx) CountMax(name string, v int64) {
	c.mu.Lock()
	if v > c.counters[name] {
		c.counters[name] = v
	}
	c.mu.Unlock()
}

// Counter reads a named observation counter.
func (c *Ctx) Counter(name string) int64 {
	c.mu.Lock()
	defer c.mu.Unlock()
	return c.counters[name]
}

// Note records a free-form observation for the evidence file.
func (c *Ctx) Note(k string, v any) {
	c.mu.Lock()
	c.notes[k] = v
	c.mu.Unlock()
}

// Violation records a refutation. Only the first witness per key is kept; later ones are counted.
func (c *Ctx) Violation(key, what string, replay any) {
	c.mu.Lock()
	defer c.mu.Unlock()
	if v, ok := c.violations[key]; ok {
		v.Count++
		return
	}
	c.violations[key] = &Violation{Key: key, What: what, Replay: replay, Count: 1}
	c.vorder = append(c.vorder, key)
}

// Violationf is Violation with a formatted description.
func (c *Ctx) Violationf(key string, replay any, format string, args ...any) {
	c.Violation(key, fmt.Sprintf(format, args...), replay)
}

// Inconclusive records that part of the run could not be decided.
func (c *Ctx) Inconclusive(why string) {
	c.mu.Lock()
	if len(c.inconclusive) < 50 {
		c.inconclusive = append(c.inconclusive, why)
	}
	c.mu.Unlock()
}

// ViolationHits returns the total number of recorded violation witnesses (all keys).
func (c *Ctx) ViolationHits() int64 {
	c.mu.Lock()
	defer c.mu.Unlock()
	var n int64
	for _, v := range c.violations {
		n += v.Count
	}
	return n
}

// NumViolations returns the number of distinct violation keys.
func (c *Ctx) NumViolations() int {
	c.mu.Lock()
	defer c.mu.Unlock()
	return len(c.violations)
}

// Delta is the serialisable content of a Ctx (used between child and parent processes).
type Delta struct {
	Evals        int64            `json:"evals"`
	Distinct     []uint64         `json:"distinct"`
	DistinctAdd  int64            `json:"distinct_add"`
	Samples      []any            `json:"samples"`
	Counters     map[string]int64 `json:"counters"`
	MaxCounters  []string         `json:"max_counters,omitempty"`
	Notes        map[string]any   `json:"notes"`
	Violations   []*Violation     `json:"violations"`
	Inconclusive []string         `json:"inconclusive"`
}

// Export serialises the context.
func (c *Ctx) Export() *Delta {
	c.mu.Lock()
	defer c.mu.Unlock()
	d := &Delta{Evals: c.evals.Load(), DistinctAdd: c.distinctExtra.Load(), Samples: c.samples, Counters: c.counters, Notes: c.notes, Inconclusive: c.inconclusive}
	for h := range c.distinct {
		d.Distinct = append(d.Distinct, h)
	}
	for _, k := range c.vorder {
		d.Violations = append(d.Violations, c.violations[k])
	}
	return d
}

// Merge folds a child's observations into this context. Counters whose name starts with "max."
// are merged by maximum, all others by sum.
func (c *Ctx) Merge(d *Delta) {
	c.evals.Add(d.Evals)
	c.distinctExtra.Add(d.DistinctAdd)
	c.mu.Lock()
	defer c.mu.Unlock()
	for _, h := range d.Distinct {
		c.distinct[h] = struct{}{}
	}
	for _, s := range d.Samples {
		if len(c.samples) < c.maxSamples {
			c.samples = append(c.samples, s)
		}
	}
	for k, v := range d.Counters {
		if strings.HasPrefix(k, "max.") {
			if v > c.counters[k] {
				c.counters[k] = v
			}
		} else {
			c.counters[k] += v
		}
	}
	for k, v := range d.Notes {
		c.notes[k] = v
	}
	for _, v := range d.Violations {
		if old, ok := c.violations[v.Key]; ok {
			old.Count += v.Count
			continue
		}
		c.violations[v.Key] = v
		c.vorder = append(c.vorder, v.Key)
	}
	for _, s := range d.Inconclusive {
		if len(c.inconclusive) < 50 {
			c.inconclusive = append(c.inconclusive, s)
		}
	}
}

// ---------------------------------------------------------------------------------------------
// Known findings

// Finding is one entry of /verif/known_findings.json.
type Finding struct {
	Property string `json:"property"`
	Key      string `json:"key"`
	Status   string `json:"status"` // "open" or "fixed"
	Commit   string `json:"commit,omitempty"`
	What     string `json:"what"`
}

type findingsFile struct {
	Findings []Finding `json:"findings"`
}

// LoadFindings reads known_findings.json (missing file = no findings). It is never written at run time.
func LoadFindings() []Finding {
	b, err := os.ReadFile(filepath.Join(VerifDir, "known_findings.json"))
	if err != nil {
		return nil
	}
	var f findingsFile
	if err := json.Unmarshal(b, &f); err != nil {
		fmt.Fprintf(os.Stderr, "known_findings.json unreadable: %v\n", err)
		return nil
	}
	return f.Findings
}

// ---------------------------------------------------------------------------------------------
// Finish: evidence + verdict

// Meta describes a check for the evidence file.
type Meta struct {
	Level       string
	Rule        string
	Assumptions []string
	Exhaustive  bool
}

// Finish writes evidence/<id>.json, prints KNOWN-FINDING / VIOLATION / INCONCLUSIVE lines and
// returns the process exit code (0 held, 1 violated, 2 inconclusive).
func (c *Ctx) Finish(meta Meta, start time.Time) int {
	findings := LoadFindings()
	open := map[string]Finding{}
	for _, f := range findings {
		if f.Property == c.Prop && f.Status == "open" {
			open[f.Key] = f
		}
	}
	c.mu.Lock()
	var unknown, known []*Violation
	for _, k := range c.vorder {
		v := c.violations[k]
		if _, ok := open[v.Key]; ok {
			known = append(known, v)
		} else {
			unknown = append(unknown, v)
		}
	}
	evals := c.evals.Load()
	distinct := len(c.distinct) + int(c.distinctExtra.Load())
	samples := c.samples
	counters := c.counters
	notes := c.notes
	inconc := c.inconclusive
	c.mu.Unlock()

	for _, v := range known {
		fmt.Printf("KNOWN-FINDING: property=%s key=%q %s (seen %d times)\n", c.Prop, v.Key, open[v.Key].What, v.Count)
	}
	replayDir := filepath.Join(VerifDir, "replays")
	os.MkdirAll(replayDir, 0o755)
	var vsum []map[string]any
	for _, v := range unknown {
		h := fnv.New64a()
		h.Write([]byte(v.Key))
		path := filepath.Join(replayDir, fmt.Sprintf("%s-%016x.json", c.Prop, h.Sum64()))
		rb, _ := json.MarshalIndent(map[string]any{"property": c.Prop, "key": v.Key, "what": v.What, "tier": c.Tier,
			"seed": c.Seed, "replay": v.Replay, "count": v.Count}, "", " ")
		os.WriteFile(path, rb, 0o644)
		fmt.Printf("VIOLATION property=%s replay=%s\n", c.Prop, path)
		fmt.Printf("  key=%q\n  %s\n", v.Key, truncate(v.What, 1500))
		vsum = append(vsum, map[string]any{"key": v.Key, "what": truncate(v.What, 600), "count": v.Count, "replay": path})
	}
	verdict := "held_on_observed"
	code := 0
	if len(unknown) > 0 {
		verdict = "violated"
		code = 1
	} else if len(inconc) > 0 || evals == 0 || distinct < 2 {
		verdict = "inconclusive"
		code = 2
		if evals == 0 || distinct < 2 {
			inconc = append(inconc, fmt.Sprintf("too little observed: evaluations=%d distinct=%d", evals, distinct))
		}
		for _, s := range inconc {
			fmt.Printf("INCONCLUSIVE property=%s %s\n", c.Prop, truncate(s, 400))
		}
	}

	if len(samples) == 0 {
		samples = []any{"(no sample recorded)"}
	}
	cov := map[string]any{
		"evaluations":         evals,
		"distinct_nontrivial": distinct,
		"rule":                meta.Rule,
		"samples":             samples,
		"observed":            sortedCounters(counters),
		"verdict":             verdict,
	}
	if meta.Exhaustive {
		cov["exhaustive"] = true
	}
	for k, v := range notes {
		cov[k] = v
	}
	if len(known) > 0 {
		var ks []string
		for _, v := range known {
			ks = append(ks, v.Key)
		}
		cov["known_findings_seen"] = ks
	}
	if len(vsum) > 0 {
		cov["violation_witnesses"] = vsum
	}
	if len(inconc) > 0 {
		cov["inconclusive"] = inconc
	}
	evd := map[string]any{
		"property_id": c.Prop,
		"tier":        c.Tier,
		"seed":        c.Seed,
		"level":       meta.Level,
		"coverage":    cov,
		"assumptions": meta.Assumptions,
		"wall_s":      time.Since(start).Seconds(),
		"violations":  len(unknown),
	}
	b, err := json.MarshalIndent(evd, "", " ")
	if err != nil {
		fmt.Fprintf(os.Stderr, "evidence marshal: %v\n", err)
		return 2
	}
	evDir := filepath.Join(VerifDir, "evidence")
	if d := os.Getenv("VERIF_EVIDENCE_DIR"); d != "" {
		evDir = d // used by the selftest so that mutant runs do not overwrite the committed evidence
	}
	os.MkdirAll(evDir, 0o755)
	if err := os.WriteFile(filepath.Join(evDir, c.Prop+".json"), b, 0o644); err != nil {
		fmt.Fprintf(os.Stderr, "evidence write: %v\n", err)
		return 2
	}
	fmt.Printf("%s %s seed=%d verdict=%s evaluations=%d distinct_nontrivial=%d known=%d violations=%d wall=%.1fs\n",
		c.Prop, c.Tier, c.Seed, verdict, evals, distinct, len(known), len(unknown), time.Since(start).Seconds())
	return code
}

func sortedCounters(m map[string]int64) map[string]int64 {
	out := map[string]int64{}
	keys := make([]string, 0, len(m))
	for k := range m {
		keys = append(keys, k)
	}
	sort.Strings(keys)
	for _, k := range keys {
		out[k] = m[k]
	}
	return out
}

func truncate(s string, n int) string {
	if len(s) <= n {
		return s
	}
	return s[:n] + "…"
}

// Truncate shortens s to n bytes.
func Truncate(s string, n int) string { return truncate(s, n) }

// Catch runs fn and returns the recovered panic value (nil if none) plus the top library frame.
func Catch(fn func()) (pv any, where string) {
	defer func() {
		if r := recover(); r != nil {
			pv = r
			where = TopRepoFrame(3)
		}
	}()
	fn()
	return nil, ""
}

// ---------------------------------------------------------------------------------------------
// Hang watch for sequential checks: a library call that never returns cannot be interrupted, so a
// watchdog goroutine finishes the run (evidence + VIOLATION) when one guarded case has been inside
// the library for far longer than any legitimate call (default 20 s for calls that take microseconds),
// and three successive goroutine dumps show a running/runnable goroutine in a library frame.

type hangSlot struct {
	start atomic.Int64
	desc  atomic.Value
	_     [40]byte
}

// HangWatch guards cases executed by worker goroutines.
type HangWatch struct {
	slots []hangSlot
	c     *Ctx
}

// OnHang is called (once) by the hang watchdog after it recorded the violation; main installs a
// function that writes the evidence and exits.
var OnHang func(c *Ctx)

// NewHangWatch starts the watchdog for n workers.
func (c *Ctx) NewHangWatch(n int, limit time.Duration) *HangWatch {
	hw := &HangWatch{slots: make([]hangSlot, n), c: c}
	go func() {
		for {
			time.Sleep(time.Second)
			now := time.Now().UnixNano()
			for i := range hw.slots {
				st := hw.slots[i].start.Load()
				if st == 0 || time.Duration(now-st) < limit {
					continue
				}
				frames := map[string]int{}
				var lastDump string
				confirmed := 0
				for k := 0; k < 3; k++ {
					gs, txt := Dump()
					lastDump = txt
					found := false
					for _, g := range gs {
						if g.RepoTop != "" && (g.State == "running" || g.State == "runnable") {
							frames[g.RepoTop]++
							found = true
						}
					}
					if found {
						confirmed++
					}
					time.Sleep(300 * time.Millisecond)
				}
				if hw.slots[i].start.Load() != st {
					continue // it returned meanwhile
				}
				desc := fmt.Sprint(hw.slots[i].desc.Load())
				if confirmed < 3 {
					c.Inconclusive(fmt.Sprintf("case %s exceeded %v but no library goroutine was running", desc, limit))
				} else {
					top := ""
					for f := range frames {
						if top == "" || f < top {
							top = f
						}
					}
					c.Violationf("hang:"+top, map[string]any{"case": desc, "dump": Truncate(lastDump, 4000)},
						"library call does not return (still running in %s after %v): case %s", top, limit, desc)
				}
				if OnHang != nil {
					OnHang(c)
				}
				return
			}
		}
	}()
	return hw
}

// Begin marks that worker w entered the library for the described case.
func (h *HangWatch) Begin(w int, desc any) {
	h.slots[w].desc.Store(desc)
	h.slots[w].start.Store(time.Now().UnixNano())
}

// End marks that worker w is back.
func (h *HangWatch) End(w int) { h.slots[w].start.Store(0) }
