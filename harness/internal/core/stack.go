package core

import (
	"bytes"
	"fmt"
	"regexp"
	"runtime"
	"strconv"
	"strings"
	"time"
)

const repoPkg = "github.com/TeaEntityLab/fpGo/v2"

// TopRepoFrame returns "func (file:line)" of the innermost frame that belongs to the library,
// looking at the current goroutine's stack (usable inside a deferred recover).
func TopRepoFrame(skip int) string {
	pcs := make([]uintptr, 64)
	n := runtime.Callers(skip, pcs)
	frames := runtime.CallersFrames(pcs[:n])
	for {
		f, more := frames.Next()
		if strings.Contains(f.Function, repoPkg) {
			fn := f.Function[strings.LastIndex(f.Function, "/")+1:]
			file := f.File
			if i := strings.LastIndex(file, "/"); i >= 0 {
				file = file[i+1:]
			}
			return fmt.Sprintf("%s (%s)", stripGenerics(fn), file)
		}
		if !more {
			break
		}
	}
	return "?"
}

var genericRe = regexp.MustCompile(`\[[^\]]*\]`)

func stripGenerics(s string) string { return genericRe.ReplaceAllString(s, "") }

// Goid returns the current goroutine's id (parsed from runtime.Stack; used only for identity checks).
func Goid() int64 {
	var buf [64]byte
	n := runtime.Stack(buf[:], false)
	// "goroutine 123 [running]:"
	f := bytes.Fields(buf[:n])
	if len(f) < 2 {
		return -1
	}
	id, _ := strconv.ParseInt(string(f[1]), 10, 64)
	return id
}

// GInfo is one goroutine of a dump.
type GInfo struct {
	ID      int64
	State   string
	RepoTop string // innermost library frame, "" if none
	Text    string
}

// Dump returns all goroutines, parsed.
func Dump() ([]GInfo, string) {
	buf := make([]byte, 1<<20)
	for {
		n := runtime.Stack(buf, true)
		if n < len(buf) {
			buf = buf[:n]
			break
		}
		buf = make([]byte, 2*len(buf))
	}
	return ParseDump(string(buf)), string(buf)
}

var gHeader = regexp.MustCompile(`^goroutine (\d+) \[([^\],]+)`)

// ParseDump parses the text of a goroutine dump.
func ParseDump(s string) []GInfo {
	var out []GInfo
	for _, blk := range strings.Split(s, "\n\n") {
		blk = strings.TrimSpace(blk)
		m := gHeader.FindStringSubmatch(blk)
		if m == nil {
			continue
		}
		id, _ := strconv.ParseInt(m[1], 10, 64)
		g := GInfo{ID: id, State: m[2], Text: blk}
		for _, ln := range strings.Split(blk, "\n")[1:] {
			if strings.HasPrefix(ln, "\t") || strings.HasPrefix(ln, "created by") {
				continue
			}
			if strings.Contains(ln, repoPkg) {
				fn := ln[strings.LastIndex(ln, "/")+1:]
				if i := strings.LastIndex(fn, "("); i > 0 {
					fn = fn[:i]
				}
				g.RepoTop = stripGenerics(fn)
				break
			}
		}
		out = append(out, g)
	}
	return out
}

// ActiveRepoGoroutines lists library goroutines that can still make progress on their own
// (running, runnable or sleeping on a timer).
func ActiveRepoGoroutines(gs []GInfo) []GInfo {
	var out []GInfo
	for _, g := range gs {
		if g.RepoTop == "" {
			continue
		}
		switch g.State {
		case "running", "runnable", "sleep", "syscall":
			out = append(out, g)
		}
	}
	return out
}

// AwaitOrStuck waits for done. It returns "done"; or "stuck" when (i) done did not happen, (ii) the
// progress counter (hook hits at every internal loop head) did not move for the quiet period, and
// (iii) two goroutine dumps 200 ms apart show no library goroutine that is running, runnable or
// sleeping on a timer - i.e. nothing but an external call could change the state; or "watchdog" when
// the hard limit expired without (ii)/(iii) (inconclusive, never a violation).
func AwaitOrStuck(done <-chan struct{}, quiet, hard time.Duration, progress func() int64) (verdict string, dump string) {
	start := time.Now()
	last := progress()
	lastChange := time.Now()
	tick := time.NewTicker(50 * time.Millisecond)
	defer tick.Stop()
	for {
		select {
		case <-done:
			return "done", ""
		case <-tick.C:
		}
		if p := progress(); p != last {
			last, lastChange = p, time.Now()
		}
		if time.Since(lastChange) >= quiet {
			gs1, _ := Dump()
			if len(ActiveRepoGoroutines(gs1)) == 0 {
				time.Sleep(200 * time.Millisecond)
				select {
				case <-done:
					return "done", ""
				default:
				}
				gs2, txt := Dump()
				if len(ActiveRepoGoroutines(gs2)) == 0 && progress() == last {
					return "stuck", txt
				}
			}
			lastChange = time.Now() // something is still active: keep waiting
		}
		if time.Since(start) > hard {
			_, txt := Dump()
			return "watchdog", txt
		}
	}
}

// RepoGoroutineSummary lists "state @ innermost library frame" for every goroutine inside the library.
func RepoGoroutineSummary(dump string) []string {
	var out []string
	for _, g := range ParseDump(dump) {
		if g.RepoTop != "" {
			out = append(out, g.State+" @ "+g.RepoTop)
		}
	}
	return out
}

// QuietNow reports whether two goroutine dumps 200 ms apart show no library goroutine that is running, runnable or
// sleeping: used to turn "did not happen within a generous wall-clock wait" into a verdict. If something can still
// act, the wait proves nothing on a loaded machine (inconclusive); if nothing can, it will never happen (violation).
func QuietNow() (quiet bool, dump string) {
	gs1, _ := Dump()
	time.Sleep(200 * time.Millisecond)
	gs2, d2 := Dump()
	return len(ActiveRepoGoroutines(gs1)) == 0 && len(ActiveRepoGoroutines(gs2)) == 0, d2
}

// AwaitBodyOrStuck is AwaitOrStuck for the in-process body of a check: "active" is ANY goroutine (library or harness)
// other than the caller that is running, runnable, sleeping or in a system call - the body may legitimately compute
// for a long time in harness code between two evaluations.
func AwaitBodyOrStuck(done <-chan struct{}, quiet, hard time.Duration, progress func() int64) (verdict string, dump string) {
	start := time.Now()
	last := progress()
	lastChange := time.Now()
	self := Goid()
	active := func(gs []GInfo) bool {
		for _, g := range gs {
			if g.ID == self {
				continue
			}
			switch g.State {
			case "running", "runnable", "sleep", "syscall":
				return true
			}
		}
		return false
	}
	tick := time.NewTicker(100 * time.Millisecond)
	defer tick.Stop()
	for {
		select {
		case <-done:
			return "done", ""
		case <-tick.C:
		}
		if p := progress(); p != last {
			last, lastChange = p, time.Now()
		}
		if time.Since(lastChange) >= quiet {
			stuck := true
			var txt string
			for k := 0; k < 3 && stuck; k++ {
				var gs []GInfo
				gs, txt = Dump()
				if active(gs) || progress() != last {
					stuck = false
				}
				time.Sleep(150 * time.Millisecond)
			}
			select {
			case <-done:
				return "done", ""
			default:
			}
			if stuck {
				return "stuck", txt
			}
			lastChange = time.Now()
		}
		if time.Since(start) > hard {
			_, txt := Dump()
			return "watchdog", txt
		}
	}
}
