#!/bin/bash
# Entry point of the runtime-monitoring checks.
#   ./check.sh --setup                      build the harness (warms the Go build cache)
#   ./check.sh <Cxx> <quick|thorough>       run one property's check against /repo's working tree
#   ./check.sh <Cxx> --replay <file>        re-run the scenario recorded in a replay file
set -u
cd "$(dirname "$0")"
export GOFLAGS=-mod=mod GOPROXY=off GOSUMDB=off GOTOOLCHAIN=local CGO_ENABLED=1
export VERIF_DIR="$(pwd)"
H="$VERIF_DIR/harness"
mkdir -p bin evidence replays

build() {
  # rebuilds from /repo's current working tree (replace => /repo) with the hooks on (-tags verif)
  cp /repo/go.sum "$H/go.sum.repo" 2>/dev/null
  (cd "$H" && go build -tags verif -o "$VERIF_DIR/bin/verifrun" ./cmd/verifrun) || return 1
  if [ "${1:-}" = race ]; then
    (cd "$H" && go build -race -tags verif -o "$VERIF_DIR/bin/verifrun-race" ./cmd/verifrun) || return 1
  fi
}

inconclusive_build() {
  # a build failure is not a verdict about the property
  id="$1"; tier="$2"
  echo "INCONCLUSIVE property=$id harness or repository does not build with -tags verif"
  exit 2
}

case "${1:-}" in
  --setup)
    build race || { echo "setup: build failed"; exit 1; }
    echo "setup ok"; exit 0;;
  "" ) echo "usage: $0 <Cxx> <quick|thorough> | --setup"; exit 3;;
esac

ID="$1"; shift
TIER="${1:-${VERIF_TIER:-quick}}"
ARGS=()
if [ "$TIER" = "--replay" ]; then ARGS=(--replay "$2"); TIER=quick; else shift || true; ARGS=("$@"); fi

NEEDRACE=""
case "$ID" in C07|C08|C09|C10|C12|C13|C14|C15|C16|C20) NEEDRACE=race;; esac
build $NEEDRACE || inconclusive_build "$ID" "$TIER"
exec "$VERIF_DIR/bin/verifrun" "$ID" "$TIER" "${ARGS[@]}"
